#!/usr/bin/env python3
"""List, per property, its statement and the contracts (name, level, functions under contract): tools/inventory.py [pid ...]"""
import importlib, json, os, pathlib, sys
HERE = pathlib.Path(__file__).resolve().parent.parent
sys.path.insert(0, str(HERE)); sys.path.insert(0, os.environ.get("BEYOND_REPO", "/repo"))
from pyvc import contract as pc
for m in sorted((HERE / "contracts").glob("*.py")):
    importlib.import_module(f"contracts.{m.stem}")
props = {json.loads(l)["id"]: json.loads(l) for l in open(HERE / "properties.jsonl")}
for pid in (sys.argv[1:] or sorted(props)):
    print("=" * 100); print(pid, props[pid]["title"]); print(props[pid]["statement"]); print()
    for cd in pc.PROPS.get(pid, []):
        doc = " ".join((cd.doc or "").split())[:230]
        print(f"  - {cd.name} [{cd.level}{'+grid' if cd.grid and cd.level == 'proof' else ''}] {doc}")
