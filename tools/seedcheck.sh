#!/bin/bash
# tools/seedcheck.sh <id> <check> [<check> ...]: store the seeded change found in /tmp/wt_<id> (/tmp/wt2_<id> for <id>-2, /tmp/wt3_<id> for <id>-3; if that worktree
# exists) under seeded/<id>, confirm its demo fails with / passes without the change, and run the given checks against a scratch copy of /repo (outside /repo and /verif,
# removed afterwards) with the change applied.  SEEDCHECK_INPLACE=1 applies it to /repo itself instead (git -C /repo apply ... / git -C /repo checkout -- .).
id=$1; shift
S=/verif/seeded/$id
mkdir -p $S
WT=/tmp/wt_$id
case $id in *-2) WT=/tmp/wt2_${id%-2};; *-3) WT=/tmp/wt3_${id%-3};; *-4) WT=/tmp/wt4_${id%-4};; *-5) WT=/tmp/wt5_${id%-5};; *-6) WT=/tmp/wt6_${id%-6};; *-7) WT=/tmp/wt7_${id%-7};; *-8) WT=/tmp/wt8_${id%-8};; *-9) WT=/tmp/wt9_${id%-9};; esac
if [ -d $WT ]; then
  git -C $WT diff -- beyond > $S/patch.diff
  cp $WT/demo.py $WT/meta.json $S/
fi
if [ -n "$SEEDCHECK_INPLACE" ]; then
  test -z "$(git -C /repo status --short)" || { echo "/repo not clean"; exit 2; }
  (cd /repo; PYTHONPATH=/repo /venv/bin/python $S/demo.py >/dev/null 2>&1; echo "demo clean exit=$?")
  git -C /repo apply $S/patch.diff || exit 2
  (cd /repo; PYTHONPATH=/repo /venv/bin/python $S/demo.py >/dev/null 2>&1; echo "demo mutant exit=$?")
  for p in "$@"; do
    PYVC_NO_EVIDENCE=1 /verif/check $p 2>&1 | grep "VIOLATION\|^C[0-9]*:\|UNDECIDED\|CHECKER" | cut -c1-220 | head -12
  done
  git -C /repo checkout -- .
  git -C /repo status --short | head -3
  exit 0
fi
D=$(mktemp -d /tmp/seedcheck_XXXXXX)
cp -r /repo/beyond /repo/tests $D/
(cd $D; PYTHONPATH=$D /venv/bin/python $S/demo.py >/dev/null 2>&1; echo "demo clean exit=$?")
patch -s -p1 -d $D < $S/patch.diff || { rm -rf $D; exit 2; }
(cd $D; PYTHONPATH=$D /venv/bin/python $S/demo.py >/dev/null 2>&1; echo "demo mutant exit=$?")
for p in "$@"; do
  BEYOND_REPO=$D PYVC_NO_EVIDENCE=1 /verif/check $p > $D/out.txt 2>&1
  grep "VIOLATION" $D/out.txt | cut -c1-220 | head -8; grep "UNDECIDED\|CHECKER" $D/out.txt | cut -c1-220 | head -4; grep "^C[0-9]*:" $D/out.txt | cut -c1-220
done
rm -rf $D
