#!/usr/bin/env python3
"""Mutant self-test (DESIGN §2.6): applies deliberately broken bodies to a scratch copy of the repo
(outside /repo and /verif), runs the corresponding check with BEYOND_REPO pointing at it and expects
exit 1 with a VIOLATION line.  Usage: tools/selftest.py [pid ...]"""
import json, os, shutil, subprocess, sys, tempfile
HERE = os.path.dirname(os.path.dirname(os.path.abspath(__file__)))
MUTANTS = json.load(open(os.path.join(HERE, "tools", "mutants.json")))

def main():
    args = [a for a in sys.argv[1:] if not a.startswith("--")]
    want = set(args)
    bad = 0
    results = []
    for m in MUTANTS:
        if want and m["pid"] not in want and m["name"] not in want:
            continue
        d = tempfile.mkdtemp(prefix="pyvc_mut_")
        try:
            shutil.copytree("/repo/beyond", os.path.join(d, "beyond"))
            p = os.path.join(d, m["file"])
            s = open(p, encoding="utf-8").read()
            if s.count(m["old"]) < 1:
                print(f"MUTANT-STALE {m['name']}: pattern not found"); bad += 1; continue
            s = s.replace(m["old"], m["new"], 1)
            open(p, "w", encoding="utf-8").write(s)
            env = dict(os.environ, BEYOND_REPO=d, PYVC_NO_EVIDENCE="1")
            r = subprocess.run([os.path.join(HERE, "check"), m["pid"], "--tier", "quick"], capture_output=True, text=True, env=env)
            viol = [l for l in r.stdout.splitlines() if l.startswith("VIOLATION")]
            ok = r.returncode == 1 and viol
            if m.get("equivalent"):
                # a change under which the property still holds: the check must stay silent (exit 0, no VIOLATION)
                ok = r.returncode == 0 and not viol
                print(("SILENT-OK " if ok else "FALSE-ALARM ") + f"{m['pid']} {m['name']} exit={r.returncode} " + (viol[0] if viol else ""))
                bad += 0 if ok else 1
                results.append({"pid": m["pid"], "name": m["name"], "file": m["file"], "equivalent": True, "silent": bool(ok), "exit": r.returncode})
                continue
            print(("DETECTED " if ok else "MISSED   ") + f"{m['pid']} {m['name']} exit={r.returncode} " + (viol[0].split('replay=')[1].split('/')[-1] if viol else r.stdout.strip().splitlines()[-1][:200] if r.stdout.strip() else r.stderr[-300:]))
            bad += 0 if ok else 1
            results.append({"pid": m["pid"], "name": m["name"], "file": m["file"], "detected": bool(ok), "exit": r.returncode,
                            "by": [l.split("replay=")[1].split("/")[-1].replace(".json", "") for l in viol][:4]})
        finally:
            shutil.rmtree(d, ignore_errors=True)
    if "--save" in sys.argv:
        path = os.environ.get("SELFTEST_OUT") or os.path.join(HERE, "tools", "selftest_results.json")
        old = {}
        if os.path.exists(path):
            old = {(r["pid"], r["name"]): r for r in json.load(open(path))["results"]}
        for r in results:
            old[(r["pid"], r["name"])] = r
        allr = sorted(old.values(), key=lambda r: (r["pid"], r["name"]))
        json.dump({"note": "last recorded outcome of tools/selftest.py per hand-written mutant (quick tier)", "detected": sum(r.get("detected", False) for r in allr), "total": sum(1 for r in allr if not r.get("equivalent")),
                   "equivalent_silent": sum(r.get("silent", False) for r in allr), "equivalent_total": sum(1 for r in allr if r.get("equivalent")),
                   "results": allr}, open(path, "w"), indent=1)
    return 1 if bad else 0

if __name__ == "__main__":
    sys.exit(main())
