#!/usr/bin/env python3
"""Regenerates /verif/MANIFEST.json from tools/claims.json (per-property claim texts) and validates it."""
import json, os, sys
HERE = os.path.dirname(os.path.dirname(os.path.abspath(__file__)))
claims = json.load(open(os.path.join(HERE, "tools", "claims.json")))
props = [json.loads(l) for l in open(os.path.join(HERE, "properties.jsonl"))]
checks, na = [], []
for p in props:
    pid = p["id"]
    c = claims.get(pid)
    if not c or c.get("not_applicable"):
        na.append({"property_id": pid, "reason": (c or {}).get("not_applicable", "no check built yet in this session (see DESIGN.md §9)")})
        continue
    checks.append({
        "property_id": pid,
        "quick_cmd": f"./check {pid} --tier quick",
        "thorough_cmd": f"./check {pid} --tier thorough",
        "evidence_file": f"/verif/evidence/{pid}.json",
        "replay_cmd_template": f"./check {pid} --replay {{path}}",
        "engine": "pyvc",
        "level_claimed": {"category": c["category"], "text": c["text"], "design_ref": c.get("design_ref", "DESIGN.md §5")},
        "level_note": c["note"],
        "technique": c["technique"],
    })
m = {
    "version": 1,
    "setup_cmd": "./setup.sh",
    "hooks": {"guard": "BEYOND_VERIF", "enable": "no source hooks: contracts are sidecar files in /verif/contracts; checks export BEYOND_VERIF=1 for uniformity only",
              "baseline_off_cmd": "cd /repo && /venv/bin/python -m pytest -ra -q -p no:cacheprovider --timeout=900 --continue-on-collection-errors",
              "source_commits": [], "add_only": True},
    "engines": [{"name": "pyvc", "path": "/verif/pyvc", "serves_properties": [c["property_id"] for c in checks],
                 "kind_free_text": "own VC generator: re-reads the real source of the functions under contract from /repo on every run, executes it on z3-backed symbolic values path by path against sidecar contracts (pre/post, loop invariants, callee contracts), discharges obligations with z3 / cvc5 / ideal-membership certificates; the same contracts armed concretely are the replay harness and the bounded stand-ins"}],
    "checks": checks,
    "notes": "Contract-based deductive verification with an own VC generator (no Python verifier is installed). exit 0 held / 1 VIOLATION / 2 UNDECIDED (solver unknown, never an alarm) / 3 CHECKER-ERROR. See DESIGN.md.",
    "not_applicable": na,
}
json.dump(m, open(os.path.join(HERE, "MANIFEST.json"), "w"), indent=1)
try:
    import jsonschema
    jsonschema.validate(m, json.load(open("/root/.vp/MANIFEST.schema.json")))
    print("MANIFEST.json valid;", len(checks), "checks,", len(na), "not_applicable")
except ImportError:
    print("jsonschema not available; not validated")
