#!/usr/bin/env python3
"""Run one contract body concretely on one assignment (the replay of a counterexample): tools/run_case.py <pid> <contract name> '<json assignment>'
(PYVC_DEBUG=1 makes the comparison helpers print what differs).  Run with /verif/.venv/bin/python; BEYOND_REPO selects the tree."""
import importlib, json, os, pathlib, sys
HERE = pathlib.Path(__file__).resolve().parent.parent
sys.path.insert(0, str(HERE))
sys.path.insert(0, os.environ.get("BEYOND_REPO", "/repo"))
from pyvc import contract as pc

def main():
    pid, name, assign = sys.argv[1], sys.argv[2], json.loads(sys.argv[3])
    for m in sorted((HERE / "contracts").glob("*.py")):
        importlib.import_module(f"contracts.{m.stem}")   # all of them: a contract may be registered under a second property from another module
    cdef = [c for c in pc.PROPS[pid] if c.name == name][0]
    if isinstance(assign, list):   # a history: earlier cases of the same contract first, the last one is the case reported
        for a in assign[:-1]:
            pc.run_concrete(cdef, a)
        assign = assign[-1]
    status, failures, ctx = pc.run_concrete(cdef, assign)
    if os.environ.get("PYVC_CASE_JSON"):
        print("PYVC_CASE_RESULT " + json.dumps({"status": status, "failures": [str(f) for f in failures]}))
    else:
        print(status, failures)
    return 0 if status in ("ok", "skip") else 1

if __name__ == "__main__":
    sys.exit(main())
