"""Independent two-body oracle for the bounded stand-ins (C05, C06, C19): universal-variable
propagation (Bate-Mueller-White / Vallado alg. 8 formulation), written for this sidecar, sharing no
code with beyond.  Works for elliptic and hyperbolic orbits, forwards and backwards."""
import math

import numpy as np


def _stumpff(z):
    if z > 1e-6:
        s = math.sqrt(z)
        return (1 - math.cos(s)) / z, (s - math.sin(s)) / (s ** 3)
    if z < -1e-6:
        s = math.sqrt(-z)
        return (math.cosh(s) - 1) / (-z), (math.sinh(s) - s) / (s ** 3)
    # series
    c = 1 / 2 - z / 24 + z * z / 720 - z ** 3 / 40320
    s_ = 1 / 6 - z / 120 + z * z / 5040 - z ** 3 / 362880
    return c, s_


def propagate(r0, v0, dt, mu):
    """state after dt seconds of Keplerian motion about a point mass mu"""
    r0 = np.asarray(r0, dtype=float)
    v0 = np.asarray(v0, dtype=float)
    if dt == 0:
        return r0.copy(), v0.copy()
    rn = float(np.linalg.norm(r0))
    vr = float(r0 @ v0) / rn
    alpha = 2 / rn - float(v0 @ v0) / mu  # 1/a
    sm = math.sqrt(mu)

    def f(chi):
        z = alpha * chi * chi
        try:
            C, S = _stumpff(z)
            val = rn * vr / sm * chi * chi * C + (1 - alpha * rn) * chi ** 3 * S + rn * chi - sm * dt
        except OverflowError:
            val = math.nan
        if not math.isfinite(val):
            return math.inf if chi > 0 else -math.inf
        return val

    def df(chi):
        z = alpha * chi * chi
        C, S = _stumpff(z)
        return rn * vr / sm * chi * (1 - z * S) + (1 - alpha * rn) * chi * chi * C + rn

    # df > 0 always (it is r(chi)), so f is monotonic: bracket then safeguarded Newton
    chi = sm * abs(alpha) * dt if abs(alpha) > 1e-12 else sm * dt / rn
    lo, hi = (0.0, max(chi, 1.0)) if dt > 0 else (min(chi, -1.0), 0.0)
    if dt > 0:
        while f(hi) < 0:
            hi *= 2
    else:
        while f(lo) > 0:
            lo *= 2
    chi = 0.5 * (lo + hi)
    width = hi - lo
    for it in range(500):
        fv = f(chi)
        if fv > 0:
            hi = chi
        else:
            lo = chi
        if hi - lo > 0.5 * width:
            # Newton is crawling (exponential regime): force a bisection step
            width = hi - lo
            chi = 0.5 * (lo + hi)
            continue
        width = hi - lo
        try:
            new = chi - fv / df(chi) if math.isfinite(fv) else 0.5 * (lo + hi)
        except OverflowError:
            new = 0.5 * (lo + hi)
        if not (lo < new < hi):
            new = 0.5 * (lo + hi)
        if abs(new - chi) <= 1e-15 * max(1.0, abs(chi)):
            chi = new
            break
        chi = new
    z = alpha * chi * chi
    C, S = _stumpff(z)
    fl = 1 - chi * chi / rn * C
    g = dt - chi ** 3 / sm * S
    r = fl * r0 + g * v0
    rnn = float(np.linalg.norm(r))
    fd = sm / (rnn * rn) * (z * S - 1) * chi
    gd = 1 - chi * chi / rnn * C
    v = fd * r0 + gd * v0
    return r, v


def elements(r, v, mu):
    """classical elements (a, e, i, raan, argp, nu) computed from the textbook vector definitions"""
    r = np.asarray(r, dtype=float)
    v = np.asarray(v, dtype=float)
    rn, vn = np.linalg.norm(r), np.linalg.norm(v)
    h = np.cross(r, v)
    hn = np.linalg.norm(h)
    nvec = np.cross([0, 0, 1.0], h)
    nn = np.linalg.norm(nvec)
    evec = ((vn ** 2 - mu / rn) * r - (r @ v) * v) / mu
    e = np.linalg.norm(evec)
    a = 1 / (2 / rn - vn ** 2 / mu)
    i = math.acos(max(-1, min(1, h[2] / hn)))
    raan = math.atan2(nvec[1], nvec[0]) % (2 * math.pi)
    argp = math.atan2(np.cross(nvec, evec) @ h / hn, nvec @ evec) % (2 * math.pi)
    nu = math.atan2(np.cross(evec, r) @ h / hn, evec @ r) % (2 * math.pi)
    return a, e, i, raan, argp, nu
