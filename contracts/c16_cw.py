"""C16: Clohessy-Wiltshire propagator (beyond/propagators/cw.py) and CWHelper."""
import itertools
import math
import types

import numpy as np

from pyvc.contract import contract
from pyvc import sym
from pyvc.adt import SymDate, SymTimedelta, SymStateVector
from pyvc.sym import Dual

CW = "beyond.propagators.cw"
CWC = f"{CW}:ClohessyWiltshire"

# The property's convention, written independently of the code: QSW = (radial, along-track,
# cross-track); TNW = (along-track, minus radial, cross-track).
P3 = np.array([[0, 1, 0], [-1, 0, 0], [0, 0, 1]], dtype=object)
P6 = np.zeros((6, 6), dtype=object)
P6[:3, :3] = P3
P6[3:, 3:] = P3


def _frame(w, orientation):
    body = types.SimpleNamespace(µ=None, mu=None)
    return w.obj("beyond.frames.frames:HillFrame", orientation=orientation, center=types.SimpleNamespace(body=body), name="Hill" + orientation)


def _dval(x):
    return x.v if isinstance(x, Dual) else x


def _ddot(x):
    return x.d if isinstance(x, Dual) else 0


def _mk(c, orientation, n):
    """symbolic propagator object (shadow of the real class) / real propagator"""
    if c.symbolic:
        w = c.world()
        cw = w.obj(CWC, sma=None, frame=_frame(w, orientation), _n=n)
        return cw
    from beyond.propagators.cw import ClohessyWiltshire
    from beyond.frames.frames import HillFrame
    import beyond.frames.frames as fr
    saved = fr.dynamic.get("Hill")
    frame = HillFrame(orientation)
    fr.dynamic["Hill"] = saved
    cw = ClohessyWiltshire(7e6, frame=frame)
    cw._n = n
    return cw


def _state(c, x, t0):
    if c.symbolic:
        return SymStateVector(list(x), date=SymDate(t0), form="cartesian", frame=None)
    from beyond.orbits import StateVector
    from beyond.dates import Date
    import beyond.frames.frames as fr
    return StateVector(list(x), Date(58000) + _td(t0), "cartesian", fr.Hill)


def _td(s):
    from datetime import timedelta
    return timedelta(seconds=float(s))


def _date(c, t):
    if c.symbolic:
        return SymDate(t)
    from beyond.dates import Date
    return Date(58000) + _td(t)


def _grid_hill(tier, rng):
    """n in {1.1e-3 (LEO), 1.5e-4 (MEO), 7.29e-5 (GEO)} x t in {-2T,-0.37T,0,0.1T,0.5T,T,1.73T} x
    4 seeded random relative states (|r|<5 km, |v|<5 m/s) and thrusts (<1e-3 m/s^2), both orientations"""
    for n in (1.1e-3, 1.5e-4, 7.29e-5):
        T = 2 * math.pi / n
        for f in (-2, -0.37, 0, 0.1, 0.5, 1, 1.73):
            for k in range(4 if tier == "quick" else 20):
                d = {"n": n, "t": round(f * T, 6), "t1": round(f * T, 6), "t2": round(rng.uniform(-T, T), 6), "orient": k % 2}
                for i in range(3):
                    d[f"x{i}"] = rng.uniform(-5e3, 5e3)
                    d[f"x{i+3}"] = rng.uniform(-5, 5)
                    d[f"a{i}"] = rng.uniform(-1e-3, 1e-3) if k % 3 else 0.0
                yield d


@contract("C16", "mean_motion", funcs=[f"{CWC}.n"])
def _(c):
    """n = sqrt(mu / sma^3)"""
    mu, sma = c.real("mu", lo=0), c.real("sma", lo=0)
    if not c.symbolic:
        return
    w = c.world()
    fr = _frame(w, "QSW")
    fr.center.body.µ = mu
    cw = w.obj(CWC, sma=sma, frame=fr)
    n = cw.n
    c.ensure("def", sym.And(n > 0, n * n * sma * sma * sma == mu))


@contract("C16", "hill", funcs=[f"{CWC}._propagate"], grid=_grid_hill, rtol=1e-7, atol=1e-9)
def _(c):
    """the state returned by _propagate solves Hill's equations (QSW axes), with constant thrust"""
    n = c.real("n", lo=0)
    t = c.real("t")
    x0 = c.vec("x", 6)
    a = c.vec("a", 3)
    orient = c.choice("orient", ["QSW", "TNW"])
    cw = _mk(c, orient, n)
    # Hill's equations are stated in QSW; for a TNW propagator the state/thrust are expressed in TNW
    to_q3 = np.identity(3).astype(int).astype(object) if orient == "QSW" else P3.T
    to_q6 = np.identity(6).astype(int).astype(object) if orient == "QSW" else P6.T
    if c.symbolic:
        orb = _state(c, x0, 0)
        new0 = cw._propagate(SymDate(0), orb, a)
        c.ensure("init", c.all_eq(np.asarray(new0), x0))
        c.ensure("init.date", new0.date.t == 0)
        c.ensure("init.fresh_object", bool(new0 is not orb))  # callers add delta-v in place to what _propagate returns
        new = cw._propagate(SymDate(Dual(t, 1)), orb, a)
        y = to_q6 @ np.asarray(new)
        aq = to_q3 @ a
        pos, vel = y[:3], y[3:]
        c.ensure("ode.kinematic", c.conj([_ddot(pos[i]) == _dval(vel[i]) for i in range(3)]))
        c.ensure("ode.radial", _ddot(vel[0]) - 2 * n * _dval(vel[1]) - 3 * n * n * _dval(pos[0]) == aq[0])
        c.ensure("ode.along", _ddot(vel[1]) + 2 * n * _dval(vel[0]) == aq[1])
        c.ensure("ode.cross", _ddot(vel[2]) + n * n * _dval(pos[2]) == aq[2])
        c.ensure("date", _dval(new.date.t) == t)
        c.axiom("ode.uniqueness", True, "a function satisfying a linear ODE with the right initial value is its unique solution")
    else:
        # bounded stand-in: finite-difference check of Hill's equations on the real function
        orb = _state(c, x0, 0)
        h = round(1e-3 / n, 6)
        f = lambda tt: to_q6 @ np.asarray(cw._propagate(_date(c, tt), orb, np.array(a, dtype=float)), dtype=float)
        ym, y0, yp = f(t - h), f(t), f(t + h)
        d1 = (yp - ym) / (2 * h)
        aq = to_q3.astype(float) @ np.array(a, dtype=float)
        sc = max(1.0, float(np.abs(y0[:3]).max()) * n, float(np.abs(y0[3:]).max()))
        c.ensure("ode.kinematic", all(c.eq(d1[i], y0[3 + i], scale=sc, rtol=1e-5) for i in range(3)))
        sa = sc * n
        c.ensure("ode.radial", c.eq(d1[3] - 2 * n * y0[4] - 3 * n * n * y0[0], aq[0], scale=sa, rtol=1e-4, atol=1e-9))
        c.ensure("ode.along", c.eq(d1[4] + 2 * n * y0[3], aq[1], scale=sa, rtol=1e-4, atol=1e-9))
        c.ensure("ode.cross", c.eq(d1[5] + n * n * y0[2], aq[2], scale=sa, rtol=1e-4, atol=1e-9))
        new0 = cw._propagate(_date(c, 0), orb, np.array(a, dtype=float))
        c.ensure("init", c.all_eq(np.asarray(new0, dtype=float), x0, scale=sc))


@contract("C16", "compose", funcs=[f"{CWC}._propagate"], grid=_grid_hill, rtol=1e-7, atol=1e-6)
def _(c):
    """Phi(t2) Phi(t1) = Phi(t1+t2) (same constant thrust), hence Phi(-t) Phi(t) = I"""
    n = c.real("n", lo=0)
    t1, t2 = c.real("t1"), c.real("t2")
    x0 = c.vec("x", 6)
    a = c.vec("a", 3)
    orient = c.choice("orient", ["QSW", "TNW"])
    cw = _mk(c, orient, n)
    af = a if c.symbolic else np.array(a, dtype=float)
    orb = _state(c, x0, 0)
    mid = cw._propagate(_date(c, t1), orb, af)
    two = cw._propagate(_date(c, t1 + t2), mid, af)
    one = cw._propagate(_date(c, t1 + t2), orb, af)
    sc = None if c.symbolic else max(1.0, float(np.abs(np.asarray(one, dtype=float)).max()))
    for i in range(6):
        c.ensure(f"compose.{i}", c.eq(two[i], one[i], scale=sc))
    back = cw._propagate(_date(c, 0), mid, af)
    for i in range(6):
        c.ensure(f"inverse.{i}", c.eq(back[i], x0[i], scale=sc))


@contract("C16", "tnw", funcs=[f"{CWC}._propagate", f"{CWC}._mat3", f"{CWC}._mat6"], grid=_grid_hill, rtol=1e-9, atol=1e-7)
def _(c):
    """results in TNW orientation are the fixed axis permutation of those in QSW"""
    n = c.real("n", lo=0)
    t = c.real("t")
    x0 = c.vec("x", 6)
    a = c.vec("a", 3)
    af = a if c.symbolic else np.array(a, dtype=float)
    cq, ct = _mk(c, "QSW", n), _mk(c, "TNW", n)
    P3_, P6_ = (P3, P6) if c.symbolic else (P3.astype(float), P6.astype(float))
    rq = cq._propagate(_date(c, t), _state(c, x0, 0), af)
    rt = ct._propagate(_date(c, t), _state(c, P6_ @ x0, 0), P3_ @ af)
    sc = None if c.symbolic else max(1.0, float(np.abs(np.asarray(rq, dtype=float)).max()))
    c.ensure("permutation", c.all_eq(np.asarray(rt), P6_ @ np.asarray(rq), scale=sc))
    c.ensure("mat3", c.all_eq(ct._mat3, P3_))
    c.ensure("mat6", c.all_eq(ct._mat6, P6_))


@contract("C16", "copy", funcs=[f"{CWC}.copy", f"{CWC}.__init__"])
def _(c):
    """the copy every Orbit.copy() / propagated state carries is a propagator of the same class about the same target (sma) in the very same Hill frame (hence the
    same orientation), whichever Hill frame was registered last"""
    if not c.symbolic:
        return
    sma = c.real("sma", lo=0)
    orient = c.choice("orient", ["QSW", "TNW"])
    w = c.world(stubs={f"{CW}:get_frame": lambda name: _frame(w, "TNW" if orient == "QSW" else "QSW")})
    frame = _frame(w, orient)
    cw = w.obj(CWC, sma=sma, frame=frame)
    cp = cw.copy()
    c.ensure("class", cp._pv_cls is cw._pv_cls if hasattr(cp, "_pv_cls") else type(cp) is type(cw))
    c.ensure("sma", cp.sma == sma)
    c.ensure("frame", cp.frame is frame)
    c.ensure("orientation", cp.frame.orientation == orient)
    c.ensure("distinct", cp is not cw)


def _grid_orient(tier, rng):
    """which Hill frame is created last {QSW, TNW} x n of {LEO, GEO} x (t1, t2) in 4 pairs of either sign x 2 seeded states"""
    for last in (0, 1):
        for sma in (7.0e6, 4.2164e7):
            for t1, t2 in ((1234.0, 2345.0), (-800.0, 3000.0), (5000.0, -1200.0), (-400.0, -900.0)):
                for seed in range(2 if tier != "quick" else 1):
                    yield {"last": last, "sma": sma, "t1": t1, "t2": t2, "seed": seed}


@contract("C16", "native.orientations", funcs=[f"{CWC}.propagate", f"{CWC}.copy", "beyond.orbits.orbit:Orbit.propagate"], grid=_grid_orient, level="bounded")
def _(c):
    """bounded, through the public Orbit.propagate with both orientations alive in the same process: t1 then t2 from the propagated result equals t1+t2, propagating
    back gives the initial state, the same holds from a copy of the orbit, and the TNW results are the fixed permutation of the QSW ones"""
    from beyond.dates import Date, timedelta
    from beyond.orbits import Orbit
    from beyond.frames.frames import HillFrame
    import beyond.frames.frames as fr
    from beyond.propagators.cw import ClohessyWiltshire
    last = c.choice("last", ["QSW", "TNW"])
    sma, t1, t2 = c.real("sma"), c.real("t1"), c.real("t2")
    rng = np.random.default_rng(160 + c.integer("seed"))
    rel = rng.normal(size=6) * np.array([300.0, 2500.0, 100.0, 0.1, 0.3, 0.05])
    saved = fr.dynamic.get("Hill")
    try:
        names = ["TNW", "QSW"] if last == "QSW" else ["QSW", "TNW"]
        frames = {k: HillFrame(orientation=k) for k in names}
        d0 = Date(2020, 5, 24)
        T1, T2 = timedelta(seconds=t1), timedelta(seconds=t2)
        res = {}
        for k, frame in frames.items():
            p = ClohessyWiltshire(sma, frame=frame)
            M = P6.astype(float) if k == "TNW" else np.identity(6)
            orb = Orbit(M @ rel, d0, "cartesian", frame, p)
            direct = np.asarray(orb.propagate(T1 + T2), dtype=float)
            step = orb.propagate(T1)
            two = np.asarray(step.propagate(T2), dtype=float)
            back = np.asarray(step.propagate(-T1), dtype=float)
            cp = orb.copy()
            viacopy = np.asarray(cp.propagate(T1 + T2), dtype=float)
            sc = max(1.0, float(np.abs(direct).max()))
            c.ensure(f"{k}.compose", c.all_eq(two, direct, scale=sc, rtol=1e-9, atol=1e-6))
            c.ensure(f"{k}.inverse", c.all_eq(back, M @ rel, scale=sc, rtol=1e-9, atol=1e-6))
            c.ensure(f"{k}.copy", c.all_eq(viacopy, direct, scale=sc, rtol=1e-12, atol=1e-9))
            c.ensure(f"{k}.propagator_frame", step.propagator.frame is frame and cp.propagator.frame is frame)
            res[k] = (direct, two)
        sc = max(1.0, float(np.abs(res["QSW"][0]).max()))
        c.ensure("permutation.direct", c.all_eq(res["TNW"][0], P6.astype(float) @ res["QSW"][0], scale=sc, rtol=1e-9, atol=1e-6))
        c.ensure("permutation.two_steps", c.all_eq(res["TNW"][1], P6.astype(float) @ res["QSW"][1], scale=sc, rtol=1e-9, atol=1e-6))
    finally:
        if saved is not None:
            fr.dynamic["Hill"] = saved


# ---------------------------------------------------------------------------------------------
# maneuver sequencing in propagate(): callee `_propagate` by contract (pure function of its
# arguments, result dated at the requested date); ImpulsiveMan.dv / ContinuousMan.accel natively.
# ---------------------------------------------------------------------------------------------

def _P(t_from, t_to, x, a):
    """abstract transition: 6 uninterpreted functions of (from, to, state, thrust)"""
    args = [t_from, t_to] + list(x) + list(a)
    return [sym.uf(f"Phi{i}", *args) for i in range(6)]


def _stub_propagate(trace):
    def stub(self, date, orb, accel=None):
        a = [0, 0, 0] if accel is None else list(accel)
        out = _P(orb.date.t, date.t, list(np.asarray(orb)), a)
        trace.append((orb.date.t, date.t))
        d = dict(object.__getattribute__(orb, "_data"))
        d["date"] = date
        return SymStateVector(out, **d)
    return stub


def _grid_seq(tier, rng):
    """6 maneuver patterns x target date before / between / at / after the maneuver dates x 3 seeded states; the first maneuver after the epoch or before it (an impulse
    already in the past, a burn under way at the epoch)"""
    for pat in range(6):
        for T in (-50.0, 100.0, 150.0, 400.0, 1000.0, 5000.0):
            for k in range(3 if tier == "quick" else 12):
                # (first maneuver after the epoch, or -- every third case -- before it: 300 s before for an impulse; a burn started 100 s before and still under way)
                d0_ = 100.0 if (k + pat) % 3 else (-300.0 if pat in (1, 3, 4) else -100.0)
                d = {"pattern": pat, "n": 1.1e-3, "T": T, "d0": d0_, "d1": 400.0 + 50 * k, "dur0": 250.0, "dur1": 300.0, "pos0": (k + pat) % 3, "pos1": (k + 2 * pat + 1) % 3}
                for i in range(6):
                    d[f"x{i}"] = rng.uniform(-100, 100) * (1 if i < 3 else 0.01)
                for i in range(3):
                    d[f"dv0{i}"], d[f"dv1{i}"] = rng.uniform(-1, 1), rng.uniform(-1, 1)
                    d[f"acc0{i}"], d[f"acc1{i}"] = rng.uniform(-1e-3, 1e-3), rng.uniform(-1e-3, 1e-3)
                yield d


@contract("C16", "man_sequence", funcs=[f"{CWC}.propagate"], grid=_grid_seq, rtol=1e-9, atol=1e-9,
          assumptions=["callee contract ClohessyWiltshire._propagate: pure function of (orb.date, date, state, accel), result dated `date` (proved in C16.hill)"])
def _(c):
    """each impulsive maneuver dated in [epoch.., date] adds exactly its dv exactly once at its date;
    a continuous one contributes thrust exactly on [start, min(stop, date))"""
    from beyond.orbits.man import ImpulsiveMan, ContinuousMan
    pattern = c.choice("pattern", [(), ("I",), ("C",), ("I", "I"), ("I", "C"), ("C", "I")])
    trace = []
    n = c.real("n", lo=0)
    if c.symbolic:
        w = c.world(stubs={f"{CWC}._propagate": _stub_propagate(trace)})
        cw = w.obj(CWC, sma=None, frame=_frame(w, "QSW"), _n=n)
        mkdate, mkdur = SymDate, SymTimedelta
        P = _P
    else:
        cw = _mk(c, "QSW", n)
        mkdate, mkdur = (lambda t: _date(c, t)), _td

        def P(t_from, t_to, x, a):
            return list(np.asarray(cw._propagate(_date(c, t_to), _state(c, x, t_from), np.array(a, dtype=float)), dtype=float))
    x0 = c.vec("x", 6)
    T = c.real("T")
    mans, spec = [], []
    prev = None
    for k, kind in enumerate(pattern):
        d = c.real(f"d{k}")
        if prev is not None:
            c.require(d >= prev, "chronological")
        if kind == "I":
            dv = c.vec(f"dv{k}", 3)
            mans.append(ImpulsiveMan(mkdate(d), dv))
            spec.append(("I", d, dv))
            prev = d
        else:
            dur = c.real(f"dur{k}", lo=0)
            acc = c.vec(f"acc{k}", 3)
            # the same burn interval [d, d + dur) described by its start, its middle or its end
            pos = c.choice(f"pos{k}", ["start", "median", "stop"])
            given = {"start": d, "median": d + dur / 2, "stop": d + dur}[pos]
            mans.append(ContinuousMan(mkdate(given), mkdur(dur), accel=acc, date_pos=pos))
            spec.append(("C", d, dur, acc))
            prev = d + dur
    if c.symbolic:
        orb0 = SymStateVector(list(x0), date=SymDate(0), form="cartesian", frame=None, maneuvers=mans)
        object.__getattribute__(cw, "__dict__")["_orbit"] = orb0
    else:
        orb0 = _state(c, x0, 0)
        orb0.maneuvers = mans
        cw.orbit = orb0
    res = cw.propagate(mkdate(T))
    # specification (from the property text), over the same transition function
    t, x = 0, list(x0)
    done = False
    # (from the property: a maneuver takes effect exactly once, at its date; the state handed over IS the state at its epoch, so a maneuver dated before the epoch -- the
    # list a propagated state carries along still names it -- has already had its effect and is not applied again; of a burn under way at the epoch the remainder is applied)
    for m in spec:
        if m[0] == "I":
            _, d, dv = m
            # (both ends closed, as the code has it: the state returned for the very date of an impulse includes it -- which is what "leaving it at rest where they say
            # so" asks of the helper's last impulse -- at the price of a request split exactly there counting it twice: known finding, C16.compose_at_a_maneuver_date)
            if T >= d and d >= 0:
                x = P(t, d, x, [0, 0, 0])
                x = x[:3] + [x[3 + i] + dv[i] for i in range(3)]
                t = d
        else:
            _, d, dur, acc = m
            if T >= d and d + dur > 0:
                if d > t:
                    x = P(t, d, x, [0, 0, 0])
                    t = d
                if T < d + dur:
                    x = P(t, T, x, list(acc))
                    t = T
                    done = True
                    break
                x = P(t, d + dur, x, list(acc))
                t = d + dur
    if not done:
        x = P(t, T, x, [0, 0, 0])
    sc = None if c.symbolic else max(1.0, float(np.abs(np.array(x, dtype=float)).max()))
    c.ensure("result", c.all_eq(np.asarray(res), np.array(x, dtype=object), scale=sc))
    if c.symbolic:
        c.ensure("date", res.date.t == T)
        c.ensure("initial_orbit_untouched", sym.And(c.all_eq(np.asarray(orb0), x0), orb0.date.t == 0))
    else:
        c.ensure("initial_orbit_untouched", c.all_eq(np.asarray(orb0, dtype=float), x0))


# ---------------------------------------------------------------------------------------------
# CWHelper: the maneuvers it builds move the chaser, under this propagator, by what they announce
# ---------------------------------------------------------------------------------------------

HELP = "beyond.utils.cwhelper"


def _helper_world(c, orientation, n):
    def orbit_factory(coord, date, form=None, frame=None, propagator=None, **kw):
        return SymStateVector(list(coord), date=date, form="cartesian", frame=frame, propagator=propagator)

    def td(seconds=0):
        return SymTimedelta(seconds)
    w = c.world(names={HELP: {"Orbit": orbit_factory, "timedelta": td}})
    fr = _frame(w, orientation)
    cw = w.obj(CWC, sma=None, frame=fr, _n=n)
    helper = w.obj(f"{HELP}:CWHelper", propagator=cw)
    return w, cw, helper


def _helper_real(orientation, n):
    from beyond.utils.cwhelper import CWHelper
    cw = _mk(type("C", (), {"symbolic": False})(), orientation, n)
    return cw, CWHelper(cw)


def _grid_helper(tier, rng):
    """n in {1.1e-3, 1.5e-4, 7.29e-5} x radial/tangential distances in {-3000,-600,-1,50,2000} m x both
    orientations x impulsive/continuous x approach speed {0.05, 0.5} m/s"""
    for n in (1.1e-3, 1.5e-4, 7.29e-5):
        for R in (-3000.0, -600.0, -1.0, 50.0, 2000.0):
            for Y in (-1500.0, 30.0):
                for o in (0, 1):
                    for cont in (0, 1):
                        for v in (0.05, 0.5):
                            yield {"n": n, "R": R, "Y": Y, "Y0": -100.0 + R / 7, "orient": o, "continuous": cont, "dv": v, "tau": 37.0}


def _run_helper(c, build, expect):
    """common scaffold: build(helper, date0) -> (orbit, maneuvers, end_date); expect(q0, q1) clauses in QSW"""
    n = c.real("n", lo=0)
    orient = c.choice("orient", ["QSW", "TNW"])
    if c.symbolic:
        c.run.trig_resolve = True
        w, cw, helper = _helper_world(c, orient, n)
        date0 = SymDate(0)
        toq = np.identity(6).astype(int).astype(object) if orient == "QSW" else P6.T
    else:
        cw, helper = _helper_real(orient, n)
        from beyond.dates import Date
        date0 = Date(58000)
        toq = np.identity(6) if orient == "QSW" else P6.T.astype(float)
    orb, mans, end = build(helper, date0)
    orb.maneuvers = list(mans)
    if c.symbolic:
        object.__getattribute__(cw, "__dict__")["_orbit"] = orb
        q0 = toq @ np.asarray(orb)
        q1 = toq @ np.asarray(cw.propagate(end))
    else:
        cw.orbit = orb
        q0 = toq @ np.asarray(orb, dtype=float)
        q1 = toq @ np.asarray(cw.propagate(end), dtype=float)
    expect(q0, q1, n)


@contract("C16", "helper.coelliptic", funcs=[f"{HELP}:CWHelper.coelliptic", f"{HELP}:CWHelper.coelliptic_velocity", f"{CWC}.propagate"],
          grid=_grid_helper, rtol=1e-9, atol=1e-6,
          assumptions=["inlined: ClohessyWiltshire._propagate (verified separately in C16.hill)"])
def _(c):
    """a coelliptic chaser keeps its radial offset and drifts along-track at -1.5 n radial"""
    R, Y, tau = c.real("R"), c.real("Y"), c.real("tau")

    def build(h, d0):
        orb = h.coelliptic(d0, R, Y)
        end = d0 + (SymTimedelta(tau) if c.symbolic else _td(tau))
        return orb, [], end

    def expect(q0, q1, n):
        c.ensure("initial", c.all_eq(q0[:3], np.array([R, Y, 0], dtype=object)))
        c.ensure("radial_kept", c.eq(q1[0], R, scale=abs(R) + 1 if not c.symbolic else None))
        c.ensure("drift", c.eq(q1[1], Y - 1.5 * n * R * tau, scale=abs(Y) + abs(R) + 1 if not c.symbolic else None))
        c.ensure("velocity_kept", c.all_eq(q1[3:], q0[3:]))
    _run_helper(c, build, expect)


def _after(c, d0, dur):
    return d0 + dur


@contract("C16", "helper.hohmann", funcs=[f"{HELP}:CWHelper.hohmann", f"{HELP}:CWHelper.hohmann_distance", f"{HELP}:CWHelper.period", f"{CWC}.propagate"],
          grid=_grid_helper, rtol=1e-7, atol=1e-4,
          assumptions=["inlined: ClohessyWiltshire._propagate", "timedelta microsecond rounding of the period ignored in the proof (S5, real form); the bounded stand-in sees it"])
def _(c):
    """from a coelliptic orbit `radial` below: the transfer raises by `radial`, advances along-track by
    hohmann_distance(radial) and ends at rest"""
    R, Y = c.real("R"), c.real("Y")
    cont = c.choice("continuous", [False, True])

    def build(h, d0):
        orb = h.coelliptic(d0, -R, Y)
        mans = h.hohmann(R, d0, continuous=cont)
        end = d0 + (h.period if cont else h.period / 2)
        build.dist = h.hohmann_distance(R, continuous=cont)
        return orb, mans, end

    def expect(q0, q1, n):
        sc = None if c.symbolic else abs(R) * 10 + 1
        c.ensure("radial", c.eq(q1[0], 0, scale=sc))
        c.ensure("along", c.eq(q1[1] - q0[1], build.dist, scale=sc))
        c.ensure("cross", c.eq(q1[2], 0, scale=sc))
        c.ensure("rest", c.conj([c.eq(q1[3 + i], 0, scale=(None if c.symbolic else abs(R) * n + 1e-9), atol=1e-9) for i in range(3)]))
    _run_helper(c, build, expect)


@contract("C16", "helper.eccentric_boost", funcs=[f"{HELP}:CWHelper.eccentric_boost", f"{CWC}.propagate"],
          grid=_grid_helper, rtol=1e-7, atol=1e-4, assumptions=["inlined: ClohessyWiltshire._propagate"])
def _(c):
    """from rest on the V-bar: moves along-track by `tangential`, back on the V-bar, at rest"""
    Yd, Y0 = c.real("Y"), c.real("Y0")
    cont = c.choice("continuous", [False, True])

    def build(h, d0):
        orb = h.coelliptic(d0, 0, Y0)
        mans = h.eccentric_boost(Yd, d0, continuous=cont)
        return orb, mans, d0 + (h.period if cont else h.period / 2)

    def expect(q0, q1, n):
        sc = None if c.symbolic else abs(Yd) * 10 + 1
        c.ensure("radial", c.eq(q1[0], 0, scale=sc))
        c.ensure("along", c.eq(q1[1] - q0[1], Yd, scale=sc))
        c.ensure("rest", c.conj([c.eq(q1[3 + i], 0, scale=(None if c.symbolic else abs(Yd) * n + 1e-9), atol=1e-9) for i in range(3)]))
    _run_helper(c, build, expect)


@contract("C16", "helper.tangential_boost", funcs=[f"{HELP}:CWHelper.tangential_boost", f"{CWC}.propagate"],
          grid=_grid_helper, rtol=1e-7, atol=1e-4, assumptions=["inlined: ClohessyWiltshire._propagate"])
def _(c):
    """from rest on the V-bar: after one period the chaser has moved along-track by `tangential`, at rest"""
    Yd, Y0 = c.real("Y"), c.real("Y0")

    def build(h, d0):
        orb = h.coelliptic(d0, 0, Y0)
        mans = h.tangential_boost(Yd, d0)
        return orb, mans, d0 + h.period

    def expect(q0, q1, n):
        sc = None if c.symbolic else abs(Yd) * 10 + 1
        c.ensure("radial", c.eq(q1[0], 0, scale=sc))
        c.ensure("along", c.eq(q1[1] - q0[1], Yd, scale=sc))
        c.ensure("rest", c.conj([c.eq(q1[3 + i], 0, scale=(None if c.symbolic else abs(Yd) * n + 1e-9), atol=1e-9) for i in range(3)]))
    _run_helper(c, build, expect)


@contract("C16", "helper.vbar_linear", funcs=[f"{HELP}:CWHelper.vbar_linear", f"{CWC}.propagate"],
          grid=_grid_helper, rtol=1e-7, atol=1e-4, assumptions=["inlined: ClohessyWiltshire._propagate"])
def _(c):
    """linear V-bar approach: radial offset stays zero, `tangential` is covered, ends at rest"""
    Yd, Y0, v = c.real("Y"), c.real("Y0"), c.real("dv", lo=0)
    c.require(Yd != 0)

    def build(h, d0):
        orb = h.coelliptic(d0, 0, Y0)
        mans = h.vbar_linear(Yd, d0, v)
        build.mid = mans[1]
        return orb, mans, mans[2].date

    def expect(q0, q1, n):
        sc = None if c.symbolic else abs(Yd) * 10 + 1
        c.ensure("radial", c.eq(q1[0], 0, scale=sc))
        c.ensure("along", c.eq(q1[1] - q0[1], Yd, scale=sc))
        c.ensure("rest", c.conj([c.eq(q1[3 + i], 0, scale=(None if c.symbolic else abs(v) + 1e-9), atol=1e-9) for i in range(3)]))
    _run_helper(c, build, expect)


# ---------------------------------------------------------------------------------------------
# against the difference of two Keplerian orbits
# ---------------------------------------------------------------------------------------------

def _grid_kep(tier, rng):
    """target radius {6.8e6 (LEO), 2.66e7 (MEO), 4.2164e7 (GEO)} x 6 (quick: 3) seeded relative states (separation 0.2-3 km, 0-1.5 m/s) x dt in {0.1, 0.5, 1.3, -0.7} periods"""
    for R in (6.8e6, 2.66e7, 4.2164e7):
        for k in range(3 if tier == "quick" else 6):
            for frac in (0.1, 0.5, 1.3, -0.7):
                yield {"R": R, "seed": k, "frac": frac}


@contract("C16", "vs_kepler", funcs=[f"{CWC}.propagate", f"{CWC}._propagate"], grid=_grid_kep, level="bounded")
def _(c):
    """bounded: for small separations the Clohessy-Wiltshire state agrees with the difference of two Keplerian orbits (independent two-body solution) expressed in the
    target's rotating QSW frame to second order in the separation: the disagreement is below 12 d^2/R (1 + |n t|)^2 and falls by a factor 3 to 5.5 when the separation and
    relative velocity are halved (where it is above the rounding floor)"""
    from beyond.orbits import Orbit
    from beyond.dates import Date, timedelta
    from beyond.propagators.cw import ClohessyWiltshire
    import beyond.frames.frames as fr
    from beyond.constants import Earth
    from contracts import twobody
    mu = Earth.mu
    R = c.real("R")
    n = math.sqrt(mu / R ** 3)
    T = 2 * math.pi / n
    dt = c.real("frac") * T
    rng = np.random.default_rng(40 + c.integer("seed"))
    rho0 = rng.normal(size=3) * np.array([800.0, 1500.0, 600.0])
    rhod0 = rng.normal(size=3) * np.array([0.5, 0.8, 0.4])
    d0 = Date(2018, 5, 4)
    # target: circular, in the x-y plane of an inertial frame, at (R, 0, 0) moving along +y
    rt0, vt0 = np.array([R, 0.0, 0.0]), np.array([0.0, math.sqrt(mu / R), 0.0])
    om = np.array([0.0, 0.0, n])

    def kepler_relative(scale):
        # at t0 the QSW axes coincide with the inertial ones
        rc0 = rt0 + scale * rho0
        vc0 = vt0 + scale * rhod0 + np.cross(om, scale * rho0)
        rc, vc = twobody.propagate(rc0, vc0, dt, mu)
        rt, vt = twobody.propagate(rt0, vt0, dt, mu)
        q = rt / np.linalg.norm(rt)
        w = np.cross(rt, vt)
        w /= np.linalg.norm(w)
        Q = np.array([q, np.cross(w, q), w])
        rho = Q @ (rc - rt)
        return np.concatenate([rho, Q @ (vc - vt) - np.cross(om, rho)])

    def cw_relative(scale):
        p = ClohessyWiltshire(R)
        o = Orbit(list(scale * rho0) + list(scale * rhod0), d0, "cartesian", fr.Hill, p)
        return np.asarray(o.propagate(d0 + timedelta(seconds=dt)), dtype=float)
    errs = []
    for scale in (1.0, 0.5):
        k, w_ = kepler_relative(scale), cw_relative(scale)
        # the Hill frame is curvilinear along the track: compare the radial / cross-track offsets and the along-track arc
        errs.append(float(np.linalg.norm((k - w_)[:3])))
    d = float(np.linalg.norm(rho0) + np.linalg.norm(rhod0) / n)
    import os
    if os.environ.get("PYVC_DEBUG"):
        print("vs_kepler", R, c.real("frac"), errs, 12 * d * d / R * (1 + abs(n * dt)) ** 2)
    c.ensure("second_order_bound", errs[0] <= 12 * d * d / R * (1 + abs(n * dt)) ** 2)
    floor = 1e-4
    c.ensure("second_order_rate", errs[0] <= floor or 3.0 <= errs[0] / max(errs[1], 1e-12) <= 5.5)


# ---------------------------------------------------------------------------------------------
# composition where the request is split exactly AT a maneuver date (the two clauses of the property meet: "exactly once at its date" and "t1 then t2 equals t1+t2")
# ---------------------------------------------------------------------------------------------

def _grid_split_at(tier, rng):
    """maneuver lists {one impulse, two impulses, burn then impulse, impulse then burn} x the request split exactly at {first maneuver's date, second maneuver's date / the
    burn's start, the burn's stop, 1 s before the first, 1 s after the first} x orientation {QSW, TNW}"""
    for pat in range(4):
        for where in range(5):
            for ori in (0, 1):
                yield {"pattern": pat, "where": where, "ori": ori}


@contract("C16", "compose_at_a_maneuver_date", funcs=[f"{CWC}.propagate"], grid=_grid_split_at, level="bounded")
def _(c):
    """bounded: propagating to a date that is exactly a maneuver's date (an impulse's date, a burn's start or stop) and then, from the returned state, to the end gives what
    propagating to the end directly gives (each impulse counted once, each burn delivered once): 1e-9 relative"""
    from beyond.orbits import Orbit
    from beyond.dates import Date, timedelta
    from beyond.propagators.cw import ClohessyWiltshire
    from beyond.frames.frames import HillFrame
    import beyond.frames.frames as fr
    from beyond.orbits.man import ImpulsiveMan, ContinuousMan
    saved = fr.dynamic.get("Hill")
    frame = HillFrame(["QSW", "TNW"][c.integer("ori")])
    fr.dynamic["Hill"] = saved
    d0 = Date(2020, 1, 1)
    p = ClohessyWiltshire(6.8e6, frame=frame)
    o = Orbit([-600.0, -1500.0, 10.0, 0.1, 0.2, 0.0], d0, "cartesian", frame, p)
    t1, t2 = d0 + timedelta(seconds=1000), d0 + timedelta(seconds=1700)
    dur = timedelta(seconds=300)
    o.maneuvers = [[ImpulsiveMan(t1, [0.0, 0.05, 0.0])],
                   [ImpulsiveMan(t1, [0.0, 0.05, 0.0]), ImpulsiveMan(t2, [0.02, -0.03, 0.01])],
                   [ContinuousMan(t1, dur, dv=[0.0, 0.3, 0.0]), ImpulsiveMan(t2, [0.02, -0.03, 0.01])],
                   [ImpulsiveMan(t1, [0.0, 0.05, 0.0]), ContinuousMan(t2, dur, dv=[0.0, 0.3, 0.0])]][c.integer("pattern")]
    pat = c.integer("pattern")
    burn_start = {2: t1, 3: t2}.get(pat)
    split = [t1, t2, (burn_start + dur) if burn_start is not None else t2, t1 - timedelta(seconds=1), t1 + timedelta(seconds=1)][c.integer("where")]
    end = d0 + timedelta(seconds=2500)
    direct = np.asarray(o.propagate(end), dtype=float)
    mid = o.propagate(split)
    chained = np.asarray(mid.propagate(end), dtype=float)
    sc = max(1.0, float(np.abs(direct[:3]).max()))
    c.ensure("split_equals_direct", bool(np.linalg.norm(chained[:3] - direct[:3]) <= 1e-9 * sc + 1e-6 and np.linalg.norm(chained[3:] - direct[3:]) <= 1e-9))
    c.ensure("returned_state_dated_at_the_split", mid.date == split)


# ---------------------------------------------------------------------------------------------
# an impulse dated while a burn is under way (a list ordered by date may hold one)
# ---------------------------------------------------------------------------------------------

def _grid_overlap(tier, rng):
    """impulse dated {inside the burn, at the burn's start, at the burn's stop, after it (control)} x orientation {QSW, TNW} x target date {after the burn, inside it after the impulse}"""
    for where in range(4):
        for ori in (0, 1):
            for tgt in (0, 1):
                yield {"where": where, "ori": ori, "target": tgt}


@contract("C16", "impulse_during_a_burn", funcs=[f"{CWC}.propagate"], grid=_grid_overlap, level="bounded")
def _(c):
    """bounded: with the list [burn(start, duration), impulse(date)] ordered by date, the impulse changes the velocity by its delta-v once at its date also when that date
    falls while the burn is under way: the result equals the piecewise solution (thrust up to the impulse, + dv, thrust to the end of the burn, coast) built with the
    propagator's own transition function (1e-9 relative)"""
    from beyond.orbits import Orbit
    from beyond.dates import Date, timedelta
    from beyond.propagators.cw import ClohessyWiltshire
    from beyond.frames.frames import HillFrame
    import beyond.frames.frames as fr
    from beyond.orbits.man import ImpulsiveMan, ContinuousMan
    saved = fr.dynamic.get("Hill")
    frame = HillFrame(["QSW", "TNW"][c.integer("ori")])
    fr.dynamic["Hill"] = saved
    d0 = Date(2020, 1, 1)
    p = ClohessyWiltshire(6.8e6, frame=frame)
    o = Orbit([-600.0, -1500.0, 10.0, 0.1, 0.2, 0.0], d0, "cartesian", frame, p)
    t1 = d0 + timedelta(seconds=1000)
    dur = timedelta(seconds=300)
    ti = [t1 + timedelta(seconds=120), t1, t1 + dur, t1 + dur + timedelta(seconds=50)][c.integer("where")]
    burn = ContinuousMan(t1, dur, dv=[0.0, 0.3, 0.0])
    imp = ImpulsiveMan(ti, [0.02, -0.03, 0.01])
    o.maneuvers = [burn, imp] if ti > t1 else [imp, burn]
    end = d0 + timedelta(seconds=2500) if c.integer("target") == 0 else t1 + timedelta(seconds=200)
    c.require(end > ti)
    got = np.asarray(o.propagate(end), dtype=float)
    # the piecewise solution, with the propagator's own transition function
    plain = Orbit(np.asarray(o, dtype=float), d0, "cartesian", frame, p)
    x = plain
    cuts = sorted({t1, t1 + dur, ti, end})
    for a, b in zip([d0] + cuts, cuts):
        if b > end:
            break
        thrust = burn.accel(x) if (t1 <= a and b <= t1 + dur) else None
        x = p._propagate(b, x, thrust)
        if b == ti:
            x[3:] += imp.dv(x)
    want = np.asarray(x, dtype=float)
    sc = max(1.0, float(np.abs(want[:3]).max()))
    c.ensure("impulse_counted_once", bool(np.linalg.norm(got[:3] - want[:3]) <= 1e-9 * sc + 1e-6 and np.linalg.norm(got[3:] - want[3:]) <= 1e-9))
