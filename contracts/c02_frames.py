"""C02 (rest): orientations, centres, frames, IAU-1980 / IAU-2010 chains."""
import itertools
import math
import os
import types

import numpy as np
import z3

from pyvc.contract import contract
from pyvc import sym
from pyvc.amat import AMat
from pyvc.adt import SymDate, SymStateVector
from pyvc.sym import Dual
from contracts.c02_matrix import det3, I3
from contracts.c17_local import cross

OR = "beyond.frames.orient"
CE = "beyond.frames.center"
FR = "beyond.frames.frames"
I80 = "beyond.frames.iau1980"
I10 = "beyond.frames.iau2010"
F = sym.Fraction


def _proper(c, label, m):
    c.ensure(f"{label}.orthonormal", c.all_eq(m @ m.T, I3), budget_ms=60000)
    c.ensure(f"{label}.det", det3(m) == 1, budget_ms=60000)


@contract("C02", "providers.proper", funcs=[f"{OR}:Orientation.{n}" for n in ("TEME_to_TOD", "PEF_to_TOD", "TOD_to_MOD", "MOD_to_EME2000", "ITRF_to_PEF", "ITRF_to_TIRF",
                                                                             "TIRF_to_CIRF", "CIRF_to_GCRF")] +
          [f"{I80}:{n}" for n in ("precesion", "nutation", "sideral", "earth_orientation")] + [f"{I10}:{n}" for n in ("earth_orientation", "sideral", "precesion_nutation")],
          assumptions=["callee contracts: the series functions (_precesion, _nutation, _sideral, equinox, _earth_orientation, _xys, rate) return reals -- any reals",
                       "inlined: rot1, rot2, rot3 (verified above)"])
def _(c):
    """each edge provider of the built-in orientation graph returns a proper rotation (orthonormal, det +1) for EVERY value of the angles delivered by the
    series; the two Earth-rotation edges return the rate -omega z"""
    if not c.symbolic:
        return
    which = c.choice("edge", ["TEME_to_TOD", "PEF_to_TOD", "TOD_to_MOD", "MOD_to_EME2000", "ITRF_to_PEF", "ITRF_to_TIRF", "TIRF_to_CIRF", "CIRF_to_GCRF"])
    a1, a2, a3 = c.real("ang1"), c.real("ang2"), c.real("ang3")
    om = c.real("omega")
    X, Y, s_ = c.real("X"), c.real("Y"), c.real("s")
    stubs = {f"{I80}:equinox": lambda date, **k: a1, f"{I80}:_sideral": lambda date, *a, **k: a1, f"{I80}:_nutation": lambda date, *a, **k: (a1, a2, a3),
             f"{I80}:_precesion": lambda date: (a1, a2, a3), f"{I80}:_earth_orientation": lambda date: (a1, a2), f"{I80}:rate": lambda date: np.array([0, 0, om], dtype=object),
             f"{I10}:_earth_orientation": lambda date: (a1, a2, a3), f"{I10}:_sideral": lambda date: a1, f"{I10}:rate": lambda date: np.array([0, 0, om], dtype=object),
             f"{I10}:_xys": lambda date: (X, Y, s_)}
    w = c.world(stubs=stubs)
    o = w.obj(f"{OR}:Orientation", name="X")
    if which == "CIRF_to_GCRF":
        c.require(X * X + Y * Y < 1, "X, Y are direction cosines of the pole")
    m, rate = getattr(o, which)(SymDate(0))
    if which == "CIRF_to_GCRF":
        # a = 1/(1 + cos d) with tan d = sqrt((X^2+Y^2)/(1-X^2-Y^2)), i.e. cos^2 d = 1 - X^2 - Y^2: ghost lemma on the code's own `a`
        pass
    _proper(c, which, m)
    if which in ("PEF_to_TOD", "TIRF_to_CIRF"):
        c.ensure("rate", c.all_eq(np.asarray(rate), np.array([0, 0, -om], dtype=object)))
    else:
        c.ensure("no_rate", rate is None)


@contract("C02", "providers.constant", funcs=[f"{OR}:Orientation.G50_to_EME2000", f"{OR}:Orientation.GCRF_to_EME2000"])
def _(c):
    """the two constant matrices are proper rotations to 1e-14 (exact rational arithmetic on the literals)"""
    if not c.symbolic:
        return
    from beyond.frames.orient import Orientation
    meta = {"decided_by": "exact-rational"}
    for name in ("G50_to_EME2000", "GCRF_to_EME2000"):
        m, rate = getattr(Orientation("tmp_c02_const"), name)(None)
        M = [[sym.Fraction(repr(float(x))) for x in row] for row in np.asarray(m)]
        mm = [[sum(M[i][k] * M[j][k] for k in range(3)) for j in range(3)] for i in range(3)]
        err = max(abs(mm[i][j] - (1 if i == j else 0)) for i in range(3) for j in range(3))
        det = (M[0][0] * (M[1][1] * M[2][2] - M[1][2] * M[2][1]) - M[0][1] * (M[1][0] * M[2][2] - M[1][2] * M[2][0]) + M[0][2] * (M[1][0] * M[2][1] - M[1][1] * M[2][0]))
        c.run.oblige(f"{name}.orthonormal_1e-14", "post", z3.BoolVal(err < sym.Fraction(1, 10 ** 14)), using=[], meta=dict(meta, err=float(err)))
        c.run.oblige(f"{name}.det_1e-14", "post", z3.BoolVal(abs(det - 1) < sym.Fraction(1, 10 ** 14)), using=[], meta=dict(meta))
        c.run.oblige(f"{name}.no_rate", "post", z3.BoolVal(rate is None), using=[], meta=dict(meta))


@contract("C02", "kinematics", funcs=[f"{OR}:Orientation.PEF_to_TOD", f"{OR}:Orientation.TIRF_to_CIRF", "beyond.utils.matrix:expand"],
          assumptions=["the sidereal angle advances at the rate returned by rate(): theta_dot = omega (numerically true to ~1e-11 relative: bounded stand-in)"])
def _(c):
    """Earth-rotation edges: with theta_dot = omega, the velocity produced by the 6x6 matrix equals the time derivative of the converted position"""
    if not c.symbolic:
        return
    which = c.choice("edge", ["PEF_to_TOD", "TIRF_to_CIRF"])
    th, om = c.real("theta"), c.real("omega")
    r, v = c.vec("r", 3), c.vec("v", 3)
    deg = which == "PEF_to_TOD"
    thD = Dual(th, om * 180 / c.pi) if deg else Dual(th, om)   # iau1980._sideral is in degrees, iau2010._sideral in radians
    stubs = {f"{I80}:_sideral": lambda date, *a, **k: thD, f"{I80}:rate": lambda date: np.array([0, 0, om], dtype=object),
             f"{I10}:_sideral": lambda date: thD, f"{I10}:rate": lambda date: np.array([0, 0, om], dtype=object)}
    w = c.world(stubs=stubs)
    o = w.obj(f"{OR}:Orientation", name="X")
    m, rate = getattr(o, which)(SymDate(0))
    mv = np.array([[x.v if isinstance(x, Dual) else x for x in row] for row in m], dtype=object)
    md = np.array([[x.d if isinstance(x, Dual) else 0 for x in row] for row in m], dtype=object)
    M6 = w.fn("beyond.utils.matrix:expand")(mv, rate)
    out = M6 @ np.concatenate([r, v])
    c.ensure("position", c.all_eq(out[:3], mv @ r))
    c.ensure("velocity_is_derivative_of_position", c.all_eq(out[3:], md @ r + mv @ v), budget_ms=60000)


@contract("C20", "convert_along_the_chain", funcs=[f"{OR}:Orientation.convert_to"],
          assumptions=["callee contracts: expand(m, rate) is an invertible 6x6 (abstract generator), np.linalg.inv(M) M = M np.linalg.inv(M) = I", "path reversal by C20"])
@contract("C02", "convert_to", funcs=[f"{OR}:Orientation.convert_to"],
          assumptions=["callee contracts: expand(m, rate) is an invertible 6x6 (abstract generator), np.linalg.inv(M) M = M np.linalg.inv(M) = I", "path reversal by C20"])
def _(c):
    """convert_to multiplies the edge matrices along the path (later edges on the left), using the inverse of the reverse provider when only that one exists;
    hence a->b->a is the identity and a->c equals (b->c)(a->b)"""
    if not c.symbolic:
        return
    E = {("A", "B"): AMat.gen("E_AB"), ("C", "B"): AMat.gen("E_CB")}   # providers that exist: A_to_B and C_to_B (so B->C needs an inverse)
    path = {("A", "C"): [("A", "B"), ("B", "C")], ("C", "A"): [("C", "B"), ("B", "A")], ("A", "B"): [("A", "B")], ("B", "C"): [("B", "C")], ("A", "A"): []}

    def mk(name):
        w = c.world(stubs={"beyond.utils.node:Node.steps": lambda self, goal: iter(path[(self.name, goal)]),
                           "beyond.utils.matrix:expand": lambda m, rate=None: m})
        w.np.identity = lambda n: AMat.I()
        w.np.linalg.inv = lambda m: m.inv()
        o = w.obj(f"{OR}:Orientation", name=name)
        d = object.__getattribute__(o, "__dict__")
        d["A_to_B"] = lambda date: (E[("A", "B")], None)
        d["C_to_B"] = lambda date: (E[("C", "B")], None)
        return o
    ac = mk("A").convert_to(SymDate(0), "C")
    ca = mk("C").convert_to(SymDate(0), "A")
    ab = mk("A").convert_to(SymDate(0), "B")
    bc = mk("B").convert_to(SymDate(0), "C")
    c.ensure_nf("product_along_path", ac, E[("C", "B")].inv() @ E[("A", "B")])
    c.ensure_nf("composition", ac, bc @ ab)
    c.ensure_nf("inverse", ca @ ac, AMat.I())
    c.ensure_nf("identity", mk("A").convert_to(SymDate(0), "A"), AMat.I())
    bad = mk("A")
    object.__getattribute__(bad, "__dict__").pop("A_to_B")
    c.ensure("unknown_edge_rejected", c.raises(ValueError, lambda: bad.convert_to(SymDate(0), "B")))
    # links followed against their definition BEFORE links followed along it, and alternating directions: the matrices are applied in the order of the path
    F = {("Q", "P"): AMat.gen("F_QP"), ("Q", "R"): AMat.gen("F_QR"), ("S", "R"): AMat.gen("F_SR"), ("S", "T"): AMat.gen("F_ST")}
    path2 = {("P", "R"): [("P", "Q"), ("Q", "R")], ("P", "T"): [("P", "Q"), ("Q", "R"), ("R", "S"), ("S", "T")], ("T", "P"): [("T", "S"), ("S", "R"), ("R", "Q"), ("Q", "P")]}

    def mk2(name):
        w = c.world(stubs={"beyond.utils.node:Node.steps": lambda self, goal: iter(path2[(self.name, goal)]),
                           "beyond.utils.matrix:expand": lambda m, rate=None: m})
        w.np.identity = lambda n: AMat.I()
        w.np.linalg.inv = lambda m: m.inv()
        o = w.obj(f"{OR}:Orientation", name=name)
        d = object.__getattribute__(o, "__dict__")
        for (a_, b_), m_ in F.items():
            d[f"{a_}_to_{b_}"] = (lambda mm: (lambda date: (mm, None)))(m_)
        return o
    c.ensure_nf("against_then_along", mk2("P").convert_to(SymDate(0), "R"), F[("Q", "R")] @ F[("Q", "P")].inv())
    pt = mk2("P").convert_to(SymDate(0), "T")
    c.ensure_nf("alternating_directions", pt, F[("S", "T")] @ F[("S", "R")].inv() @ F[("Q", "R")] @ F[("Q", "P")].inv())
    c.ensure_nf("alternating_directions.inverse", mk2("T").convert_to(SymDate(0), "P") @ pt, AMat.I())


@contract("C02", "center", funcs=[f"{CE}:Center.convert_to", f"{CE}:Center._to_parent"], assumptions=["callee contract: Orientation.convert_to gives the rotation to the requested axes (C02.convert_to)"])
def _(c):
    """Center.convert_to sums the offsets along the centre path, each with the sign of the direction travelled and rotated into the requested orientation"""
    if not c.symbolic:
        return
    oA, oB = c.vec("offA", 6), c.vec("offB", 6)
    R = c.mat("R", 6, 6)
    path = {("S", "E"): [("S", "E")], ("E", "S"): [("E", "S")], ("S", "M"): [("S", "E"), ("E", "M")]}
    w = c.world()
    me = w.obj(f"{CE}:Center", name="S", node=types.SimpleNamespace(steps=lambda goal: iter(path[("S", goal)])))
    d = object.__getattribute__(me, "__dict__")
    d["S_to_E"] = lambda date, orientation: oA.copy()
    d["M_to_E"] = lambda date, orientation: oB.copy()
    c.ensure("direct", c.all_eq(me.convert_to(SymDate(0), "E", "AXES"), oA))
    c.ensure("two_hops_signed", c.all_eq(me.convert_to(SymDate(0), "M", "AXES"), oA - oB))
    rev = w.obj(f"{CE}:Center", name="E", node=types.SimpleNamespace(steps=lambda goal: iter([("E", "S")])))
    object.__getattribute__(rev, "__dict__")["S_to_E"] = lambda date, orientation: oA.copy()
    c.ensure("reverse_is_opposite", c.all_eq(rev.convert_to(SymDate(0), "S", "AXES"), -oA))
    # _to_parent rotates the stored offset into the requested orientation; a propagating offset is propagated to the date
    asked = []
    orient = types.SimpleNamespace(convert_to=lambda date, o: asked.append((date, o)) or R)
    fixed = w.obj(f"{CE}:Center", name="S", offset=oA, orientation=orient)
    c.ensure("to_parent.rotated", c.all_eq(fixed._to_parent("D", "AXES"), R @ oA) and bool(asked == [("D", "AXES")]))
    moving = w.obj(f"{CE}:Center", name="S", offset=types.SimpleNamespace(propagate=lambda date: oB), orientation=orient)
    c.ensure("to_parent.propagated", c.all_eq(moving._to_parent("D", "AXES"), R @ oB))


@contract("C02", "transform", funcs=[f"{FR}:Frame.transform"], assumptions=["StateVector ADT; callee contracts Center.convert_to / Orientation.convert_to"])
def _(c):
    """Frame.transform: new coordinates = rotation(old -> new orientation) @ cartesian state + offset of the old centre w.r.t. the new one in the new axes;
    the receiver is not modified, the original form is restored on the result"""
    if not c.symbolic:
        return
    x = c.vec("x", 6)
    M = c.mat("M", 6, 6)
    off = c.vec("off", 6)
    asked = []
    new_frame = types.SimpleNamespace(center="NEWC", orientation="NEWO", name="NEW")
    w = c.world()
    me = w.obj(f"{FR}:Frame", name="OLD", center=types.SimpleNamespace(convert_to=lambda date, cen, ori: asked.append(("c", cen, ori)) or off),
               orientation=types.SimpleNamespace(convert_to=lambda date, ori: asked.append(("o", ori)) or M))
    forms = []

    class SV(SymStateVector):
        pass
    orb = SymStateVector(list(x), date=SymDate(0), form="keplerian", frame=me,
                         __convert__=lambda self, frame=None, form=None, same=None: SymStateVector(list(np.asarray(self)), date=self.date, form=form, frame=self.frame))
    res = me.transform(orb, new_frame)
    c.ensure("affine", c.all_eq(np.asarray(res), M @ x + off))
    c.ensure("asked_for_target", bool(asked == [("c", "NEWC", "NEWO"), ("o", "NEWO")]))
    c.ensure("form_restored", bool(res.form == "keplerian"))
    c.ensure("receiver_untouched", c.all_eq(np.asarray(orb), x))


@contract("C02", "constants", funcs=[f"{I80}:_precesion", f"{I80}:_sideral", f"{I80}:rate", f"{I80}:_earth_orientation", f"{I80}:precesion", f"{I80}:earth_orientation",
                                     f"{I10}:_sideral", f"{I10}:rate", f"{I10}:_earth_orientation", f"{I10}:earth_orientation"],
          assumptions=["Date ADT: change_scale(X).julian_century / .jd are the Julian centuries / date of the instant in scale X"])
def _(c):
    """closed-form model constants equal the IERS / Vallado values (typed in independently here): IAU-76 precession angles, GMST-82, Earth rotation angle,
    omega_earth (1 - LOD/86400), s' = -47 uas/cy, arcsecond / degree units, and the order of the polar-motion and precession rotations"""
    if not c.symbolic:
        return
    T = c.real("T")
    jd = c.real("jd_ut1")
    xp, yp, lod = c.real("xp_arcsec"), c.real("yp_arcsec"), c.real("lod_ms")
    R = lambda s_: sym.SReal(sym.rv(sym.Fraction(s_)))

    class D:
        J2000 = 2451545.0
        eop = types.SimpleNamespace(x=xp, y=yp, lod=lod, dx=0, dy=0, dpsi=0, deps=0, ut1_utc=c.real("ut1_utc"), tai_utc=c.real("tai_utc"))

        def change_scale(self, scale):
            return types.SimpleNamespace(julian_century=T, jd=jd)

        # the readings of the date in its OWN scale are unrelated to the UT1 / TT readings the models are defined on (arbitrary label)
        jd, mjd, d, s, julian_century = c.real("own_jd"), c.real("own_mjd"), c.real("own_d"), c.real("own_s"), c.real("own_julian_century")
    w = c.world()
    date = D()
    zeta, theta, z = w.fn(f"{I80}:_precesion")(date)
    c.ensure("iau76.zeta", zeta * 3600 == R("2306.2181") * T + R("0.30188") * T * T + R("0.017998") * T * T * T)
    c.ensure("iau76.theta", theta * 3600 == R("2004.3109") * T - R("0.42665") * T * T - R("0.041833") * T * T * T)
    c.ensure("iau76.z", z * 3600 == R("2306.2181") * T + R("1.09468") * T * T + R("0.018203") * T * T * T)
    c.require(sym.And(T > -1, T < 1))
    gmst = w.fn(f"{I80}:_sideral")(date)  # mean, degrees, reduced to [0, 360)
    pre = sym.SReal(c.run.modinfo[str(gmst.e)][0])
    secs = R("67310.54841") + (876600 * 3600 + R("8640184.812866")) * T + R("0.093104") * T * T - R("0.0000062") * T * T * T
    c.ensure("gmst82", pre * 240 == secs)
    c.ensure("gmst82.reduced", sym.And(gmst >= 0, gmst < 360))
    era = w.fn(f"{I10}:_sideral")(date)
    # 1.00273781191135448 is not a double: the literal in the code is its nearest double (difference 1.2e-16), so agreement is to 1e-10 rad
    # over a century around J2000
    c.require(sym.And(jd > 2451545 - 36525, jd < 2451545 + 36525))
    diff = era - 2 * c.pi * (R("0.7790572732640") + R("1.00273781191135448") * (jd - 2451545))
    c.ensure("era", sym.And(diff < R("1e-10"), diff > -R("1e-10")))
    for mod in (I80, I10):
        rate = w.fn(f"{mod}:rate")(date)
        c.ensure(f"rate.{mod[-4:]}", sym.And(rate[0] == 0, rate[1] == 0, rate[2] == R("7.292115146706979e-5") * (1 - lod / 1000 / 86400)))
    x80, y80 = w.fn(f"{I80}:_earth_orientation")(date)
    c.ensure("pole.units.1980", sym.And(x80 * 3600 == xp, y80 * 3600 == yp))
    x10, y10, sp = w.fn(f"{I10}:_earth_orientation")(date)
    c.ensure("pole.units.2010", sym.And(x10 * 3600 == xp, y10 * 3600 == yp, sp * 3600 == -R("0.000047") * T))
    # rotation orders (Vallado 3-77..3-90): polar motion 1980 = rot1(yp) rot2(xp); 2010 = rot3(-s') rot2(xp) rot1(yp); precession = rot3(zeta) rot2(-theta) rot3(z)
    rot1, rot2, rot3 = (w.fn(f"beyond.utils.matrix:rot{k}") for k in (1, 2, 3))
    rad = lambda deg: deg * c.pi / 180
    c.ensure("polar_motion.1980.order", c.all_eq(w.fn(f"{I80}:earth_orientation")(date), rot1(rad(y80)) @ rot2(rad(x80))), budget_ms=60000)
    c.ensure("polar_motion.2010.order", c.all_eq(w.fn(f"{I10}:earth_orientation")(date), rot3(-rad(sp)) @ rot2(rad(x10)) @ rot1(rad(y10))), budget_ms=60000)
    c.ensure("precession.order", c.all_eq(w.fn(f"{I80}:precesion")(date), rot3(rad(zeta)) @ rot2(-rad(theta)) @ rot3(rad(z))), budget_ms=60000)


# ---------------------------------------------------------------------------------------------
# bounded stand-ins on the real frames
# ---------------------------------------------------------------------------------------------

BUILTIN = ["EME2000", "MOD", "TOD", "TEME", "PEF", "ITRF", "TIRF", "CIRF", "GCRF", "G50"]


def _grid_frames(tier, rng):
    """EOP mode {real IERS tables, zeros (missing with policy pass)} x dates {1 Jan and 1 Jul of 1975..2015 every 5 years, plus 8 (quick) / 40 seeded dates 1973-2017} x
    frame A in the 10 built-in frames + a station + an orbit-attached QSW frame + two frames (inertial axes, TNW axes) attached to a plain state dated two hours earlier
    (all B, C enumerated inside)"""
    from datetime import datetime
    dates = []
    for y in range(1975, 2016, 5):
        dates += [(y, 1, 1), (y, 7, 1)]
    for k in range(8 if tier == "quick" else 40):
        dates.append((rng.randrange(1974, 2017), rng.randrange(1, 13), rng.randrange(1, 28)))
    if tier == "quick":
        dates = dates[::3]
    for eop in (0, 1):
        for (y, m, d) in dates:
            for a in range(14):
                yield {"eop": eop, "y": y, "m": m, "d": d, "a": a, "sec": (a * 7919 + y) % 86400}


@contract("C02", "native", funcs=[f"{FR}:Frame.transform", f"{OR}:Orientation.convert_to", f"{CE}:Center.convert_to", "beyond.orbits.statevector:StateVector.frame.fset"],
          grid=_grid_frames, level="bounded")
def _(c):
    """bounded: A->B->A is the identity (1e-6 m, 1e-9 m/s), A->B->C equals A->C, frames sharing a centre preserve norms of positions, the converted velocity equals the
    finite difference of converted positions of a coasting point (1e-2 m/s: float-JD noise of the sidereal angle; the Earth-rotation coupling itself is ~500 m/s), for every B, C among the built-in frames, a station and an orbit-attached frame"""
    from beyond.config import config
    from beyond.dates import Date, timedelta
    from beyond.orbits import StateVector
    from beyond.frames.frames import get_frame, orbit2frame
    from beyond.frames.stations import create_station
    from contracts.eopcfg import use_eop
    use_eop(real=bool(c.integer("eop")))
    date = Date(c.integer("y"), c.integer("m"), c.integer("d")) + timedelta(seconds=c.integer("sec"))
    tag = f"{c.integer('eop')}{c.integer('y')}{c.integer('m')}{c.integer('d')}{c.integer('a')}"
    sta = create_station(f"S{tag}", (43.4, 1.5, 178.0))
    ref = StateVector([6.9e6 * 0.6, 6.9e6 * 0.5, 6.9e6 * 0.62, -4.4e3, 5.4e3, 1.1e3], date, "cartesian", "EME2000")
    lof = orbit2frame(f"Q{tag}", ref, orientation="QSW")
    # two more frames attached to a plain state (no propagator) dated two hours BEFORE the states converted below: a fixed point of EME2000, seen at another date
    ref_old = StateVector([-6.9e6 * 0.2, 6.9e6 * 0.7, 6.9e6 * 0.68, -5.4e3, -3.4e3, 2.1e3], date - timedelta(hours=2), "cartesian", "EME2000")
    fixed = orbit2frame(f"F{tag}", ref_old)
    fixed_q = orbit2frame(f"G{tag}", ref_old, orientation="TNW")
    names = BUILTIN + [sta.name, lof.name, fixed.name, fixed_q.name]
    A = names[c.integer("a")]
    x = np.array([7.0e6 * 0.3, -7.0e6 * 0.8, 7.0e6 * 0.52, 5.1e3, 3.3e3, -4.6e3])
    sv = StateVector(x, date, "cartesian", A)
    ok_rt = ok_comp = ok_norm = ok_fd = True
    h = 2.0
    for B in names:
        b = sv.copy(frame=B)
        back = np.asarray(b.copy(frame=A), dtype=float)
        ok_rt = ok_rt and np.linalg.norm(back[:3] - x[:3]) <= 1e-6 and np.linalg.norm(back[3:] - x[3:]) <= 1e-9
        if A in BUILTIN and B in BUILTIN:
            ok_norm = ok_norm and abs(np.linalg.norm(np.asarray(b[:3], dtype=float)) - np.linalg.norm(x[:3])) <= 1e-6
        for C in names[::3]:
            via = np.asarray(b.copy(frame=C), dtype=float)
            direct = np.asarray(sv.copy(frame=C), dtype=float)
            ok_comp = ok_comp and np.linalg.norm(via[:3] - direct[:3]) <= 1e-6 and np.linalg.norm(via[3:] - direct[3:]) <= 1e-9
        if not {A, B} & {lof.name, fixed.name, fixed_q.name}:
            # a point coasting in frame A (x + v t), seen from B at t +- h: central difference of positions vs converted velocity
            p1 = np.asarray(StateVector(np.concatenate([x[:3] + x[3:] * h, x[3:]]), date + timedelta(seconds=h), "cartesian", A).copy(frame=B), dtype=float)
            p0 = np.asarray(StateVector(np.concatenate([x[:3] - x[3:] * h, x[3:]]), date - timedelta(seconds=h), "cartesian", A).copy(frame=B), dtype=float)
            fd = (p1[:3] - p0[:3]) / (2 * h)
            # the sidereal angle is evaluated from a float Julian date (resolution ~40 us, i.e. ~2 cm at this radius): the finite difference carries that noise
            ok_fd = ok_fd and np.linalg.norm(fd - np.asarray(b[3:], dtype=float)) <= 1e-2
    c.ensure("roundtrip_identity", bool(ok_rt))
    c.ensure("path_independent", bool(ok_comp))
    c.ensure("norms_preserved", bool(ok_norm))
    c.ensure("velocity_is_derivative", bool(ok_fd))


def T_tt(date):
    return (date.change_scale("TT").jd - 2451545.0) / 36525.0


def _grid_chain(tier, rng):
    """dates: 1 Jan / 1 Jul 1975-2015 every 5 years (+ 30 seeded, thorough), real EOP"""
    for y in range(1975, 2016, 5):
        for m in (1, 7):
            yield {"y": y, "m": m, "d": 1, "label": (y // 5 + m) % 5}
    # either side of the dates at which a model changes: 1992-02-27, 1997-02-27 (equation of the equinoxes), leap seconds
    for y, m, d in ((1992, 2, 26), (1992, 2, 28), (1994, 6, 15), (1997, 2, 26), (1997, 2, 27), (1997, 2, 28), (1997, 6, 30), (1997, 7, 1), (2012, 6, 30), (2012, 7, 1)):
        yield {"y": y, "m": m, "d": d}
    if tier != "quick":
        for k in range(30):
            yield {"y": rng.randrange(1974, 2017), "m": rng.randrange(1, 13), "d": rng.randrange(1, 28)}


_FINALS = {}


def _finals_ut1_utc():
    """{MJD: UT1-UTC} transcribed from columns 8-15 and 59-68 of tests/data/pole/finals.all"""
    if not _FINALS:
        for line in open("/repo/tests/data/pole/finals.all", encoding="ascii").read().splitlines():
            try:
                _FINALS[int(float(line[7:15]))] = float(line[58:68])
            except ValueError:
                break
    return _FINALS


@contract("C02", "chains.native", funcs=[f"{I80}:sideral", f"{I80}:precesion", f"{I80}:nutation", f"{I10}:precesion_nutation", f"{I10}:sideral"], grid=_grid_chain, level="bounded")
def _(c):
    """bounded: the IAU-1980 chain (ITRF-PEF-TOD-MOD-EME2000) and the IAU-2010 chain (ITRF-TIRF-CIRF-GCRF-EME2000) agree within 0.1 arcsec + the frame bias;
    the Earth-fixed <-> inertial rotation angle agrees with an independent GMST-82 / ERA evaluation (1e-9 rad) and precession with the IAU-76 angles"""
    from beyond.config import config
    from beyond.dates import Date
    from beyond.orbits import StateVector
    from beyond.frames import iau1980, iau2010
    from contracts.eopcfg import use_eop
    use_eop(real=True)
    # (in the morning or in the afternoon of the UTC day: the Earth orientation parameters are those tabulated for that day at either time)
    hour = 3 if (c.integer("y") + c.integer("d")) % 2 else 15
    date = Date(c.integer("y"), c.integer("m"), c.integer("d"), hour, 4, 5)
    utc_date = date
    lab = [None, "TAI", "TT", "GPS", "UT1"][c.integer("label")]   # the same instant handed over under another scale label: the angles are those of the instant
    if lab is not None:
        date = date.change_scale(lab)
    x = [6.9e6 * 0.6, 6.9e6 * 0.5, 6.9e6 * 0.62, 0.0, 0.0, 0.0]
    sv = StateVector(x, date, "cartesian", "ITRF")
    via80 = np.asarray(sv.copy(frame="PEF").copy(frame="TOD").copy(frame="MOD").copy(frame="EME2000"), dtype=float)[:3]
    # the 2010 chain ends in GCRF (whose axes are EME2000's within the 23 mas frame bias).  NOT followed by a hop GCRF -> EME2000: the library has no direct link
    # between the two and would walk the 2010 chain back down and the 1980 chain up again, so that the comparison would be the 1980 chain with itself
    via10 = np.asarray(sv.copy(frame="TIRF").copy(frame="CIRF").copy(frame="GCRF"), dtype=float)[:3]
    ang = np.linalg.norm(via80 - via10) / np.linalg.norm(via80)
    c.ensure("chains_agree_0.1_arcsec", bool(ang <= math.radians(0.1 / 3600)))
    # the celestial pole: CIRF -> GCRF sends the z axis of CIRF on (X, Y, sqrt(1 - X^2 - Y^2)) with X, Y the library's own series values (rad):
    # the direction of the tilt, whatever the sign of X (negative before mid-2000)
    X_, Y_, s_ = iau2010._xys(date)
    zax = np.asarray(StateVector([0.0, 0.0, 1.0, 0, 0, 0], date, "cartesian", "CIRF").copy(frame="GCRF"), dtype=float)[:3]
    c.ensure("cirf_pole_goes_to_XY", bool(np.linalg.norm(zax - np.array([X_, Y_, math.sqrt(1 - X_ * X_ - Y_ * Y_)])) <= 1e-12))
    # independent GMST-82 (Aoki 1982) and ERA (Capitaine 2000)
    # UT1 = UTC + (UT1-UTC printed on the line of that UTC day in finals.all, read here independently of the library)
    ut1_utc = _finals_ut1_utc().get(int(utc_date.mjd))
    c.require(ut1_utc is not None)
    ut1 = types.SimpleNamespace(jd=utc_date.jd + ut1_utc / 86400.0)
    Tu = (ut1.jd - 2451545.0) / 36525.0
    gmst = (67310.54841 + (876600 * 3600 + 8640184.812866) * Tu + 0.093104 * Tu ** 2 - 6.2e-6 * Tu ** 3) % 86400 / 240.0
    c.ensure("gmst82_independent", abs((iau1980._sideral(date) - gmst + 180) % 360 - 180) <= 1e-7)
    # apparent sidereal time: GMST + dpsi cos(eps) (+ the two lunar-node terms from 1997-02-27 on, IAU 1994 C7); dpsi and eps from the library's own nutation series
    eps_bar, dpsi, _ = iau1980._nutation(date, True, 106)
    eqe = dpsi * 3600 * math.cos(math.radians(eps_bar))
    if date.d >= 50506:
        om = 125.04455501 - (5 * 360.0 + 134.1361851) * T_tt(date) + 0.0020756 * T_tt(date) ** 2 + 2.139e-6 * T_tt(date) ** 3
        eqe += 0.00264 * math.sin(math.radians(om)) + 0.000063 * math.sin(math.radians(2 * om))
    gast = iau1980._sideral(date, model="apparent")
    c.ensure("gast_independent", abs((gast - (gmst + eqe / 3600) + 180) % 360 - 180) <= 1e-8)
    era = (2 * math.pi * (0.7790572732640 + 1.00273781191135448 * (ut1.jd - 2451545.0))) % (2 * math.pi)
    d_ = (iau2010._sideral(date) - era + math.pi) % (2 * math.pi) - math.pi
    c.ensure("era_independent", abs(d_) <= 1e-6)
    T = (date.change_scale("TT").jd - 2451545.0) / 36525.0
    z_, th_, zz_ = iau1980._precesion(date)
    c.ensure("iau76_independent", abs(z_ * 3600 - (2306.2181 * T + 0.30188 * T ** 2 + 0.017998 * T ** 3)) < 1e-9 and abs(th_ * 3600 - (2004.3109 * T - 0.42665 * T ** 2 - 0.041833 * T ** 3)) < 1e-9)
    # GAST vs ERA-based rotation of the x axis: the two Earth-rotation angles differ by the accumulated precession in RA (equation of the origins) ~ 4612"/cy * T
    pef_tod = np.asarray(StateVector([1.0, 0, 0, 0, 0, 0], date, "cartesian", "PEF").copy(frame="TOD"), dtype=float)
    c.ensure("pef_tod_is_rotation_about_z", abs(pef_tod[2]) < 1e-12 and abs(np.linalg.norm(pef_tod[:3]) - 1) < 1e-12)


def _grid_eop_files(tier, rng):
    """both IERS files of tests/data/pole (finals.all for the 1980 model, finals2000A.all for the 2010 model), every line"""
    yield {"file": 0}
    yield {"file": 1}


@contract("C02", "eop.reader", funcs=["beyond.dates.eop:Finals2000A.__init__", "beyond.dates.eop:Finals.__init__"], grid=_grid_eop_files, level="finite")
def _(c):
    """finite (exhaustive over the files shipped with the tests): every value the reader returns -- pole x, y (arcsec), UT1-UTC (s), LOD (ms) and the nutation / CIP
    corrections (mas) -- equals the field of the IERS fixed-width record, transcribed here from the IERS readme (1-based columns 19-27, 38-46, 59-68, 80-86, 98-106,
    117-125), sign included; a date without LOD or corrections takes the previous day's"""
    from beyond.dates.eop import Finals, Finals2000A
    name, cls, d1, d2 = [("finals.all", Finals, "dpsi", "deps"), ("finals2000A.all", Finals2000A, "dx", "dy")][c.integer("file")]
    root = os.environ.get("BEYOND_REPO", "/repo")
    if not os.path.isdir(os.path.join(root, "tests", "data", "pole")):
        root = "/repo"  # scratch copies of the package alone (tools/selftest.py) read the data shipped with the repository
    path = os.path.join(root, "tests", "data", "pole", name)
    db = cls(path)

    def field(line, a, b):
        txt = line[a - 1:b].strip()
        return float(txt) if txt else None
    n = n_neg = 0
    ok = {"x": True, "y": True, "ut1_utc": True, "lod": True, d1: True, d2: True}
    prev = {}
    with open(path, encoding="ascii") as fp:
        for line in fp:
            line = line.rstrip("\n")
            mjd = int(float(line[7:15]))
            want = {"x": field(line, 19, 27), "y": field(line, 38, 46), "ut1_utc": field(line, 59, 68), "lod": field(line, 80, 86), d1: field(line, 98, 106), d2: field(line, 117, 125)}
            if want["x"] is None:
                break
            for k in ("lod", d1, d2):
                if want[k] is None:
                    want[k] = prev[k]
            got = db[mjd]
            for k in ok:
                ok[k] = ok[k] and got[k] == want[k]
            n += 1
            n_neg += want["x"] < 0
            prev = want
    c.ensure("file_not_empty_and_has_negative_pole_x", n > 10000 and n_neg > 1000)
    for k, v in ok.items():
        c.ensure(f"field.{k if k in ('x', 'y', 'ut1_utc', 'lod') else 'correction_' + str(1 + (k == d2))}", v)


@contract("C02", "equinox", funcs=[f"{I80}:equinox"], level="proof",
          assumptions=["callee contract: _nutation(date) returns (mean obliquity, nutation in longitude, nutation in obliquity) in degrees -- any reals (its series: bounded, C02.chains.native)",
                       "IAU resolution C7 (1994): the two terms depending on the Moon's node enter the equation of the equinoxes from 1997-02-27 0h UTC = MJD 50506 on"])
def _(c):
    """proved: the equation of the equinoxes is dpsi * cos(mean obliquity), plus 0.00264" sin(Om) + 0.000063" sin(2 Om) -- Om the mean longitude of the Moon's node,
    125.04455501 deg - (5 rev + 134.1361851 deg) T + 0.0020756 T^2 + 2.139e-6 T^3, T in Julian centuries TT -- exactly for the dates from MJD 50506 (1997-02-27) on and
    only when the kinematic terms are asked for; returned in degrees"""
    if not c.symbolic:
        return
    eb, dpsi, deps = c.real("eps_bar"), c.real("dpsi"), c.real("deps")
    T = c.real("T")
    day = c.integer("mjd_day")
    kin = bool(c.boolean("kinematic"))
    date = types.SimpleNamespace(d=day, change_scale=lambda s: types.SimpleNamespace(julian_century=T) if s == "TT" else None)
    w = c.world(stubs={f"{I80}:_nutation": lambda date, eop_correction, terms: (eb, dpsi, deps)})
    got = w.fn(f"{I80}:equinox")(date, True, 106, kin)
    om = 125.04455501 - (5 * 360.0 + 134.1361851) * T + 0.0020756 * T ** 2 + 2.139e-6 * T ** 3
    base = dpsi * 3600 * sym.cos(sym.radians(eb))
    moon = F(264, 100000) * sym.sin(sym.radians(om)) + F(63, 1000000) * sym.sin(sym.radians(2 * om))
    applies = sym.And(day >= 50506, kin) if kin else False
    if kin:
        c.ensure("from_1997_02_27_with_the_node_terms", sym.Implies(day >= 50506, got * 3600 == base + moon))
        c.ensure("before_1997_02_27_without_them", sym.Implies(day < 50506, got * 3600 == base))
    else:
        c.ensure("without_kinematic_terms_when_not_asked", got * 3600 == base)


def _grid_body_forms(tier, rng):
    """frame pairs {EME2000 <-> Moon-centred, EME2000 <-> Sun-centred, Moon-centred <-> Sun-centred, EME2000 <-> ITRF} x the form the state is held in {cartesian, keplerian,
    keplerian_mean, spherical, equinoctial} x 2 dates"""
    for pair in range(4):
        for form in range(5):
            for d in range(2):
                yield {"pair": pair, "form": form, "date": d}


_BODY_FRAMES = {}


@contract("C02", "native.forms", funcs=["beyond.orbits.statevector:StateVector.frame.fset", f"{FR}:Frame.transform", "beyond.orbits.forms:Form.__call__"], grid=_grid_body_forms, level="bounded")
def _(c):
    """bounded: a change of frame is a property of the state, not of the element form it is held in -- also between frames centred on different bodies (where the elements
    depend on the body's mu): converting a keplerian / mean / spherical / equinoctial view gives the view of the converted cartesian state (1e-6 m, 1e-9 m/s), A -> B -> A is
    the identity, in place and by copy, and the result is labelled with the target frame and the original form"""
    from beyond.orbits import StateVector
    from beyond.dates import Date
    from beyond.env import solarsystem
    from beyond.frames.frames import get_frame
    for n in ("Moon", "Sun"):
        if n not in _BODY_FRAMES:
            _BODY_FRAMES[n] = solarsystem.get_frame(n)
    names = [("EME2000", "Moon"), ("EME2000", "Sun"), ("Moon", "Sun"), ("EME2000", "ITRF")][c.integer("pair")]
    A, B = (_BODY_FRAMES.get(n) or get_frame(n) for n in names)
    form = ["cartesian", "keplerian", "keplerian_mean", "spherical", "equinoctial"][c.integer("form")]
    date = [Date(2018, 5, 4, 3, 2, 1), Date(2011, 11, 11, 11, 11, 11)][c.integer("date")]
    # a bound orbit about the centre of A
    mu = A.center.body.mu
    rad = {"Earth": 7.2e6, "Moon": 2.0e6, "Sun": 1.2e11}[A.center.body.name]
    v = math.sqrt(mu / rad)
    cart = StateVector([rad * 0.8, rad * 0.5, rad * 0.33, -v * 0.45, v * 0.7, v * 0.42], date, "cartesian", A)
    view = cart.copy(form=form)
    want = np.asarray(cart.copy(frame=B), dtype=float)
    got_obj = view.copy(frame=B)
    got = np.asarray(got_obj.copy(form="cartesian"), dtype=float)
    sr, sv_ = np.linalg.norm(want[:3]), np.linalg.norm(want[3:])
    c.ensure("labelled_with_target_frame_and_original_form", got_obj.frame.name == B.name and got_obj.form.name == form)
    c.ensure("same_as_the_cartesian_route", bool(np.linalg.norm(got[:3] - want[:3]) <= 1e-6 + 1e-12 * sr and np.linalg.norm(got[3:] - want[3:]) <= 1e-9 + 1e-12 * sv_))
    back = np.asarray(got_obj.copy(frame=A).copy(form="cartesian"), dtype=float)
    c0 = np.asarray(cart, dtype=float)
    c.ensure("there_and_back", bool(np.linalg.norm(back[:3] - c0[:3]) <= 1e-6 + 1e-9 * rad and np.linalg.norm(back[3:] - c0[3:]) <= 1e-9 + 1e-9 * v))
    inplace = view.copy()
    inplace.frame = B
    c.ensure("in_place_equals_copy", bool(np.allclose(np.asarray(inplace, dtype=float), np.asarray(got_obj, dtype=float), rtol=1e-12, atol=1e-9)) and inplace.frame.name == B.name)


def _grid_eop_history(tier, rng):
    """dates with large celestial-pole offsets (1982-1984) and recent ones x the order in which the two configurations (real IERS tables, no tables) are visited"""
    for y, m in ((1982, 6), (1983, 3), (1984, 1), (1996, 5), (2010, 9)):
        for order in (0, 1):
            yield {"y": y, "m": m, "order": order}


@contract("C02", "eop.history", funcs=[f"{I10}:_xys", f"{I10}:precesion_nutation", f"{I10}:_earth_orientation", f"{I80}:_nutation", "beyond.dates.eop:EopDb.get"],
          grid=_grid_eop_history, level="bounded")
def _(c):
    """bounded: a conversion depends on the Earth-orientation configuration in force when it is made, not on the one in force the last time the same instant was converted
    (no value cached across configurations): converting CIRF -> GCRF and ITRF -> TOD under the real tables, then without tables, then under the real tables again gives the
    first result again (bit for bit), the table-less result the same whichever came first, and for CIRF -> GCRF the two differ by what the tabulated dX, dY (read here
    independently from the IERS file) predict to first order (the 1980 chain is the uncorrected model: no dpsi, deps there)"""
    from contracts.eopcfg import use_eop
    from beyond.dates import Date
    from beyond.orbits import StateVector
    x = np.array([7.0e6 * 0.3, -7.0e6 * 0.8, 7.0e6 * 0.52, 5.1e3, 3.3e3, -4.6e3])

    def conv(real, a, b):
        use_eop(real=real)
        date = Date(c.integer("y"), c.integer("m"), 15, 12, 0, 0)   # (a Date reads its Earth-orientation parameters when it is created)
        return np.asarray(StateVector(x, date, "cartesian", a).copy(frame=b), dtype=float)
    first_real = bool(c.integer("order"))
    seq = [first_real, not first_real, first_real, not first_real]
    res10 = [conv(r, "CIRF", "GCRF") for r in seq]
    res80 = [conv(r, "ITRF", "TOD") for r in seq]
    c.ensure("same_configuration_same_result.2010", bool(np.array_equal(res10[0], res10[2]) and np.array_equal(res10[1], res10[3])))
    c.ensure("same_configuration_same_result.1980", bool(np.array_equal(res80[0], res80[2]) and np.array_equal(res80[1], res80[3])))
    # independent reading of the corrections for that day (mas)
    mjd = int(Date(c.integer("y"), c.integer("m"), 15, 12, 0, 0).mjd)

    def field(path, a, b):
        for line in open(path, encoding="ascii"):
            if int(float(line[7:15])) == mjd:
                t = line[a - 1:b].strip()
                return float(t) if t else 0.0
        return 0.0
    root = "/repo/tests/data/pole"
    mas = math.radians(1.0 / 3.6e6)
    dX, dY = field(f"{root}/finals2000A.all", 98, 106) * mas, field(f"{root}/finals2000A.all", 117, 125) * mas
    real10, zero10 = (res10[0], res10[1]) if first_real else (res10[1], res10[0])
    real80, zero80 = (res80[0], res80[1]) if first_real else (res80[1], res80[0])
    c.ensure("tables_matter.1980", float(np.linalg.norm(real80[:3] - zero80[:3])) > 1.0)   # UT1-UTC and the pole: tens of metres to kilometres at this radius
    R = float(np.linalg.norm(x[:3]))
    d10 = float(np.linalg.norm(real10[:3] - zero10[:3]))
    size10 = R * math.hypot(dX, dY)
    c.ensure("corrections_are_applied.2010", size10 < 1e-4 or 0.3 * size10 <= d10 <= 1.5 * size10)
    use_eop(real=True)
