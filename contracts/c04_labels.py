"""C04: results depend on the instant, never on the Date's scale label."""
import itertools
import math
import types

import numpy as np
import z3

from pyvc.contract import contract
from pyvc import sym
from pyvc.adt import ADT, SymTimedelta, SymStateVector

SCALES = ["UT1", "GPS", "TDB", "UTC", "TAI", "TT"]


class LDate(ADT):
    """Date ADT for label-independence proofs (proved against date.py in C03): an instant `t` (TAI seconds) and a label.
    Label-INVARIANT observers are functions of t alone: _mjd, _d, _s, subtraction, comparison, hash, and everything on change_scale(X).
    Label-DEPENDENT observers (d, s, mjd, jd, julian_century, datetime, formatting, scale, eop) are uninterpreted functions of (t, label):
    code whose result goes through one of them on the original date cannot be proved label independent."""

    def __init__(self, t, label, same_day_eop=False):
        self.t, self.label, self.same_day = t, label, same_day_eop

    def __pv_isinstance__(self, cls):
        return getattr(cls, "__name__", "") == "Date"

    def _obs(self, name):
        lab = self.label if not isinstance(self.label, str) else SCALES.index(self.label)
        return sym.uf(f"obs_{name}", self.t, lab)

    # invariant
    @property
    def _mjd(self):
        return self.t / 86400

    def __sub__(self, o):
        if isinstance(o, LDate):
            return SymTimedelta(self.t - o.t)
        if isinstance(o, SymTimedelta):
            return LDate(self.t - o.s, self.label, self.same_day)
        return NotImplemented

    def __add__(self, o):
        if isinstance(o, SymTimedelta):
            return LDate(self.t + o.s, self.label, self.same_day)
        return NotImplemented

    __radd__ = __add__

    def __lt__(self, o):
        return self.t < o.t

    def __le__(self, o):
        return self.t <= o.t

    def __gt__(self, o):
        return self.t > o.t

    def __ge__(self, o):
        return self.t >= o.t

    def __eq__(self, o):
        return isinstance(o, LDate) and self.t == o.t

    __hash__ = object.__hash__

    def change_scale(self, scale):
        return LDate(self.t, scale if isinstance(scale, str) else scale.name, self.same_day)

    JD_MJD = 2400000.5

    @property
    def scale(self):
        """the label itself: `date.scale.name == "TDB"` is a (possibly symbolic) test on the label"""
        lab = self.label

        class _Name:
            def __eq__(_s, other):
                if isinstance(lab, str):
                    return lab == other
                return lab == SCALES.index(other)

            def __ne__(_s, other):
                r = _s.__eq__(other)
                return (not r) if isinstance(r, bool) else ~r

            __hash__ = None
        return types.SimpleNamespace(name=_Name())

    # label dependent
    d = property(lambda self: self._obs("d"))
    s = property(lambda self: self._obs("s"))
    mjd = property(lambda self: self._obs("mjd"))
    jd = property(lambda self: self._obs("jd"))
    julian_century = property(lambda self: self._obs("julian_century"))
    J2000 = 2451545.0

    @property
    def datetime(self):
        return _LDatetime(self)

    @property
    def eop(self):
        # EOP are tabulated per day of the label's own MJD; with `same_day` the caller has assumed that every label puts the
        # instant on the same tabulated day (the day-boundary case is the known finding listed for C03/C04)
        lab = 99 if self.same_day else (self.label if not isinstance(self.label, str) else SCALES.index(self.label))
        f = lambda n: sym.uf(f"eop_{n}", self.t if not self.same_day else sym.uf("day_of", self.t), lab)
        return types.SimpleNamespace(x=f("x"), y=f("y"), dx=f("dx"), dy=f("dy"), lod=f("lod"), dpsi=f("dpsi"), deps=f("deps"), ut1_utc=f("ut1_utc"), tai_utc=f("tai_utc"))

    def __format__(self, spec):
        return _LFields(self, spec)

    def __pv_havoc__(self, name):
        return LDate(sym.SReal(sym.cur().fresh(f"h_{name}")), self.label, self.same_day)


class _LDatetime:
    """naive datetime in the label's scale: every field is a label-dependent observer; differences of two are too"""

    def __init__(self, d):
        self.d = d

    def __sub__(self, o):
        if isinstance(o, _LDatetime):
            return SymTimedelta(self.d._obs("clock") - o.d._obs("clock"))
        return NotImplemented

    def __getattr__(self, name):
        if name in ("hour", "minute", "second", "microsecond", "year", "month", "day"):
            return self.d._obs(name)
        raise AttributeError(name)

    def __format__(self, spec):
        return _LFields(self.d, spec)


class _LFields(str):
    """result of formatting a date: a text whose numeric fields are label-dependent observers"""

    def __new__(cls, d, spec):
        o = str.__new__(cls, "<date fields>")
        o.d, o.spec = d, spec
        return o

    def split(self, *a):
        n = len(self.spec.split())
        return [_LField(self.d, k) for k in range(n)]


class _LField(str):
    def __new__(cls, d, k):
        o = str.__new__(cls, f"<field {k}>")
        o.d, o.k = d, k
        return o

    def __pv_float__(self):
        return self.d._obs(f"field{self.k}")


def _two_labels(c, same_day=False):
    t = c.real("t")
    l1, l2 = c.integer("label1", lo=0, hi=5), c.integer("label2", lo=0, hi=5)
    return LDate(t, l1, same_day), LDate(t, l2, same_day), t


def _same(c, a, b):
    a, b = np.asarray(a, dtype=object).ravel(), np.asarray(b, dtype=object).ravel()
    return c.conj([x == y for x, y in zip(a, b)])


def _mean_orbit(el, epoch, n):
    def conv(self, frame=None, form=None, same=None):
        return self
    return SymStateVector(list(el), date=epoch, form="keplerian_mean", frame="EME2000", infos=types.SimpleNamespace(n=n, r=None), __convert__=conv)


@contract("C04", "kepler_j2", funcs=["beyond.propagators.kepler:Kepler.propagate", "beyond.propagators.j2:J2.propagate"],
          assumptions=["Date ADT with label-dependent observers uninterpreted (LDate); StateVector ADT"])
def _(c):
    """Kepler and J2 propagation: same result whatever the label of the requested date and of the orbit's epoch"""
    if not c.symbolic:
        return
    which = c.choice("propagator", ["kepler", "j2"])
    d1, d2, t = _two_labels(c)
    te = c.real("t_epoch")
    e1, e2 = LDate(te, c.integer("elabel1", lo=0, hi=5)), LDate(te, c.integer("elabel2", lo=0, hi=5))
    el = c.vec("el", 6)
    n = c.real("n", lo=0)
    outs = []
    for d, e in ((d1, e1), (d2, e2)):
        if which == "kepler":
            w = c.world()
            p = w.obj("beyond.propagators.kepler:Kepler", _orbit=_mean_orbit(el, e, n))
        else:
            earth = types.SimpleNamespace(mu=c.real("mu", lo=0), r=c.real("R", lo=0), J2=c.real("J2", lo=0))
            w = c.world(names={"beyond.propagators.j2": {"Earth": earth}})
            p = w.obj("beyond.propagators.j2:J2", _orbit=_mean_orbit(el, e, n))
            c.require(sym.And(el[0] > 0, el[1] >= 0, el[1] < 1))
        outs.append(p.propagate(d))
    c.ensure("label_invariant", _same(c, outs[0], outs[1]))
    c.ensure("date_instant", outs[0].date.t == outs[1].date.t)


@contract("C04", "cw", funcs=["beyond.propagators.cw:ClohessyWiltshire._propagate", "beyond.propagators.cw:ClohessyWiltshire.propagate"],
          assumptions=["LDate ADT; StateVector ADT"])
def _(c):
    """Clohessy-Wiltshire propagation (incl. an impulsive and a continuous maneuver): label independent"""
    if not c.symbolic:
        return
    from contracts.c16_cw import _frame
    from beyond.orbits.man import ImpulsiveMan, ContinuousMan
    d1, d2, t = _two_labels(c)
    te = c.real("t_epoch")
    x0 = c.vec("x", 6)
    n = c.real("n", lo=0)
    tm, dur = c.real("t_man"), c.real("dur", lo=0)
    dv, acc = c.vec("dv", 3), c.vec("acc", 3)
    c.require(tm + dur < t)  # one path: both maneuvers are over
    c.require(te <= tm)
    outs = []
    for d, lab in ((d1, "elabel1"), (d2, "elabel2")):
        L = c.integer(lab, lo=0, hi=5)
        mans = [ImpulsiveMan(LDate(tm, L), dv), ContinuousMan(LDate(tm, c.integer(lab + "m", lo=0, hi=5)), SymTimedelta(dur), accel=acc)]
        w = c.world()
        cw = w.obj("beyond.propagators.cw:ClohessyWiltshire", sma=None, frame=_frame(w, "QSW"), _n=n)
        orb = SymStateVector(list(x0), date=LDate(te, L), form="cartesian", frame=None, maneuvers=mans)
        object.__getattribute__(cw, "__dict__")["_orbit"] = orb
        outs.append(cw.propagate(d))
    c.ensure("label_invariant", _same(c, outs[0], outs[1]), budget_ms=60000)


@contract("C04", "interp", funcs=["beyond.utils.interp:DatedInterp.__init__", "beyond.utils.interp:DatedInterp.__call__"], assumptions=["LDate ADT"])
def _(c):
    """ephemeris interpolation: abscissae and query are TAI instants, whatever the labels of the stored dates and of the query"""
    if not c.symbolic:
        return
    ts = [c.real(f"t{k}") for k in range(3)]
    c.require(sym.And(ts[0] < ts[1], ts[1] < ts[2]))
    tq = c.real("tq")
    calls = []
    w = c.world(stubs={"beyond.utils.interp:Interp._linear": lambda self, x: calls.append((list(self.xs), x)) or 0})
    for run in (1, 2):
        dates = [LDate(tk, c.integer(f"l{run}{k}", lo=0, hi=5)) for k, tk in enumerate(ts)]
        it = w.new("beyond.utils.interp:DatedInterp", dates, np.zeros(3, dtype=object), "linear")
        try:
            it(LDate(tq, c.integer(f"lq{run}", lo=0, hi=5)))
        except ValueError:
            calls.append("refused")
    if calls[0] == "refused" or calls[1] == "refused":
        c.ensure("same_refusal", bool(calls[0] == calls[1]))
    else:
        c.ensure("same_abscissae", _same(c, calls[0][0] + [calls[0][1]], calls[1][0] + [calls[1][1]]))


@contract("C04", "maneuver_windows", funcs=["beyond.orbits.man:ImpulsiveMan.check", "beyond.orbits.man:ContinuousMan.check", "beyond.orbits.man:ContinuousMan.__init__"],
          assumptions=["LDate ADT"])
def _(c):
    """maneuver windows are decided on instants: same decision whatever the labels of the step date and of the maneuver date"""
    if not c.symbolic:
        return
    t, tm, h, dur = c.real("t"), c.real("t_man"), c.real("h", lo=0), c.real("dur", lo=0)
    w = c.world()
    res = []
    for run in (1, 2):
        la, lb = c.integer(f"la{run}", lo=0, hi=5), c.integer(f"lb{run}", lo=0, hi=5)
        imp = w.obj("beyond.orbits.man:ImpulsiveMan", date=LDate(tm, lb))
        cont = w.new("beyond.orbits.man:ContinuousMan", LDate(tm, lb), SymTimedelta(dur), accel=[0, 0, 1], date_pos="median")
        res.append((sym.lift_bool(imp.check(LDate(t, la), SymTimedelta(h))), sym.lift_bool(cont.check(LDate(t, la)))))
    c.ensure("impulsive", sym.SBool(res[0][0] == res[1][0]))
    c.ensure("continuous", sym.SBool(res[0][1] == res[1][1]))


def _iau_contract(mod, fname, same_day):
    @contract("C04", f"{mod.split('.')[-1]}.{fname}", funcs=[f"{mod}:{fname}"],
              assumptions=["LDate ADT"] + (["EOP day: both labels put the instant on the same tabulated day (else: known finding on day boundaries)"] if same_day else []))
    def _(c):
        """Earth-orientation quantities depend on the instant only"""
        if not c.symbolic:
            return
        d1, d2, t = _two_labels(c, same_day)
        w = c.world()
        f = w.fn(f"{mod}:{fname}")
        a, b = f(d1), f(d2)
        c.ensure("label_invariant", _same(c, a, b))
    return _


for _m, _f, _sd in (("beyond.frames.iau1980", "_precesion", False), ("beyond.frames.iau1980", "_earth_orientation", True), ("beyond.frames.iau1980", "rate", True),
                    ("beyond.frames.iau2010", "_earth_orientation", True), ("beyond.frames.iau2010", "_sideral", False), ("beyond.frames.iau2010", "rate", True),
                    ("beyond.frames.iau2010", "_planets", False)):
    _iau_contract(_m, _f, _sd)


@contract("C04", "sgp4.wrapper", funcs=["beyond.propagators.sgp4:Sgp4.propagate"],
          assumptions=["LDate ADT (formatting a date yields label-dependent fields)", "callee: the sgp4 library's propagate is a pure function of the calendar fields it is given"])
def _(c):
    """the calendar fields handed to the reference SGP4 library are those of the instant in one fixed scale (UTC), whatever the label of the date"""
    if not c.symbolic:
        return
    d1, d2, t = _two_labels(c)
    got = []
    w = c.world(names={"beyond.propagators.sgp4": {"StateVector": lambda coord, **kw: types.SimpleNamespace(coord=coord, **kw), "float": None}})
    w.module("beyond.propagators.sgp4")._finish()
    w.module("beyond.propagators.sgp4").ns["float"] = lambda x: x.__pv_float__() if hasattr(x, "__pv_float__") else float(x)
    for d in (d1, d2):
        lib = types.SimpleNamespace(propagate=lambda *fields: (got.append(fields) or ((1.0, 2.0, 3.0), (4.0, 5.0, 6.0))))
        p = w.obj("beyond.propagators.sgp4:Sgp4", tle=lib, _orbit=types.SimpleNamespace(_data={"propagator": None, "date": None}, date=None))
        p.propagate(d)
    c.ensure("same_fields_to_library", _same(c, list(got[0]), list(got[1])))


# ---------------------------------------------------------------------------------------------
# bounded: every public date-consuming operation x labels
# ---------------------------------------------------------------------------------------------

OPS = ["sgp4", "sgp4beta", "kepler", "j2", "num_rk4", "cw", "ephem_interp", "frame_itrf", "frame_tod", "tle_write", "sun", "moon", "ccsds_opm",
       "events", "frame_station", "ccsds_oem", "jpl_mars", "ephem_iter", "frame_gcrf_from_itrf", "ccsds_omm_kvn", "ccsds_omm_xml"]


def _grid_ops(tier, rng):
    """operations {sgp4, native sgp4, kepler, j2, numerical, cw, ephemeris interpolation, EME2000->ITRF, EME2000->TOD, TLE writing, Sun, Moon, CCSDS OPM, event
    detection (node + apside over an iteration whose bounds carry the label), EME2000->station frame, CCSDS OEM, JPL body (Mars barycentre from the DE403 kernel), ephemeris iteration}
    x label of the argument date in 6 scales x label of the epoch in 6 scales x instants {mid-day, 1 h before midnight, (frames) 10 s after UTC midnight}"""
    for op in range(len(OPS)):
        for la in range(6):
            for le in range(6):
                if tier == "quick" and (la + le) % 3 and la != 3:
                    continue
                for inst in (0, 1, 2):
                    if inst == 2 and OPS[op] not in ("frame_itrf", "frame_tod", "kepler", "frame_gcrf_from_itrf"):
                        continue
                    yield {"op": op, "la": la, "le": le, "inst": inst}


@contract("C04", "native", funcs=["beyond.propagators.sgp4:Sgp4.propagate", "beyond.propagators.sgp4beta:Sgp4Beta.propagate", "beyond.io.tle:Tle.from_orbit",
                                  "beyond.propagators.kepler:Kepler.propagate", "beyond.propagators.j2:J2.propagate", "beyond.frames.frames:Frame.transform",
                                  "beyond.orbits.ephem:Ephem.interpolate", "beyond.env.solarsystem:SunPropagator.propagate"], grid=_grid_ops, level="bounded")
def _(c):
    """bounded: the same instant supplied under another scale label (for the argument date and for the orbit's epoch) gives the same physical
    result (position within 1 mm + |v| x 2 us; text outputs decode to the same UTC instant)"""
    from contracts.c08_iteration import _make, TLE_TXT
    from contracts.c03_dates import _eop_setup
    from beyond.dates import Date, timedelta
    from beyond.orbits import Orbit, StateVector
    _eop_setup()
    op = OPS[c.integer("op")]
    la, le = SCALES[c.integer("la")], SCALES[c.integer("le")]
    base = {"sgp4": "sgp4", "sgp4beta": "sgp4", "kepler": "kepler", "j2": "j2", "num_rk4": "num_rk4", "cw": "cw", "tle_write": "sgp4", "ccsds_omm_kvn": "sgp4",
            "ccsds_omm_xml": "sgp4"}.get(op, "kepler")
    ref, d0 = _make(base)
    offs = {0: 5000.0, 1: 86400 - ((d0._s) % 86400) - 3600.0, 2: 86400 - ((d0._s) % 86400) + 37.0 + 10.0}[c.integer("inst")]  # 2: 10 s after UTC midnight
    target = d0 + timedelta(seconds=offs)

    def relabel_orbit(o, scale):
        o2 = o.copy()
        o2.date = o.date.change_scale(scale)
        return o2

    def pos(x):
        return np.asarray(x.copy(form="cartesian"), dtype=float)

    def close(a, b, v=8e3):
        return bool(np.linalg.norm(a[:3] - b[:3]) <= 1e-3 + v * 2e-6)

    def primed(f, date, other):
        """f(date), asked after f has been asked for the SAME CLOCK READING under the other label (another instant): an answer remembered under the clock reading
        instead of the instant would be served here (results must not depend on what was asked before)"""
        try:
            alias = Date(date.d, date.s, scale=other)
            if abs((alias - date).total_seconds()) > 1e-3:
                f(alias)
        except Exception:  # the aliased reading may be unusable for this operation (outside a table, ...): the priming is best effort
            pass
        return f(date)
    if op in ("sgp4", "kepler", "j2", "num_rk4", "cw"):
        if op == "num_rk4":
            want = pos(ref.propagate(target))
            got = pos(relabel_orbit(ref, le).propagate(target.change_scale(la)))
        else:
            want = pos(primed(ref.propagate, target, la))
            got = pos(primed(relabel_orbit(ref, le).propagate, target.change_scale(la), target.scale.name))
        # a UT1/TDB label preserves the instant only to the microsecond (C03); the numerical propagator then integrates along a slightly
        # different grid (epoch no longer equal to the start date): centimetre-level integration-path differences, not label effects
        ok = close(want, got) if op != "num_rk4" else bool(np.linalg.norm(want[:3] - got[:3]) <= 0.1)
        c.ensure("propagation", ok)
    elif op == "sgp4beta":
        from beyond.propagators.sgp4beta import Sgp4Beta
        pa = Sgp4Beta()
        pa.orbit = ref
        want = np.asarray(pa.propagate(target), dtype=float)
        pb = Sgp4Beta()
        pb.orbit = relabel_orbit(ref, le)
        got = np.asarray(pb.propagate(target.change_scale(la)), dtype=float)
        c.ensure("propagation", close(want, got))
    elif op == "ephem_interp":
        eph = ref.ephem(start=d0, stop=d0 + timedelta(seconds=offs + 3000), step=timedelta(seconds=120))
        want = pos(eph.interpolate(target + timedelta(seconds=31)))
        from beyond.orbits import Ephem
        eph2 = Ephem([relabel_orbit(o, le) for o in eph])
        got = pos(eph2.interpolate((target + timedelta(seconds=31)).change_scale(la)))
        c.ensure("interpolation", close(want, got))
    elif op == "frame_gcrf_from_itrf":
        # through the IAU-2010 chain (ITRF - TIRF - CIRF - GCRF)
        conv = lambda d: StateVector(np.asarray(ref.copy(form="cartesian"), dtype=float), d, "cartesian", "ITRF").copy(frame="GCRF")
        want = np.asarray(primed(conv, target, la), dtype=float)
        got = np.asarray(primed(conv, target.change_scale(la), target.scale.name), dtype=float)
        c.ensure("frame_conversion", close(want, got, v=500.0))
    elif op in ("frame_itrf", "frame_tod"):
        frame = "ITRF" if op == "frame_itrf" else "TOD"
        conv = lambda d: StateVector(np.asarray(ref.copy(form="cartesian"), dtype=float), d, "cartesian", "EME2000").copy(frame=frame)
        want = np.asarray(primed(conv, target, la), dtype=float)
        got = np.asarray(primed(conv, target.change_scale(la), target.scale.name), dtype=float)
        c.ensure("frame_conversion", close(want, got, v=500.0))
    elif op == "tle_write":
        from beyond.io.tle import Tle
        want = Tle.from_orbit(ref)
        got = Tle.from_orbit(relabel_orbit(ref, le))
        c.ensure("tle_text", str(want) == str(got))
        # epochs whose UTC reading and whose reading under the label fall in different calendar years / days (the seconds before a UTC new year):
        # the epoch field (two-digit year + day of the year with its fraction) is that of the UTC reading, whatever the label
        from datetime import datetime
        ok_y = True
        for u in (datetime(2015, 12, 31, 23, 59, 50), datetime(2016, 12, 31, 23, 59, 30), datetime(1999, 12, 31, 23, 59, 45)):
            o = ref.copy()
            o.date = Date(u, scale="UTC")
            text = str(Tle.from_orbit(relabel_orbit(o, le)))
            l1 = [x for x in text.splitlines() if x.startswith("1 ")][0]
            doy = (u - datetime(u.year, 1, 1)).total_seconds() / 86400.0 + 1
            ok_y = ok_y and l1[18:20] == f"{u.year % 100:02d}" and abs(float(l1[20:32]) - doy) <= 1.5e-8 and text == str(Tle.from_orbit(o))
        c.ensure("tle_epoch_field_is_the_utc_reading", ok_y)
    elif op in ("sun", "moon"):
        from beyond.env.solarsystem import get_body
        body = get_body("Sun" if op == "sun" else "Moon")
        want = np.asarray(primed(body.propagate, target, la).copy(frame="EME2000", form="cartesian"), dtype=float)
        got = np.asarray(primed(body.propagate, target.change_scale(la), target.scale.name).copy(frame="EME2000", form="cartesian"), dtype=float)
        c.ensure("body_position", bool(np.linalg.norm(want[:3] - got[:3]) <= 1e-3 + 3e4 * 2e-6))
    elif op == "events":
        from beyond.propagators.listeners import NodeListener, ApsideListener
        run = lambda o, a, b: [(e.event.info, e.date) for e in o.iter(start=a, stop=b, step=timedelta(seconds=180), listeners=[NodeListener(), ApsideListener()]) if e.event]
        want = run(ref, d0, target)
        got = run(relabel_orbit(ref, le), d0.change_scale(la), target.change_scale(la))
        c.ensure("same_events_at_the_same_instants", len(want) > 0 and [x[0] for x in want] == [x[0] for x in got]
                 and all(abs((a[1] - b[1]).total_seconds()) <= 1e-4 for a, b in zip(want, got)))
    elif op == "frame_station":
        from beyond.frames.stations import create_station
        sta = create_station(f"C04STA", (43.6, 1.44, 150.0))
        sv = StateVector(np.asarray(ref.copy(form="cartesian"), dtype=float), target, "cartesian", "EME2000")
        want = np.asarray(sv.copy(frame=sta), dtype=float)
        sv2 = StateVector(np.asarray(ref.copy(form="cartesian"), dtype=float), target.change_scale(la), "cartesian", "EME2000")
        got = np.asarray(sv2.copy(frame=sta), dtype=float)
        c.ensure("frame_conversion", close(want, got, v=500.0))
    elif op == "ccsds_oem":
        from beyond.io import ccsds
        from beyond.orbits import Ephem
        eph = ref.ephem(start=d0, stop=d0 + timedelta(seconds=600), step=timedelta(seconds=120))
        eph2 = Ephem([relabel_orbit(o, la) for o in eph])
        a, b = ccsds.loads(ccsds.dumps(eph)), ccsds.loads(ccsds.dumps(eph2))
        c.ensure("ccsds_instants", len(a) == len(b) and all(abs((x.date - y.date).total_seconds()) <= 2e-6 and bool(np.allclose(np.asarray(x, dtype=float), np.asarray(y, dtype=float), rtol=0, atol=1e-3))
                                                            for x, y in zip(a, b)))
    elif op == "jpl_mars":
        from contracts.c18_bodies import _cfg
        from beyond.env import jpl
        _cfg()
        jpl.create_frames()
        want = np.asarray(primed(lambda d: jpl.get_orbit("MarsBarycenter", d), target, la), dtype=float)
        got = np.asarray(primed(lambda d: jpl.get_orbit("MarsBarycenter", d), target.change_scale(la), target.scale.name), dtype=float)
        c.ensure("body_position", bool(np.linalg.norm(want[:3] - got[:3]) <= 1e-3 + 3e4 * 2e-6))
        # the first minute of the kernel (its span is given in TDB): an instant inside it is served under every label -- read on the clock of a scale that lags TDB
        # it looks as if it came before the kernel starts
        from jplephem.spk import SPK
        k_ = SPK.open("/repo/tests/data/jpl/de403_2000-2020.bsp")
        try:
            jd0 = [s_.start_jd for s_ in k_.segments if s_.target == 4][0]
        finally:
            k_.close()
        ok_edge = True
        for off in (5.0, 25.0, 45.0, 70.0):
            t_tdb = Date(jd0 - 2400000.5 + off / 86400.0, scale="TDB")
            try:
                a_ = np.asarray(jpl.get_orbit("MarsBarycenter", t_tdb), dtype=float)
                b_ = np.asarray(jpl.get_orbit("MarsBarycenter", t_tdb.change_scale(la)), dtype=float)
                ok_edge = ok_edge and bool(np.linalg.norm(a_[:3] - b_[:3]) <= 1e-3 + 3e4 * 2e-6)
            except Exception:
                ok_edge = False
        c.ensure("first_minute_of_the_kernel_under_every_label", ok_edge)
    elif op == "ephem_iter":
        eph = ref.ephem(start=d0, stop=d0 + timedelta(seconds=offs + 3000), step=timedelta(seconds=120))
        from beyond.orbits import Ephem
        eph2 = Ephem([relabel_orbit(o, le) for o in eph])
        a0 = d0 + timedelta(seconds=100)
        want = [pos(o) for o in eph.iter(start=a0, stop=a0 + timedelta(seconds=1000), step=timedelta(seconds=250))]
        got = [pos(o) for o in eph2.iter(start=a0.change_scale(la), stop=(a0 + timedelta(seconds=1000)).change_scale(la), step=timedelta(seconds=250))]
        c.ensure("iteration", len(want) == len(got) == 5 and all(close(x, y) for x, y in zip(want, got)))
    elif op in ("ccsds_omm_kvn", "ccsds_omm_xml"):
        # mean elements message of a TLE orbit whose epoch carries another label: the (TIME_SYSTEM, EPOCH) pair read back designates the same instant,
        # and the orbit read back propagates to the same place
        from beyond.io import ccsds
        fmt = op[-3:]
        a = ccsds.loads(ccsds.dumps(ref, fmt=fmt))
        b = ccsds.loads(ccsds.dumps(relabel_orbit(ref, le), fmt=fmt))
        c.ensure("ccsds_instant", abs((a.date - b.date).total_seconds()) <= 2e-6 and abs((a.date - ref.date).total_seconds()) <= 2e-6)
        c.ensure("propagation", close(pos(a.propagate(target)), pos(b.propagate(target.change_scale(la)))))
    elif op == "ccsds_opm":
        from beyond.io import ccsds
        sv = ref.propagate(target)
        sv2 = sv.copy()
        sv2.date = sv.date.change_scale(la)
        a = ccsds.loads(ccsds.dumps(sv.copy(form="cartesian")))
        b = ccsds.loads(ccsds.dumps(sv2.copy(form="cartesian")))
        c.ensure("ccsds_instant", abs((a.date - b.date).total_seconds()) <= 2e-6 and bool(np.allclose(np.asarray(a, dtype=float), np.asarray(b, dtype=float), rtol=0, atol=1e-3)))
