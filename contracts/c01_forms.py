"""C01: orbital element forms (beyond/orbits/forms.py, StateVector.form setter, Infos)."""
import itertools
import math
import types

import numpy as np
import z3

from pyvc.contract import contract, LoopSpec
from pyvc import sym
from pyvc.sym import Dual

FM = "beyond.orbits.forms"
FORM = f"{FM}:Form"
SV = "beyond.orbits.statevector"


def _edge(c, name, body_mu=None):
    """the edge function (shadow of the real classmethod), bound to a class stand-in"""
    w = c.world()
    cls = w.cls(FORM)
    fn = getattr(cls, name)
    body = types.SimpleNamespace(µ=body_mu, mu=body_mu)
    return lambda coord: fn(np.array(list(coord), dtype=object), body), w


def _dv(x):
    return x.v if isinstance(x, Dual) else x


def _dd(x):
    return x.d if isinstance(x, Dual) else 0


# ---------------------------------------------------------------------------------------------
# cartesian <-> spherical / cylindrical
# ---------------------------------------------------------------------------------------------

@contract("C01", "edge.spherical_to_cartesian", funcs=[f"{FORM}._spherical_to_cartesian"])
def _(c):
    """x = r cos(phi) cos(theta), y = r cos(phi) sin(theta), z = r sin(phi); the velocity is the time derivative of that position when
    (r, theta, phi) move at the given rates"""
    if not c.symbolic:
        return
    r, th, ph, rd, thd, phd = (c.real(n) for n in ("r", "theta", "phi", "r_dot", "theta_dot", "phi_dot"))
    c.require(r > 0)
    f, w = _edge(c, "_spherical_to_cartesian")
    out = f([r, th, ph, rd, thd, phd])
    c.ensure("position", c.all_eq(out[:3], np.array([r * sym.cos(ph) * sym.cos(th), r * sym.cos(ph) * sym.sin(th), r * sym.sin(ph)], dtype=object)))
    R, T, P = Dual(r, rd), Dual(th, thd), Dual(ph, phd)
    pos = [R * P.cos() * T.cos(), R * P.cos() * T.sin(), R * P.sin()]
    c.ensure("velocity_is_derivative", c.conj([out[3 + k] == _dd(pos[k]) for k in range(3)]))


@contract("C01", "edge.cartesian_to_spherical", funcs=[f"{FORM}._cartesian_to_spherical"])
def _(c):
    """r = |position|, phi = asin(z/r) in [-pi/2, pi/2], theta = atan2(y, x); the three rates are the time derivatives of those quantities"""
    if not c.symbolic:
        return
    x, y, z, vx, vy, vz = (c.real(n) for n in ("x", "y", "z", "vx", "vy", "vz"))
    c.require(x * x + y * y > 0, "off the polar axis")
    f, w = _edge(c, "_cartesian_to_spherical")
    out = f([x, y, z, vx, vy, vz])
    r, th, ph = out[0], out[1], out[2]
    c.ensure("r", sym.And(r > 0, r * r == x * x + y * y + z * z))
    c.ensure("phi", sym.And(sym.sin(ph) * r == z, ph >= -c.pi / 2, ph <= c.pi / 2))
    rho = sym.sqrt(x * x + y * y)
    c.ensure("theta", sym.And(sym.cos(th) * rho == x, sym.sin(th) * rho == y, th > -c.pi, th <= c.pi))
    X, Y, Z = Dual(x, vx), Dual(y, vy), Dual(z, vz)
    Rd = (X * X + Y * Y + Z * Z).sqrt()
    c.ensure("r_dot_is_derivative", out[3] == Rd.d)
    c.ensure("theta_dot_is_derivative", out[4] == Dual.arctan2(Y, X).d)
    c.ensure("phi_dot_is_derivative", out[5] * sym.cos(ph) == ((Z / Rd).d), budget_ms=60000)  # d/dt asin(u) = u_dot / cos(asin u)


@contract("C01", "rt.cartesian_spherical", funcs=[f"{FORM}._cartesian_to_spherical", f"{FORM}._spherical_to_cartesian"])
def _(c):
    """cartesian -> spherical -> cartesian is the identity (position and velocity), off the polar axis"""
    if not c.symbolic:
        return
    x, y, z, vx, vy, vz = (c.real(n) for n in ("x", "y", "z", "vx", "vy", "vz"))
    c.require(x * x + y * y > 0)
    f, w = _edge(c, "_cartesian_to_spherical")
    g, _ = _edge(c, "_spherical_to_cartesian")
    s = f([x, y, z, vx, vy, vz])
    r, th, ph = s[0], s[1], s[2]
    rho = sym.sqrt(x * x + y * y)
    c.lemma("cos_phi_r_is_rho", sym.cos(ph) * r == rho, budget_ms=120000)
    c.lemma("azimuth_direction", sym.And(sym.cos(th) * rho == x, sym.sin(th) * rho == y), budget_ms=120000)
    b = g(list(s))
    for k, want in enumerate([x, y, z]):
        c.lemma(f"identity.{k}", b[k] == want, budget_ms=120000)
    for k, want in enumerate([vx, vy, vz]):
        c.ensure(f"identity.{k + 3}", b[k + 3] == want, budget_ms=120000)


@contract("C01", "rt.spherical_cartesian", funcs=[f"{FORM}._cartesian_to_spherical", f"{FORM}._spherical_to_cartesian"])
def _(c):
    """spherical -> cartesian -> spherical is the identity for r > 0, |phi| < pi/2, theta in (-pi, pi]"""
    if not c.symbolic:
        return
    r, th, ph, rd, thd, phd = (c.real(n) for n in ("r", "theta", "phi", "r_dot", "theta_dot", "phi_dot"))
    c.require(sym.And(r > 0, ph > -c.pi / 2, ph < c.pi / 2, th > -c.pi, th <= c.pi))
    g, w = _edge(c, "_spherical_to_cartesian")
    f, _ = _edge(c, "_cartesian_to_spherical")
    cart = g([r, th, ph, rd, thd, phd])
    c.principal("phi_principal", ph)
    c.lemma("cos_phi_positive", sym.cos(ph) > 0, using=["pre", "phi_principal"])
    c.lemma("rho", cart[0] * cart[0] + cart[1] * cart[1] == r * r * sym.cos(ph) * sym.cos(ph), budget_ms=60000)
    s = f(list(cart))
    c.lemma("r_back", s[0] == r, budget_ms=60000)
    c.same_angle("phi_back", s[2], ph, -c.pi)
    c.same_angle("theta_back", s[1], th, -c.pi, closed="right")
    c.ensure("r", s[0] == r)
    c.ensure("phi", s[2] == ph)
    c.ensure("r_dot", s[3] == rd, budget_ms=60000)
    c.ensure("theta_dot", s[4] == thd, budget_ms=60000)
    c.ensure("phi_dot", s[5] == phd, budget_ms=60000)


@contract("C01", "edge.cylindrical", funcs=[f"{FORM}._cartesian_to_cylindrical", f"{FORM}._cylindrical_to_cartesian"])
def _(c):
    """cylindrical: r = sqrt(x^2+y^2), theta = atan2(y, x), z kept; rates are time derivatives; both round trips are identities"""
    if not c.symbolic:
        return
    x, y, z, vx, vy, vz = (c.real(n) for n in ("x", "y", "z", "vx", "vy", "vz"))
    c.require(x * x + y * y > 0)
    f, w = _edge(c, "_cartesian_to_cylindrical")
    g, _ = _edge(c, "_cylindrical_to_cartesian")
    cy = f([x, y, z, vx, vy, vz])
    r, th = cy[0], cy[1]
    c.ensure("r", sym.And(r > 0, r * r == x * x + y * y))
    c.ensure("theta", sym.And(sym.cos(th) * r == x, sym.sin(th) * r == y))
    c.ensure("z_kept", sym.And(cy[2] == z, cy[5] == vz))
    X, Y = Dual(x, vx), Dual(y, vy)
    c.ensure("r_dot_is_derivative", cy[3] == (X * X + Y * Y).sqrt().d)
    c.ensure("theta_dot_is_derivative", cy[4] == Dual.arctan2(Y, X).d)
    back = g(list(cy))
    for k, want in enumerate([x, y, z, vx, vy, vz]):
        c.ensure(f"roundtrip.{k}", back[k] == want, budget_ms=60000)
    # definition of the inverse edge
    R, T = Dual(c.real("cr", lo=0), c.real("crd")), Dual(c.real("cth"), c.real("cthd"))
    cart = g([R.v, T.v, z, R.d, T.d, vz])
    c.ensure("inverse.position", sym.And(cart[0] == R.v * sym.cos(T.v), cart[1] == R.v * sym.sin(T.v)))
    c.ensure("inverse.velocity_is_derivative", sym.And(cart[3] == (R * T.cos()).d, cart[4] == (R * T.sin()).d))


# ---------------------------------------------------------------------------------------------
# keplerian <-> circular / mean <-> mean circular / equinoctial / tle
# ---------------------------------------------------------------------------------------------

def _circular_contract(kind):
    to, back, anomaly = {"true": ("_keplerian_to_keplerian_circular", "_keplerian_circular_to_keplerian", "nu"),
                         "mean": ("_keplerian_mean_to_keplerian_mean_circular", "_keplerian_mean_circular_to_keplerian_mean", "M")}[kind]

    @contract("C01", f"edge.circular.{kind}", funcs=[f"{FORM}.{to}", f"{FORM}.{back}"])
    def _(c):
        """ex = e cos(w), ey = e sin(w), argument of latitude = w + anomaly (mod 2 pi); the way back recovers a, e, i, raan exactly and
        w, anomaly up to whole revolutions (same cosine and sine), for e > 0"""
        if not c.symbolic:
            return
        a, e, i, O, wp, an = (c.real(n) for n in ("a", "e", "i", "raan", "argp", anomaly))
        c.require(e > 0)
        f, w_ = _edge(c, to)
        g, _ = _edge(c, back)
        out = f([a, e, i, O, wp, an])
        c.ensure("definition", sym.And(out[0] == a, out[1] == e * sym.cos(wp), out[2] == e * sym.sin(wp), out[3] == i, out[4] == O))
        c.ensure("latitude_argument", sym.And(sym.cos(out[5]) == sym.cos(wp + an), sym.sin(out[5]) == sym.sin(wp + an), out[5] >= 0, out[5] < 2 * c.pi))
        k = g(list(out))
        c.ensure("back.exact", sym.And(k[0] == a, k[1] == e, k[2] == i, k[3] == O), budget_ms=60000)
        c.ensure("back.argp", sym.And(sym.cos(k[4]) == sym.cos(wp), sym.sin(k[4]) == sym.sin(wp)), budget_ms=60000)
        c.ensure("back.anomaly", sym.And(sym.cos(k[5]) == sym.cos(an), sym.sin(k[5]) == sym.sin(an)), budget_ms=60000)
    return _


_circular_contract("true")
_circular_contract("mean")


@contract("C01", "edge.equinoctial", funcs=[f"{FORM}._keplerian_to_equinoctial", f"{FORM}._equinoctial_to_keplerian"])
def _(c):
    """equinoctial elements (a, e cos(W+w), e sin(W+w), tan(i/2) cos W, tan(i/2) sin W, W+w+nu); the way back recovers a, e, i exactly and the
    three angles up to whole revolutions, for e > 0 and 0 < i < pi"""
    if not c.symbolic:
        return
    a, e, i, O, wp, nu = (c.real(n) for n in ("a", "e", "i", "raan", "argp", "nu"))
    c.require(sym.And(e > 0, i > 0, i < c.pi))
    f, w_ = _edge(c, "_keplerian_to_equinoctial")
    g, _ = _edge(c, "_equinoctial_to_keplerian")
    c.principal("half_i_principal", i / 2)
    c.lemma("half_angle", sym.And(sym.cos(i / 2) > 0, sym.sin(i / 2) > 0), using=["pre", "half_i_principal"], budget_ms=60000)
    q = f([a, e, i, O, wp, nu])
    th = sym.sin(i / 2) / sym.cos(i / 2)
    c.ensure("definition", sym.And(q[0] == a, q[1] == e * sym.cos(O + wp), q[2] == e * sym.sin(O + wp), q[3] == th * sym.cos(O), q[4] == th * sym.sin(O), q[5] == O + wp + nu))
    k = g(list(q))
    c.ensure("back.a", k[0] == a)
    c.ensure("back.e", k[1] == e, budget_ms=60000)
    # (lemmas: proved, then available to the next ones -- the anomaly is recovered from the two angles recovered before it)
    c.lemma("back.raan", sym.And(sym.cos(k[3]) == sym.cos(O), sym.sin(k[3]) == sym.sin(O)), budget_ms=120000)
    c.lemma("back.argp", sym.And(sym.cos(k[4]) == sym.cos(wp), sym.sin(k[4]) == sym.sin(wp)), budget_ms=120000)
    c.ensure("back.nu", sym.And(sym.cos(k[5]) == sym.cos(nu), sym.sin(k[5]) == sym.sin(nu)), budget_ms=120000)
    # i' = 2 atan(tan(i/2)):  tan(i'/2) = tan(i/2) with both half angles in (0, pi/2)
    c.ensure("back.i.half_tangent", sym.sin(k[2] / 2) * sym.cos(i / 2) == sym.cos(k[2] / 2) * sym.sin(i / 2), budget_ms=60000)


@contract("C01", "edge.tle", funcs=[f"{FORM}._keplerian_mean_to_tle", f"{FORM}._tle_to_keplerian_mean"])
def _(c):
    """TLE form: (i, raan, e, argp, M, n) with n = sqrt(mu / a^3) for a > 0; the way back recovers a (n^2 a^3 = mu) and reorders the others"""
    if not c.symbolic:
        return
    a, e, i, O, wp, M = (c.real(n) for n in ("a", "e", "i", "raan", "argp", "M"))
    mu = c.real("mu", lo=0)
    c.require(a > 0)
    f, w_ = _edge(c, "_keplerian_mean_to_tle", mu)
    g, _ = _edge(c, "_tle_to_keplerian_mean", mu)
    t = f([a, e, i, O, wp, M])
    c.ensure("order", sym.And(t[0] == i, t[1] == O, t[2] == e, t[3] == wp, t[4] == M))
    c.ensure("mean_motion", sym.And(t[5] > 0, t[5] * t[5] * a * a * a == mu))
    k = g(list(t))
    c.ensure("back", sym.And(k[1] == e, k[2] == i, k[3] == O, k[4] == wp, k[5] == M))
    c.ensure("back.a", k[0] == a, budget_ms=120000)


# ---------------------------------------------------------------------------------------------
# true <-> eccentric / hyperbolic anomaly,  eccentric <-> mean (Kepler's equation)
# ---------------------------------------------------------------------------------------------

@contract("C01", "edge.eccentric.elliptic", funcs=[f"{FORM}._keplerian_to_keplerian_eccentric", f"{FORM}._keplerian_eccentric_to_keplerian"])
def _(c):
    """elliptic: the eccentric anomaly E satisfies r = a(1 - e cos E) = p/(1 + e cos nu), r cos nu = a(cos E - e), r sin nu = a sqrt(1-e^2) sin E;
    E in [0, 2 pi); the way back recovers nu in [0, 2 pi) exactly"""
    if not c.symbolic:
        return
    a, e, i, O, wp, nu = (c.real(n) for n in ("a", "e", "i", "raan", "argp", "nu"))
    c.require(sym.And(a > 0, e >= 0, e < 1, nu >= 0, nu < 2 * c.pi))
    f, w_ = _edge(c, "_keplerian_to_keplerian_eccentric")
    g, _ = _edge(c, "_keplerian_eccentric_to_keplerian")
    out = f([a, e, i, O, wp, nu])
    E = out[5]
    c.ensure("others_kept", c.all_eq(out[:5], np.array([a, e, i, O, wp], dtype=object)))
    c.ensure("range", sym.And(E >= 0, E < 2 * c.pi))
    den = 1 + e * sym.cos(nu)
    c.lemma("den_positive", den > 0)
    r_nu = a * (1 - e * e) / den
    c.ensure("radius", a * (1 - e * sym.cos(E)) == r_nu, budget_ms=60000)
    c.ensure("x_perifocal", r_nu * sym.cos(nu) == a * (sym.cos(E) - e), budget_ms=60000)
    c.ensure("y_perifocal", r_nu * sym.sin(nu) == a * sym.sqrt(1 - e * e) * sym.sin(E), budget_ms=60000)
    root = sym.sqrt(1 - e * e)
    c.lemma("E.cos", sym.cos(E) * den == e + sym.cos(nu), budget_ms=60000)
    c.lemma("E.sin", sym.sin(E) * den == sym.sin(nu) * root, budget_ms=60000)
    dE = 1 - e * sym.cos(E)
    c.lemma("dE", dE * den == 1 - e * e, using=["E.cos", "pre"], budget_ms=60000)
    k = g(list(out))
    Xb, Yb = (sym.cos(E) - e) / dE, (sym.sin(E) * root) / dE
    c.lemma("back.X", Xb == sym.cos(nu), using=["E.cos", "dE", "den_positive", "pre"], budget_ms=60000)
    c.lemma("back.Y", Yb == sym.sin(nu), using=["E.sin", "dE", "den_positive", "pre"], budget_ms=60000)
    c.lemma("back.cos", sym.cos(k[5]) == sym.cos(nu), using=["back.X", "back.Y"], budget_ms=60000)
    c.lemma("back.sin", sym.sin(k[5]) == sym.sin(nu), using=["back.X", "back.Y"], budget_ms=60000)
    c.same_angle("back.nu", k[5], nu, 0, using=["back.cos", "back.sin", "pre"])
    c.ensure("back", k[5] == nu)


@contract("C01", "edge.eccentric.hyperbolic", funcs=[f"{FORM}._keplerian_to_keplerian_eccentric", f"{FORM}._keplerian_eccentric_to_keplerian"])
def _(c):
    """hyperbolic: the anomaly H satisfies r = a(1 - e cosh H) = p/(1 + e cos nu), r cos nu = a(cosh H - e), r sin nu = -a sqrt(e^2-1) sinh H (a < 0),
    inside the asymptotes (1 + e cos nu > 0); the way back recovers cos nu and sin nu"""
    if not c.symbolic:
        return
    a, e, i, O, wp, nu = (c.real(n) for n in ("a", "e", "i", "raan", "argp", "nu"))
    c.require(sym.And(a < 0, e > 1, nu > -c.pi, nu < c.pi))
    den = 1 + e * sym.cos(nu)
    c.require(den > 0, "inside the asymptotes")
    f, w_ = _edge(c, "_keplerian_to_keplerian_eccentric")
    g, _ = _edge(c, "_keplerian_eccentric_to_keplerian")
    why = "|sinh_E/cosh_E| < 1 for e > 1 inside the asymptotes (follows from cosh^2 - sinh^2 = 1 > 0); exercised by the bounded stand-in"
    c.run.safety_assumed = {}
    out = f([a, e, i, O, wp, nu])
    H = out[5]
    r_nu = a * (1 - e * e) / den
    # ghost lemmas (proved, then used): the hyperbolic functions of the returned anomaly are the code's two intermediate quotients
    c.lemma("cosh_H", sym.cosh(H) == (e + sym.cos(nu)) / den, budget_ms=120000)
    c.lemma("sinh_H", sym.sinh(H) == sym.sin(nu) * sym.sqrt(e * e - 1) / den, budget_ms=120000)
    c.ensure("radius", a * (1 - e * sym.cosh(H)) == r_nu, budget_ms=60000)
    c.ensure("x_perifocal", r_nu * sym.cos(nu) == a * (sym.cosh(H) - e), budget_ms=60000)
    c.ensure("y_perifocal", r_nu * sym.sin(nu) == -a * sym.sqrt(e * e - 1) * sym.sinh(H), budget_ms=60000)
    k = g(list(out))
    c.lemma("back.cos_expr", (sym.cosh(H) - e) / (1 - e * sym.cosh(H)) == sym.cos(nu), budget_ms=120000)
    c.lemma("back.sin_expr", -(sym.sinh(H) * sym.sqrt(e * e - 1)) / (1 - e * sym.cosh(H)) == sym.sin(nu), budget_ms=120000)
    c.ensure("back.cos", sym.cos(k[5]) == sym.cos(nu), budget_ms=120000)
    c.ensure("back.sin", sym.sin(k[5]) == sym.sin(nu), budget_ms=120000)


@contract("C01", "edge.mean", funcs=[f"{FORM}._keplerian_eccentric_to_keplerian_mean"])
def _(c):
    """Kepler's equation: M = E - e sin E (elliptic), M = e sinh H - H (hyperbolic); the other elements are kept"""
    if not c.symbolic:
        return
    a, e, i, O, wp, E = (c.real(n) for n in ("a", "e", "i", "raan", "argp", "E"))
    c.require(e >= 0)
    f, w_ = _edge(c, "_keplerian_eccentric_to_keplerian_mean")
    out = f([a, e, i, O, wp, E])
    c.ensure("others_kept", c.all_eq(out[:5], np.array([a, e, i, O, wp], dtype=object)))
    if bool(e < 1):
        c.ensure("kepler_equation.elliptic", out[5] == E - e * sym.sin(E))
    else:
        c.ensure("kepler_equation.hyperbolic", out[5] == e * sym.sinh(E) - E)


def _m2e_spec(e, M, tol, hyper):
    def inv(env):
        E, E1 = (env["H"], env["H1"]) if hyper else (env["E"], env["E1"])
        if hyper:
            nxt = E + (M - e * sym.sinh(E) + E) / (e * sym.cosh(E) - 1)
        else:
            nxt = E + (M - E + e * sym.sin(E)) / (1 - e * sym.cos(E))
        return [("newton_step", E1 == nxt)]

    def at_exit(env, broke):
        run = sym.cur()
        E, E1 = (env["H"], env["H1"]) if hyper else (env["E"], env["E1"])
        run.oblige("exit.step_below_tolerance", "post", abs(E1 - E) < tol, using=["branch"])
        if not hyper:
            # residual at the returned value:  M - E1 + e sin E1 = -e cos(E) (E1 - E) + e (sin E1 - sin E)
            run.add_fact("axiom", "sin_lipschitz", sym.lift_bool(abs(sym.sin(E1) - sym.sin(E)) <= abs(E1 - E)))
            run.axioms_used.add("|sin a - sin b| <= |a - b| (mean value theorem)")
            res = M - E1 + e * sym.sin(E1)
            run.oblige("exit.residual", "post", abs(res) <= 2 * e * tol, meta={"budget_ms": 60000})
    return LoopSpec(inv, at_exit=at_exit)


@contract("C01", "m2e", funcs=[f"{FORM}.M2E", f"{FORM}._keplerian_mean_to_keplerian_eccentric"],
          assumptions=["termination of the Newton iteration is not proved (partial correctness); iteration counts are bounded-checked"])
def _(c):
    """M2E (partial correctness): whatever the start value branch, on exit the last Newton step is below 1e-8 and, for ellipses, the residual of
    Kepler's equation at the returned E is at most 2 e 1e-8"""
    if not c.symbolic:
        return
    e, M = c.real("e", lo=0, lo_strict=False), c.real("M")
    hyper = c.choice("kind", [False, True])
    c.require(e > 1 if hyper else e < 1)
    tol = sym.SReal(sym.rv(sym.Fraction(1, 10 ** 8)))
    why = "denominators 1 - e cos E > 0 (e < 1) and e cosh H - 1 > 0 (e > 1, H != 0) -- the latter is not provable at H = 0, e = 1; bounded stand-in covers the domain e >= 1.001"
    c.run.safety_assumed = {}
    w = c.world(loops={f"{FORM}.M2E#{1 if hyper else 0}": _m2e_spec(e, M, tol, hyper)})
    cls = w.cls(FORM)
    c.run.trig_resolve = False
    out = cls.M2E(e, M)
    edge = cls._keplerian_mean_to_keplerian_eccentric
    c.ensure("returned", bool(out is not None))


# ---------------------------------------------------------------------------------------------
# Form.__call__ and the form setter
# ---------------------------------------------------------------------------------------------

@contract("C15", "form_call", funcs=[f"{FORM}.__call__"], assumptions=["path / steps by C20 (routing on the real form graph, which is a tree)"])
@contract("C01", "call.compose", funcs=[f"{FORM}.__call__", f"{SV}:StateVector.form.fset"],
          assumptions=["path / steps by C20 (routing on the real form graph, which is a tree)"])
def _(c):
    """Form.__call__ folds the edge functions _<a>_to_<b> along the graph path from the current form to the requested one (a fresh copy, same object
    left untouched when the form is unchanged); on the real form graph every ordered pair of the 10 forms resolves to existing edge methods and the path
    back is the reverse path"""
    if not c.symbolic:
        return
    import beyond.orbits.forms as fm
    forms = sorted(set(fm._cache.values()), key=lambda f: f.name)
    ok_names, ok_rev = True, True
    for a in forms:
        for b in forms:
            if a is b:
                continue
            pa = [x.name for x in a.path(b.name)]
            pb = [x.name for x in b.path(a.name)]
            ok_rev = ok_rev and pa == pb[::-1]
            for x, y in zip(pa, pa[1:]):
                ok_names = ok_names and hasattr(fm.Form, f"_{x.lower()}_to_{y.lower()}")
    meta = {"decided_by": "finite-enumeration"}
    c.run.oblige("graph.ten_forms", "post", z3.BoolVal(len(forms) == 10), using=[], meta=dict(meta))
    c.run.oblige("graph.every_edge_has_a_method", "post", z3.BoolVal(ok_names), using=[], meta=dict(meta))
    c.run.oblige("graph.path_back_is_reverse", "post", z3.BoolVal(ok_rev), using=[], meta=dict(meta))
    # the fold, with abstract edges
    calls = []

    class Coord(list):
        def copy(self):
            return Coord(self)
    A, B, Cc = (types.SimpleNamespace(name=n) for n in ("AAA", "BBB", "CCC"))
    body = object()
    own_memory = Coord(["x0"])     # the receiver's own coordinates (what .base / a view of it would hand out): must never be what is returned or passed on
    orbit = types.SimpleNamespace(form=A, frame=types.SimpleNamespace(center=types.SimpleNamespace(body=body)), copy=lambda: Coord(["x0"]), base=own_memory,
                                  view=lambda *a, **k: own_memory, __array__=lambda *a, **k: own_memory)
    w = c.world(stubs={"beyond.utils.node:Node.steps": lambda self, goal: iter([(A, B), (B, Cc)]) if goal == "CCC" else iter([])})
    me = w.obj(FORM, name="AAA")
    d = object.__getattribute__(me, "__dict__")
    d["_aaa_to_bbb"] = lambda coord, b: calls.append(("ab", coord, b)) or Coord(["x1"])
    d["_bbb_to_ccc"] = lambda coord, b: calls.append(("bc", coord, b)) or Coord(["x2"])
    out = me(orbit, "CCC")
    c.ensure("fold", bool(out == ["x2"] and [x[0] for x in calls] == ["ab", "bc"] and calls[0][1] == ["x0"] and calls[1][1] == ["x1"] and all(x[2] is body for x in calls)))
    c.ensure("edges_work_on_a_copy", bool(calls[0][1] is not own_memory))
    same = me(orbit, "AAA")
    c.ensure("same_form_is_a_copy", bool(same == ["x0"] and same is not own_memory and len(calls) == 2))
    out2 = me(orbit, Cc.__class__(name="CCC")) if False else me(orbit, "CCC")
    c.ensure("deterministic", bool(out2 == ["x2"]))


# ---------------------------------------------------------------------------------------------
# Infos: derived quantities obey their defining relations
# ---------------------------------------------------------------------------------------------

@contract("C01", "infos", funcs=[f"{SV}:Infos.{n}" for n in ("n", "period", "apocenter", "pericenter", "energy", "v", "va", "vp", "vinf", "dinf", "cos_fpa", "sin_fpa", "fpa", "zp", "za")],
          assumptions=["StateVector ADT: infos.kep / infos.sphe are the keplerian / spherical views of the state (edge contracts above)", "timedelta constructor: real seconds"])
def _(c):
    """period*n = 2 pi, n^2 |a|^3 = mu, ra = a(1+e), rp = a(1-e), energy = -mu/2a, v^2 = mu(2/r - 1/a) (vis-viva) also at the apsides, cos^2 + sin^2 of
    the flight-path angle = 1 with tan(fpa) = e sin(nu)/(1 + e cos(nu)), vinf^2 = mu/|a|, dinf = |a| sqrt(e^2-1)"""
    if not c.symbolic:
        return
    from pyvc.adt import SymTimedelta
    mu = c.real("mu", lo=0)
    a, e, nu = c.real("a"), c.real("e", lo=0, lo_strict=False), c.real("nu")
    kind = c.choice("kind", ["elliptic", "hyperbolic"])
    c.require(sym.And(a > 0, e < 1) if kind == "elliptic" else sym.And(a < 0, e > 1))
    den = 1 + e * sym.cos(nu)
    c.require(den > 0)
    r = a * (1 - e * e) / den
    Re = c.real("body_radius", lo=0)
    body = types.SimpleNamespace(mu=mu, r=Re)
    orb = types.SimpleNamespace(frame=types.SimpleNamespace(center=types.SimpleNamespace(body=body)))
    w = c.world(names={SV: {"timedelta": lambda seconds=0: SymTimedelta(seconds)}})
    inf = w.obj(f"{SV}:Infos", orb=orb, _kep=types.SimpleNamespace(a=a, e=e, nu=nu), _sphe=types.SimpleNamespace(r=r))
    n = inf.n
    c.ensure("n", sym.And(n > 0, n * n * abs(a) * abs(a) * abs(a) == mu))
    c.ensure("energy", inf.energy * 2 * a == -mu)
    c.ensure("pericenter", inf.pericenter == a * (1 - e))
    c.ensure("zp", inf.zp == a * (1 - e) - Re)
    v = inf.v
    c.ensure("vis_viva", sym.And(v >= 0, v * v == mu * (2 / r - 1 / a)), budget_ms=60000)
    vp = inf.vp
    c.ensure("vp", sym.And(vp >= 0, vp * vp * a * (1 - e) == mu * (1 + e)), budget_ms=60000)
    c.ensure("energy_is_kinetic_plus_potential", inf.energy == v * v / 2 - mu / r, budget_ms=60000)
    cf, sf = inf.cos_fpa, inf.sin_fpa
    c.ensure("fpa.unit", cf * cf + sf * sf == 1, budget_ms=60000)
    c.ensure("fpa.tangent", sf * den == cf * e * sym.sin(nu), budget_ms=60000)
    c.ensure("fpa.cos_positive", cf > 0, budget_ms=60000)
    if kind == "elliptic":
        c.ensure("period", inf.period.total_seconds() * n == 2 * c.pi)
        c.ensure("apocenter", sym.And(inf.apocenter == a * (1 + e), inf.za == a * (1 + e) - Re))
        va = inf.va
        c.ensure("va", sym.And(va >= 0, va * va * a * (1 + e) == mu * (1 - e)), budget_ms=60000)
        c.ensure("vinf_undefined", c.raises(ValueError, lambda: inf.vinf))
    else:
        c.ensure("period_undefined", c.raises(ValueError, lambda: inf.period))
        vi = inf.vinf
        c.ensure("vinf", sym.And(vi > 0, vi * vi * (-a) == mu))
        di = inf.dinf
        c.ensure("dinf", sym.And(di > 0, di * di == a * a * (e * e - 1)), budget_ms=60000)


# ---------------------------------------------------------------------------------------------
# bounded stand-ins on the real classes: all 10 x 10 form pairs, definitions from the cartesian state, Infos
# ---------------------------------------------------------------------------------------------

FORMS = ["cartesian", "spherical", "cylindrical", "keplerian", "keplerian_eccentric", "keplerian_mean", "keplerian_circular",
         "keplerian_mean_circular", "equinoctial", "tle"]
# forms defined for hyperbolic orbits: not `tle` (mean motion sqrt(mu/a^3), a < 0) and not `keplerian_mean_circular` (its mean argument of latitude
# reduces omega + M modulo 2 pi, and a hyperbolic mean anomaly is not an angle) -- see DESIGN.md section 9
HYPER_OK = ["cartesian", "spherical", "cylindrical", "keplerian", "keplerian_eccentric", "keplerian_mean", "keplerian_circular", "equinoctial"]


def _grid_forms(tier, rng):
    """e in {1e-4,.01,.3,.7,.95,.99} U {1.001,1.3,1.6,2,3.6,5,20} x i in {.01,.5,pi/2,2,pi-.01} x (raan, argp) in 3 (quick) / 8 pairs x anomaly in 6 (quick) /
    16 values incl. M<0, M>pi, large |H| x mu in {Earth, Moon, Sun}; every ordered pair of the forms defined for the orbit type (10x10 / 8x8)"""
    es = [1e-4, 0.01, 0.3, 0.7, 0.95, 0.99, 1.001, 1.3, 1.6, 2.0, 3.6, 5.0, 20.0]
    incs = [0.01, 0.5, math.pi / 2, 2.0, math.pi - 0.01]
    angs = [(0.3, 5.5), (3.0, 1.0), (6.0, 3.3)] if tier == "quick" else [(0.0, 0.0), (0.3, 5.5), (1.6, 3.1), (3.0, 1.0), (3.2, 6.2), (4.7, 2.2), (6.0, 3.3), (6.28, 0.01)]
    anoms = [-2.5, -0.3, 0.2, 1.5, 3.3, 6.0] if tier == "quick" else [-6.0, -3.3, -2.5, -1.0, -0.3, -1e-3, 0.0, 1e-3, 0.2, 1.0, 1.5, 3.0, 3.3, 4.5, 6.0, 6.28]
    k = 0
    for e in es:
        for inc in incs:
            for (O, w) in angs:
                for an in anoms:
                    k += 1
                    # (a stride coprime with the sizes of the inner loops, so that every anomaly and every angle pair is visited)
                    if tier == "quick" and k % 5 != (k // 30) % 5:
                        continue
                    yield {"e": e, "i": inc, "raan": O, "argp": w, "anom": an, "body": (k // 5) % 3}


@contract("C01", "native.roundtrip", funcs=[f"{FORM}.__call__", f"{SV}:StateVector.form.fset", f"{SV}:StateVector.copy"] + [f"{FORM}.{n}" for n in (
    "_cartesian_to_keplerian", "_keplerian_to_cartesian", "_keplerian_to_keplerian_eccentric", "_keplerian_eccentric_to_keplerian", "_keplerian_eccentric_to_keplerian_mean",
    "_keplerian_mean_to_keplerian_eccentric", "M2E")], grid=_grid_forms, level="bounded")
def _(c):
    """bounded: from an independently built cartesian state, for every ordered pair (A, B) of forms defined for the orbit: cartesian -> A -> B -> cartesian
    returns the same position and velocity (1e-9 relative; 1e-7 for e >= 0.99 or e <= 1.001), in place (form setter) and by copy; the elements of every
    form equal their textbook definitions computed from the cartesian state by independent code"""
    from beyond.orbits import StateVector
    from beyond.dates import Date
    from beyond.constants import Earth, Moon, Sun
    from beyond.frames import frames as fr
    from contracts.c19_mission import _kep2cart
    from contracts import twobody
    e, inc, O, w, an = c.real("e"), c.real("i"), c.real("raan"), c.real("argp"), c.real("anom")
    body = [Earth, Moon, Sun][c.integer("body")]
    mu = body.mu
    rp = {0: 7.0e6, 1: 2.0e6, 2: 8.0e10}[c.integer("body")]
    a = rp / (1 - e)
    if e > 1:
        numax = math.acos(-1 / e)
        nu = max(-0.97, min(0.97, an / 6.3)) * numax
        forms = HYPER_OK
    else:
        nu = an
        forms = FORMS
    r0, v0 = _kep2cart(a, e, inc, O, w, nu, mu)
    x0 = np.array(list(r0) + list(v0))
    # a frame centred on the chosen body
    frame = fr.EME2000 if body is Earth else fr.Frame(f"C01_{body.name}", fr.EME2000.orientation, types.SimpleNamespace(body=body, name=body.name), exists_warning=False)
    tol = 1e-9 if (0.99 > e or e > 1.001) and e > 1e-3 else 1e-6
    scale_r, scale_v = np.linalg.norm(r0), np.linalg.norm(v0)
    worst = 0.0
    ok_defs = True
    ok_infos = True
    for A in forms:
        sv = StateVector(x0, Date(58000), "cartesian", frame)
        sv.form = A
        if A.startswith("keplerian") and A != "keplerian_circular" and A != "keplerian_mean_circular" or A == "tle":
            pass
        for B in forms:
            sv2 = sv.copy(form=B)
            back = np.asarray(sv2.copy(form="cartesian"), dtype=float)
            worst = max(worst, np.linalg.norm(back[:3] - x0[:3]) / scale_r, np.linalg.norm(back[3:] - x0[3:]) / scale_v)
            inplace = sv.copy()
            inplace.form = B
            inplace.form = "cartesian"
            worst = max(worst, np.linalg.norm(np.asarray(inplace, dtype=float)[:3] - x0[:3]) / scale_r)
        c.ensure("receiver_unchanged", sv.form.name == A)
        # the derived quantities are those of the state, whatever the form it is held in (radius, speed, flight-path angle: against the independent cartesian state)
        inf = sv.infos
        sin_fpa_ref = float(np.dot(r0, v0)) / (scale_r * scale_v)
        ok_infos = ok_infos and abs(float(inf.r) / scale_r - 1) <= max(tol, 1e-9) and abs(float(inf.v) / scale_v - 1) <= max(tol, 1e-9) \
            and abs(float(inf.sin_fpa) - sin_fpa_ref) <= max(10 * tol, 1e-8)
    c.ensure("derived_quantities_do_not_depend_on_the_form_held", ok_infos)
    c.ensure("roundtrip_all_pairs", worst <= tol)
    # definitions, independently (twobody.elements uses the vector definitions of Vallado ch. 2)
    a_, e_, i_, O_, w_, nu_ = twobody.elements(r0, v0, mu)
    kep = np.asarray(StateVector(x0, Date(58000), "cartesian", frame).copy(form="keplerian"), dtype=float)
    dang = lambda p, q: abs((p - q + math.pi) % (2 * math.pi) - math.pi)
    atol = 1e-9 if tol == 1e-9 else 1e-5
    c.ensure("keplerian_definitions", abs(kep[0] / a_ - 1) < 1e-9 * 100 and abs(kep[1] - e_) < atol and abs(kep[2] - i_) < atol and dang(kep[3], O_) < atol / max(math.sin(inc), 1e-2)
             and dang(kep[4] + kep[5], w_ + nu_) < atol / max(math.sin(inc), 1e-2) and (e < 1e-3 or dang(kep[5], nu_) < atol / min(1.0, e) * 10))
    sph = np.asarray(StateVector(x0, Date(58000), "cartesian", frame).copy(form="spherical"), dtype=float)
    rn = np.linalg.norm(r0)
    c.ensure("spherical_definitions", abs(sph[0] / rn - 1) < 1e-12 and dang(sph[1], math.atan2(r0[1], r0[0])) < 1e-12 and abs(sph[2] - math.asin(r0[2] / rn)) < 1e-9
             and abs(sph[3] - r0 @ v0 / rn) < 1e-9 * scale_v)
    if e < 1:
        ecc = np.asarray(StateVector(x0, Date(58000), "cartesian", frame).copy(form="keplerian_eccentric"), dtype=float)
        mean = np.asarray(StateVector(x0, Date(58000), "cartesian", frame).copy(form="keplerian_mean"), dtype=float)
        E = ecc[5]
        c.ensure("eccentric_anomaly_geometry", abs(a_ * (1 - e_ * math.cos(E)) / rn - 1) < 1e-9 * 100)
        c.ensure("kepler_equation", dang(mean[5], E - e_ * math.sin(E)) < 1e-9)
        tle = np.asarray(StateVector(x0, Date(58000), "cartesian", frame).copy(form="tle"), dtype=float)
        c.ensure("tle_mean_motion", abs(tle[5] / math.sqrt(mu / a_ ** 3) - 1) < 1e-9 * 10)
        equi = np.asarray(StateVector(x0, Date(58000), "cartesian", frame).copy(form="equinoctial"), dtype=float)
        c.ensure("equinoctial_vectors", abs(equi[1] - e_ * math.cos(O_ + w_)) < atol * 10 and abs(equi[2] - e_ * math.sin(O_ + w_)) < atol * 10
                 and abs(equi[3] - math.tan(i_ / 2) * math.cos(O_)) < atol * 100 / max(math.sin(inc), 1e-2) and abs(equi[4] - math.tan(i_ / 2) * math.sin(O_)) < atol * 100 / max(math.sin(inc), 1e-2))
    else:
        ecc = np.asarray(StateVector(x0, Date(58000), "cartesian", frame).copy(form="keplerian_eccentric"), dtype=float)
        mean = np.asarray(StateVector(x0, Date(58000), "cartesian", frame).copy(form="keplerian_mean"), dtype=float)
        H = ecc[5]
        c.ensure("hyperbolic_anomaly_geometry", abs(a_ * (1 - e_ * math.cosh(H)) / rn - 1) < 1e-7)
        c.ensure("kepler_equation", abs(mean[5] - (e_ * math.sinh(H) - H)) < 1e-9 * max(1, abs(mean[5])))
    # derived quantities
    inf = StateVector(x0, Date(58000), "cartesian", frame).infos
    vn = np.linalg.norm(v0)
    c.ensure("infos.energy", abs(inf.energy / (vn ** 2 / 2 - mu / rn) - 1) < 1e-8)
    c.ensure("infos.speed", abs(inf.v / vn - 1) < 1e-8)
    c.ensure("infos.pericenter", abs(inf.rp / rp - 1) < 1e-8)
    c.ensure("infos.fpa", abs(inf.cos_fpa ** 2 + inf.sin_fpa ** 2 - 1) < 1e-8 and abs(math.sin(inf.fpa) - (r0 @ v0) / (rn * vn)) < 1e-8)
    if e < 1:
        c.ensure("infos.period", abs(inf.period.total_seconds() / (2 * math.pi * math.sqrt(a_ ** 3 / mu)) - 1) < 1e-8 + 1e-6 / inf.period.total_seconds())
        c.ensure("infos.apocenter", abs(inf.ra / (a_ * (1 + e_)) - 1) < 1e-8)
    else:
        c.ensure("infos.vinf", abs(inf.vinf / math.sqrt(mu / abs(a_)) - 1) < 1e-8)
    # the derived quantities are those of the state as it is NOW: read them, change the object in place (an element by name, the velocity, all six
    # numbers, the form), read them again -- each time against the definitions evaluated on the object's current cartesian view
    def derived_ok(sv_):
        cart = np.asarray(sv_.copy(form="cartesian"), dtype=float)
        rn_, vn_ = np.linalg.norm(cart[:3]), np.linalg.norm(cart[3:])
        i_ = sv_.infos
        return bool(abs(i_.r / rn_ - 1) < 1e-8 and abs(i_.v / vn_ - 1) < 1e-8 and abs(i_.energy / (vn_ ** 2 / 2 - mu / rn_) - 1) < 1e-7
                    and abs(math.sin(i_.fpa) - (cart[:3] @ cart[3:]) / (rn_ * vn_)) < 1e-7)
    obj = StateVector(x0, Date(58000), "cartesian", frame)
    obj.form = "keplerian"
    ok_follow = derived_ok(obj)
    nu_signed = (float(obj.nu) + math.pi) % (2 * math.pi) - math.pi      # (a hyperbolic anomaly must stay inside the asymptotes)
    obj.nu = nu_signed * 0.5 + (0.1 if e < 1 else 0.0)                # one element, by name
    ok_follow = ok_follow and derived_ok(obj)
    obj.form = "cartesian"
    ok_follow = ok_follow and derived_ok(obj)
    obj[3:] = np.asarray(obj[3:], dtype=float) * 1.01                 # an impulse along the velocity
    ok_follow = ok_follow and derived_ok(obj)
    obj[:] = x0 * np.array([1.0, 1.0, 1.0, 0.99, 0.99, 0.99])       # all six numbers
    ok_follow = ok_follow and derived_ok(obj)
    c.ensure("infos.follow_in_place_changes", ok_follow)


def _grid_m2e(tier, rng):
    """e in 20 values of [0, 0.99] and [1.001, 20] x M in 41 values of [-50, 50] plus large |M| (1e3, 1e5)"""
    es = [0.0, 1e-4, 0.01, 0.1, 0.3, 0.5, 0.7, 0.9, 0.95, 0.99, 1.001, 1.01, 1.2, 1.59, 1.6, 2.0, 3.59, 3.6, 5.0, 20.0]
    for e in es:
        yield {"e": e}


@contract("C01", "native.m2e", funcs=[f"{FORM}.M2E"], grid=_grid_m2e, level="bounded")
def _(c):
    """bounded: the Kepler solver terminates (instrumented: < 1000 function evaluations; observed <= 85 at e = 0.99) and solves Kepler's equation to 1e-7 for every start-value branch"""
    import beyond.orbits.forms as fm
    e = c.real("e")
    Ms = list(np.linspace(-50, 50, 41)) + [1e-9, -1e-9, math.pi, -math.pi, 1e3, -1e3, 1e5]
    worst, worst_it = 0.0, 0
    for M in Ms:
        count = {"n": 0}
        orig_sin, orig_sinh = fm.sin, fm.sinh
        fm.sin = lambda x: (count.__setitem__("n", count["n"] + 1) or orig_sin(x))
        fm.sinh = lambda x: (count.__setitem__("n", count["n"] + 1) or orig_sinh(x))
        try:
            E = fm.Form.M2E(e, M)
        finally:
            fm.sin, fm.sinh = orig_sin, orig_sinh
        res = (E - e * math.sin(E) - M) if e < 1 else (e * math.sinh(E) - E - M)
        worst = max(worst, abs(res) / max(1.0, abs(M)))
        worst_it = max(worst_it, count["n"])
    c.ensure("kepler_equation_solved", worst < 1e-7)
    c.ensure("terminates", worst_it < 1000)


# ---------------------------------------------------------------------------------------------
# the forms are views of one state "for any central body": a state held in a form whose definition involves mu, moved to a frame about another body
# ---------------------------------------------------------------------------------------------

def _grid_centres(tier, rng):
    """forms {keplerian, keplerian_eccentric, keplerian_mean, keplerian_circular, keplerian_mean_circular, equinoctial, tle, spherical, cylindrical} x 3 lunar orbits
    x direction {Moon-centred -> Earth-centred, Earth-centred -> Moon-centred} x {in place, by copy}"""
    for f in range(9):
        for o in range(3):
            for dirn in (0, 1):
                yield {"form": f, "orbit": o, "dir": dirn, "inplace": (f + o + dirn) % 2}


_C01_CENTRES = {}


def _luna():
    """a Moon-like centre at a fixed offset (position, velocity) from the Earth's: no kernel needed; registered once per process"""
    if "f" not in _C01_CENTRES:
        from beyond import constants
        from beyond.frames import orient
        from beyond.frames.center import Center, Earth
        from beyond.frames.frames import Frame
        luna = Center("C01Luna", body=constants.Moon)
        luna.add_link(Earth, orient.EME2000, [3.6e8, 1.2e8, 4.0e7, -300.0, 950.0, 120.0])
        _C01_CENTRES["f"] = Frame("C01LunaFrame", orient.EME2000, luna)
    return _C01_CENTRES["f"]


@contract("C01", "native.other_central_body", funcs=[f"{SV}:StateVector.frame.fset", f"{SV}:StateVector.copy", f"{FORM}.__call__"], grid=_grid_centres, level="bounded")
def _(c):
    """bounded: a state held in any form and moved (in place or by copy) to a frame about ANOTHER central body keeps its form, and its six numbers are those obtained
    by converting the cartesian state in the arrival frame with the arrival body's mu (form change and frame change commute: 1e-9 relative on the cartesian state
    they stand for); the textbook a and e (vis-viva, eccentricity vector with the arrival mu) for the keplerian forms"""
    from beyond.orbits import StateVector
    from beyond.dates import Date
    from beyond import constants
    from contracts.c19_mission import _kep2cart
    forms = ["keplerian", "keplerian_eccentric", "keplerian_mean", "keplerian_circular", "keplerian_mean_circular", "equinoctial", "tle", "spherical", "cylindrical"]
    form = forms[c.integer("form")]
    luna = _luna()
    a, e, inc = [(5.0e6, 0.3, 1.05), (2.5e6, 0.05, 2.4), (9.0e6, 0.6, 0.4)][c.integer("orbit")]
    r0, v0 = _kep2cart(a, e, inc, 1.0, 2.0, 0.7, constants.Moon.mu)
    date = Date(2020, 6, 1)
    cart_moon = StateVector(list(r0) + list(v0), date, "cartesian", luna)
    cart_earth = cart_moon.copy(frame="EME2000")
    off = np.array([3.6e8, 1.2e8, 4.0e7, -300.0, 950.0, 120.0])
    c.ensure("offset_applied", bool(np.allclose(np.asarray(cart_earth, dtype=float), np.asarray(cart_moon, dtype=float) + off, rtol=1e-13, atol=1e-6)))
    if c.integer("dir") == 0:
        src, dst_frame, want_cart, mu_dst = cart_moon, "EME2000", np.asarray(cart_earth, dtype=float), constants.Earth.mu
    else:
        src, dst_frame, want_cart, mu_dst = cart_earth, luna, np.asarray(cart_moon, dtype=float), constants.Moon.mu
    # about the Earth a lunar orbiter may be on a hyperbola: the forms not defined for open orbits (C01.native.roundtrip: HYPER_OK) are left out there
    # (at departure as well as at arrival)
    energy = lambda x, mu_: np.linalg.norm(x[3:]) ** 2 / 2 - mu_ / np.linalg.norm(x[:3])
    mu_src = constants.Moon.mu if c.integer("dir") == 0 else constants.Earth.mu
    if energy(want_cart, mu_dst) >= 0 or energy(np.asarray(src, dtype=float), mu_src) >= 0:
        c.require(form in HYPER_OK)
    held = src.copy(form=form)
    if c.integer("inplace"):
        moved = held.copy()
        moved.frame = dst_frame
    else:
        moved = held.copy(frame=dst_frame)
    c.ensure("form_kept", moved.form.name == form and (moved.frame.name == (dst_frame if isinstance(dst_frame, str) else dst_frame.name)))
    back = np.asarray(moved.copy(form="cartesian"), dtype=float)
    c.ensure("stands_for_the_same_state", bool(np.linalg.norm(back[:3] - want_cart[:3]) <= 1e-9 * np.linalg.norm(want_cart[:3])
                                               and np.linalg.norm(back[3:] - want_cart[3:]) <= 1e-9 * np.linalg.norm(want_cart[3:])))
    if form in ("keplerian", "keplerian_eccentric", "keplerian_mean"):
        r, v = want_cart[:3], want_cart[3:]
        rn, vn = np.linalg.norm(r), np.linalg.norm(v)
        a_ref = 1 / (2 / rn - vn ** 2 / mu_dst)
        e_ref = np.linalg.norm(((vn ** 2 - mu_dst / rn) * r - np.dot(r, v) * v) / mu_dst)
        c.ensure("textbook_a_e_with_the_arrival_mu", bool(abs(float(moved[0]) / a_ref - 1) <= 1e-9 and abs(float(moved[1]) - e_ref) <= 1e-9 * max(1.0, e_ref)))
