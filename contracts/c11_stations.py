"""C11: ground-station geometry (beyond/frames/stations.py, orient.TopocentricOrientation, utils/measures.py)."""
import itertools
import math
import types

import numpy as np

from pyvc.contract import contract
from pyvc import sym
from pyvc.adt import SymDate, SymStateVector
from contracts.c02_matrix import det3, I3
from contracts.c17_local import cross, dot

ST = "beyond.frames.stations"
OR = "beyond.frames.orient"
ME = "beyond.utils.measures"


def _grid_geo(tier, rng):
    """lat in {-89.9,-45,-0.1,0.1,43.6,89.9} deg x lon in 8 values x alt in {-400,0,172,9000} m, Earth's a and f (+ Moon's, Mars')"""
    for a, f in ((6378136.3, 1 / 298.257223563), (1738100.0, 0.0012), (3396200.0, 0.00589)):
        for lat in (-89.9, -45, -0.1, 0.1, 43.6, 89.9):
            for lon in (-180, -135, -90, -1.5, 0, 1.5, 90, 179):
                for alt in (-400.0, 0.0, 172.0, 9000.0):
                    yield {"a": a, "f": f, "lat": math.radians(lat), "lon": math.radians(lon), "alt": alt}


@contract("C11", "geodetic", funcs=[f"{ST}:TopocentricFrame._geodetic_to_cartesian", "beyond.constants:Body.eccentricity"],
          grid=_grid_geo, rtol=1e-12, atol=1e-6)
def _(c):
    """the point is `alt` along the ellipsoid normal above the ellipsoid point of geodetic latitude lat, at rest"""
    a, f = c.real("a", lo=0), c.real("f", lo=0, hi=1)
    lat, lon, alt = c.real("lat"), c.real("lon"), c.real("alt")
    if c.symbolic:
        c.require(sym.And(lat > -c.pi / 2, lat < c.pi / 2), "lat.range")
        w = c.world()
        earth = w.obj("beyond.constants:Body", name="X", mass=1, equatorial_radius=a, flattening=f)
        w.names[ST] = {"Earth": earth}
        g = w.cls(f"{ST}:TopocentricFrame")._geodetic_to_cartesian
    else:
        import beyond.frames.stations as st
        from beyond.constants import Body
        saved = st.Earth
        st.Earth = Body("X", 1, a, flattening=f)
        g = st.TopocentricFrame._geodetic_to_cartesian
    try:
        p0 = g(lat, lon, 0)
        p = g(lat, lon, alt)
    finally:
        if not c.symbolic:
            st.Earth = saved
    b = a * (1 - f)
    sc = None if c.symbolic else 1.0
    c.ensure("on_ellipsoid", c.eq((p0[0] * p0[0] + p0[1] * p0[1]) / (a * a) + p0[2] * p0[2] / (b * b), 1, scale=sc))
    n = np.array([sym.cos(lat) * sym.cos(lon), sym.cos(lat) * sym.sin(lon), sym.sin(lat)], dtype=object)
    grad = np.array([p0[0] / (a * a), p0[1] / (a * a), p0[2] / (b * b)], dtype=object)
    c.ensure("normal", c.all_eq(cross(grad, n), np.zeros(3, dtype=object), scale=None if c.symbolic else 1 / float(a), atol=1e-18))
    c.ensure("normal.outward", c.is_true(dot(grad, n) > 0))
    c.ensure("altitude", c.all_eq(p[:3], p0[:3] + alt * n, scale=None if c.symbolic else float(a)))
    c.ensure("rest", c.all_eq(p[3:], np.zeros(3, dtype=object)))
    c.ensure("length", len(p) == 6)


def _grid_ll(tier, rng):
    """lat in 7 values (-89.9..89.9 deg) x lon in 9 values (all quadrants)"""
    for lat in (-89.9, -45, -0.1, 0, 0.1, 43.6, 89.9):
        for lon in (-180, -135, -90, -1.5, 0, 1.5, 90, 135, 179):
            yield {"lat": math.radians(lat), "lon": math.radians(lon)}


@contract("C11", "topo.axes", funcs=[f"{OR}:TopocentricOrientation.__init__", f"{OR}:TopocentricOrientation._to_parent"],
          grid=_grid_ll, rtol=1e-12, atol=1e-12,
          assumptions=["inlined: rot2, rot3 (verified in C02)", "Node.__init__/__add__ stubbed (graph registration is C20's subject)"])
def _(c):
    """columns of the station->parent matrix are North, West, Up of the geodetic point (x north / y west / z up)"""
    lat, lon = c.real("lat"), c.real("lon")
    if c.symbolic:
        links = []
        w = c.world(stubs={"beyond.utils.node:Node.__init__": lambda self, name: object.__getattribute__(self, "__dict__").update(name=name),
                           })
        parent = type("P", (), {"__add__": lambda s, o: links.append((s, o)) or s, "name": "PARENT"})()
        o = w.new(f"{OR}:TopocentricOrientation", "STA", (lat, lon, 0), parent=parent)
        m, rate = o._to_parent(SymDate(0))
        c.ensure("linked", bool(len(links) == 1 and links[0][1] is o))
        c.ensure("provider_named", bool(getattr(o, "STA_to_PARENT", None) is not None))
    else:
        from beyond.frames.orient import TopocentricOrientation
        o = TopocentricOrientation.__new__(TopocentricOrientation)
        # evaluate the constructor's matrix expression on the real code without registering a node
        import beyond.frames.orient as om
        from beyond.utils.node import Node
        saved_add = Node.__add__
        Node.__add__ = lambda s, other: s
        try:
            dummy = om.Orientation.__new__(om.Orientation)
            Node.__init__(dummy, "PARENT")
            TopocentricOrientation.__init__(o, "STA", (lat, lon, 0), parent=dummy)
        finally:
            Node.__add__ = saved_add
        m, rate = o._to_parent(None)
    c.ensure("no_rate", rate is None)
    sl, cl, sp, cp = sym.sin(lon), sym.cos(lon), sym.sin(lat), sym.cos(lat)
    north = np.array([-sp * cl, -sp * sl, cp], dtype=object)
    west = np.array([sl, -cl, 0], dtype=object)
    up = np.array([cp * cl, cp * sl, sp], dtype=object)
    c.ensure("north", c.all_eq(m[:, 0], north))
    c.ensure("west", c.all_eq(m[:, 1], west))
    c.ensure("up", c.all_eq(m[:, 2], up))
    c.ensure("proper", c.eq(det3(m), 1))


def _grid_mask(tier, rng):
    """mask tables of length 2..6 with strictly increasing azimuths ending at 2 pi, seeded elevations; azimuths queried:
    each node, mid-points, 0, just below 2 pi, and the same shifted by -2 pi, +2 pi, +4 pi"""
    for n in (2, 3, 4, 5, 6):
        for rep in range(2 if tier == "quick" else 10):
            xs = sorted(rng.uniform(0.05, 6.2) for _ in range(n - 1)) + [2 * math.pi]
            ys = [rng.uniform(0, 0.5) for _ in range(n)]
            qs = [0.0, 1e-9, 2 * math.pi - 1e-9] + xs[:-1] + [(xs[i] + xs[i + 1]) / 2 for i in range(n - 1)] + [xs[0] / 2]
            for q in qs:
                for sh in (0, -2 * math.pi, 2 * math.pi, 4 * math.pi):
                    d = {"n": n, "az": q + sh}
                    d.update({f"x{i}": xs[i] for i in range(n)})
                    d.update({f"y{i}": ys[i] for i in range(n)})
                    yield d


@contract("C11", "mask", funcs=[f"{ST}:TopocentricFrame.get_mask"], grid=_grid_mask, rtol=1e-9, atol=1e-9,
          assumptions=["table length: proved for every table of length 2..4 (all values); longer tables are covered by the bounded stand-in only"])
def _(c):
    """get_mask(az) is the piecewise-linear interpolation of the table, the value at 2 pi also serving at 0"""
    n = c.choice("n", [2, 3, 4]) if c.symbolic else c.integer("n")
    xs = [c.real(f"x{i}") for i in range(n)]
    ys = [c.real(f"y{i}") for i in range(n)]
    az = c.real("az")
    two_pi = 2 * c.pi
    c.require(xs[0] > 0)
    for i in range(n - 1):
        c.require(xs[i] < xs[i + 1])
    c.require(c.eq(xs[-1], two_pi) if not c.symbolic else xs[-1] == two_pi)
    if c.symbolic:
        c.require(sym.And(az >= -two_pi, az < 3 * two_pi), "az.window")  # three revolutions
        w = c.world()
        mask = np.array([xs, ys], dtype=object)
        sta = w.obj(f"{ST}:TopocentricFrame", mask=mask, name="STA")
        res = sta.get_mask(az)
        a = az % two_pi
    else:
        import beyond.frames.stations as st
        sta = st.TopocentricFrame.__new__(st.TopocentricFrame)
        xs[-1] = 2 * math.pi
        sta.mask = np.array([xs, ys])
        sta.name = "STA"
        res = sta.get_mask(az)
        a = az % (2 * math.pi)
    # specification: own scan
    x_prev, y_prev = 0, ys[-1]
    want = None
    for i in range(n):
        if a < xs[i]:
            want = y_prev + (ys[i] - y_prev) * (a - x_prev) / (xs[i] - x_prev)
            break
        x_prev, y_prev = xs[i], ys[i]
    if want is None:
        want = ys[-1]  # a == 2 pi cannot happen after the modulo; kept for totality
    c.ensure("interpolation", c.eq(res, want))


def _grid_meas(tier, rng):
    """3 path lengths (1, 2, 3 legs) x 5 seeded spherical states"""
    for legs in (1, 2, 3):
        for k in range(5):
            yield {"legs": legs, "r": rng.uniform(1e5, 4e7), "theta": rng.uniform(-3, 3), "phi": rng.uniform(-1.5, 1.5),
                   "r_dot": rng.uniform(-7e3, 7e3), "theta_dot": rng.uniform(-.1, .1), "phi_dot": rng.uniform(-.1, .1)}


@contract("C11", "measures", funcs=[f"{ME}:Range.from_orbit", f"{ME}:Azimut.from_orbit", f"{ME}:Elevation.from_orbit", f"{ME}:Doppler.from_orbit",
                                    f"{ME}:StationMeasure.__init__", f"{ME}:StationMeasure.frame", f"{ME}:Measure.__init__"],
          grid=None,
          assumptions=["StateVector ADT: orb.copy(frame=F, form='spherical') is the state expressed in F in spherical form (frame conversion: C02, form conversion: C01)"])
def _(c):
    """each simulated measure is the named spherical component in the station frame (first element of the path),
    the range being counted once per leg of the signal path"""
    if not c.symbolic:
        return
    legs = c.choice("legs", [1, 2, 3])
    sph = [c.real(k) for k in ("r", "theta", "phi", "r_dot", "theta_dot", "phi_dot")]
    t = c.real("t")
    station = types.SimpleNamespace(name="STA")
    path = [station] + [types.SimpleNamespace(name=f"N{i}") for i in range(legs)]
    asked = []

    def convert(self, frame=None, form=None, same=None):
        asked.append((frame, form))
        return SymStateVector(sph, date=self.date, form="spherical", frame=frame)
    orb = SymStateVector([c.real(f"c{i}") for i in range(6)], date=SymDate(t), form="cartesian", frame="EME2000", __convert__=convert)
    w = c.world()
    for cls, idx, factor in (("Range", 0, legs), ("Azimut", 1, 1), ("Elevation", 2, 1), ("Doppler", 3, 1)):
        del asked[:]
        m0 = w.new(f"{ME}:{cls}", path, None, None)
        m = m0.from_orbit(orb)
        c.ensure(f"{cls}.value", m.value == sph[idx] * factor)
        c.ensure(f"{cls}.date", m.date.t == t)
        c.ensure(f"{cls}.frame", bool(asked == [(station, "spherical")] and m.frame is station and tuple(m.path) == tuple(path)))


# ---------------------------------------------------------------------------------------------
# end to end, on the real create_station / frame conversion / measures
# ---------------------------------------------------------------------------------------------

_STA = {}


def _grid_e2e(tier, rng):
    """latitude {-89, -45, 0, 30, 43.6, 89} deg x longitude {-170, 0, 1.44, 120, 200, 345.6, -190} deg (east longitudes may be given in 0..360) x altitude {-400, 0, 150, 9000} m x 6 (quick: 2) seeded targets given in ITRF (LEO to GEO,
    below and above the horizon) x 2 dates; every other station is created under a name used before for another site"""
    k = 0
    for lat in (-89.0, -45.0, 0.0, 30.0, 43.6, 89.0):
        for lon in (-170.0, 0.0, 1.44, 120.0, 200.0, 345.6, -190.0):
            for alt in (-400.0, 0.0, 150.0, 9000.0):
                if lat == 30.0 and lon == 120.0:
                    # (whole numbers of degrees and metres handed over as Python ints)
                    yield {"lat": 30, "lon": 120, "alt": int(alt), "target": 5, "date": 0, "ints": 1}
                for t in range(2 if tier == "quick" else 6):
                    k += 1
                    yield {"lat": lat, "lon": lon, "alt": alt, "target": (k * 7 + t) % 23, "date": k % 2}


@contract("C11", "native", funcs=[f"{ST}:create_station", f"{ST}:TopocentricFrame._geodetic_to_cartesian", f"{OR}:TopocentricOrientation._to_parent", "beyond.frames.center:Center.add_link",
                                  f"{ME}:Range.from_orbit", f"{ME}:Azimut.from_orbit", f"{ME}:Elevation.from_orbit", f"{ME}:Doppler.from_orbit"], grid=_grid_e2e, level="bounded")
def _(c):
    """bounded: for a station made by create_station, the range, elevation and azimuth (-theta) of a target equal an independent WGS-84 east-north-up computation (1e-6 m,
    1e-10 rad x range scale), and the range rate its projection of the Earth-fixed relative velocity; the station is on the ellipsoid normal at the given height, at rest in
    ITRF and moving with omega x r in PEF->TOD; the simulated measures are those quantities, the range counted once per leg"""
    from beyond.frames.stations import create_station
    from beyond.orbits import StateVector
    from beyond.dates import Date
    from beyond.utils.measures import Range, Azimut, Elevation, Doppler
    lat, lon, alt = c.real("lat"), c.real("lon"), c.real("alt")
    ints = bool(c.integer("ints"))
    key = (lat, lon, alt, ints)
    if key not in _STA:
        name = f"E2E_{len(_STA)}_{abs(hash(key)) % 10 ** 6}"
        if int(abs(lat) * 10 + abs(lon) + abs(alt)) % 2:
            # the name has been used before, for another site (re-creating a station under a used name is supported: only a warning is logged)
            create_station(name, (-lat / 2 + 7.0, lon + 75.0, 10.0))
        _STA[key] = create_station(name, (int(lat), int(lon), int(alt)) if ints else (lat, lon, alt))
    sta = _STA[key]
    date = [Date(2018, 5, 4, 1, 2, 3), Date(2009, 12, 31, 23, 59, 50)][c.integer("date")]
    # independent WGS-84 (a, 1/f typed here)
    a_, f_ = 6378137.0, 1 / 298.257223563
    e2 = f_ * (2 - f_)
    ph, la = math.radians(lat), math.radians(lon)
    N = a_ / math.sqrt(1 - e2 * math.sin(ph) ** 2)
    rs = np.array([(N + alt) * math.cos(ph) * math.cos(la), (N + alt) * math.cos(ph) * math.sin(la), (N * (1 - e2) + alt) * math.sin(ph)])
    east = np.array([-math.sin(la), math.cos(la), 0.0])
    north = np.array([-math.sin(ph) * math.cos(la), -math.sin(ph) * math.sin(la), math.cos(ph)])
    up = np.array([math.cos(ph) * math.cos(la), math.cos(ph) * math.sin(la), math.sin(ph)])
    rng = np.random.default_rng(100 + c.integer("target"))
    d = rng.normal(size=3)
    d /= np.linalg.norm(d)
    dist = [5.0e5, 2.0e6, 8.0e6, 4.2e7][c.integer("target") % 4]
    rt = rs + dist * d if c.integer("target") % 3 else rs * (1 + dist / np.linalg.norm(rs))  # some straight overhead
    vt = rng.normal(size=3) * 3.0e3
    sv = StateVector(list(rt) + list(vt), date, "cartesian", "ITRF")
    sph = sv.copy(frame=sta, form="spherical")
    rho = rt - rs
    want_r = float(np.linalg.norm(rho))
    want_el = math.asin(max(-1.0, min(1.0, float(rho @ up) / want_r)))
    want_az = math.atan2(float(rho @ east), float(rho @ north)) % (2 * math.pi)
    # the station's own body constants (the library's WGS84 radius may differ from the one typed here by the documented 0.7 m)
    from beyond.constants import Earth
    tol_r = 1e-6 + abs(Earth.equatorial_radius - a_) * 1.01 + 1e-9 * want_r
    c.ensure("range", abs(float(sph.r) - want_r) <= tol_r)
    ang_tol = 1e-10 + 2 * tol_r / want_r
    c.ensure("elevation", abs(float(sph.phi) - want_el) <= ang_tol)
    horiz = math.cos(want_el)
    if horiz > 1e-6:
        dz = ((-float(sph.theta)) % (2 * math.pi) - want_az + math.pi) % (2 * math.pi) - math.pi
        c.ensure("azimuth_is_minus_theta", abs(dz) <= ang_tol / horiz)
    c.ensure("range_rate", abs(float(sph.r_dot) - float(rho @ vt) / want_r) <= 1e-6 + 2 * float(np.linalg.norm(vt)) * tol_r / want_r)
    # the station itself
    origin = StateVector([0.0] * 6, date, "cartesian", sta)
    fixed = np.asarray(origin.copy(frame="ITRF"), dtype=float)
    c.ensure("on_the_ellipsoid_normal_at_height", bool(np.linalg.norm(fixed[:3] - rs) <= abs(Earth.equatorial_radius - a_) * 1.01 + 1e-6))
    c.ensure("at_rest_in_the_earth_fixed_frame", bool(np.linalg.norm(fixed[3:]) <= 1e-9))
    pef = np.asarray(origin.copy(frame="PEF"), dtype=float)
    tod = np.asarray(origin.copy(frame="TOD"), dtype=float)
    omega = 7.292115146706979e-5
    # in the true-of-date frame the station moves with omega x r (LOD of that day: < 3 ms/day, i.e. < 3.5e-8 relative)
    spin = np.cross([0, 0, omega], tod[:3])
    c.ensure("moves_with_the_earth_rotation", bool(np.linalg.norm(tod[3:] - spin) <= 1e-7 * np.linalg.norm(spin) + 1e-9) and abs(np.linalg.norm(tod[:3]) - np.linalg.norm(pef[:3])) <= 1e-6)
    # measures
    orb = sv
    legs1, legs2 = (sta, "SAT"), (sta, "SAT", sta)
    c.ensure("measure.range_per_leg", abs(Range(legs1, None, None).from_orbit(orb).value - float(sph.r)) <= 1e-6 and abs(Range(legs2, None, None).from_orbit(orb).value - 2 * float(sph.r)) <= 1e-6
             and abs(Range((sta, "SAT", "OTHER"), None, None).from_orbit(orb).value - 2 * float(sph.r)) <= 1e-6
             and abs(Range((sta, "SAT", "RELAY", "OTHER"), None, None).from_orbit(orb).value - 3 * float(sph.r)) <= 1e-6)
    c.ensure("measure.angles", Azimut(legs1, None, None).from_orbit(orb).value == float(sph.theta) and Elevation(legs1, None, None).from_orbit(orb).value == float(sph.phi))
    # (the range-rate is that topocentric quantity whatever the number of legs of the path: only the range is counted per leg)
    c.ensure("measure.range_rate", abs(Doppler(legs1, None, None).from_orbit(orb).value - float(sph.r_dot)) <= 1e-9
             and abs(Doppler(legs2, None, None).from_orbit(orb).value - float(sph.r_dot)) <= 1e-9
             and abs(Doppler((sta, "SAT", "OTHER"), None, None).from_orbit(orb).value - float(sph.r_dot)) <= 1e-9)
    # another target seen from the same station at the same date, straight afterwards: its measures are its own topocentric quantities
    rt2 = rs + (dist * 0.37 + 3.0e5) * np.array([d[1], -d[2], d[0]])
    sv2 = StateVector(list(rt2) + list(-0.5 * vt[::-1]), date, "cartesian", "ITRF")
    sph2 = sv2.copy(frame=sta, form="spherical")
    got2 = [cls(legs1, None, None).from_orbit(sv2).value for cls in (Range, Azimut, Elevation, Doppler)]
    c.ensure("measure.second_target", abs(got2[0] - float(sph2.r)) <= 1e-6 and got2[1] == float(sph2.theta) and got2[2] == float(sph2.phi) and abs(got2[3] - float(sph2.r_dot)) <= 1e-9)
    again = [cls(legs1, None, None).from_orbit(sv).value for cls in (Range, Azimut, Elevation, Doppler)]
    c.ensure("measure.first_target_again", abs(again[0] - float(sph.r)) <= 1e-6 and again[1] == float(sph.theta) and again[2] == float(sph.phi) and abs(again[3] - float(sph.r_dot)) <= 1e-9)
