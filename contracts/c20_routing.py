"""C20: conversion routing (beyond/utils/node.py) and registration sites."""
import itertools
import math
import types

import numpy as np
import z3

from pyvc.contract import contract, LoopSpec
from pyvc import sym

ND = "beyond.utils.node"
NODE = f"{ND}:Node"

# ---------------------------------------------------------------------------------------------
# symbolic graph: nodes are integers; the routing tables are uninterpreted functions constrained by RT
# ---------------------------------------------------------------------------------------------
HAS = z3.Function("has", z3.IntSort(), z3.IntSort(), z3.BoolSort())     # u.routes contains g
DIR = z3.Function("dir", z3.IntSort(), z3.IntSort(), z3.IntSort())      # u.routes[g].direction
STP = z3.Function("steps", z3.IntSort(), z3.IntSort(), z3.IntSort())    # u.routes[g].steps
ADJ = z3.Function("adj", z3.IntSort(), z3.IntSort(), z3.BoolSort())     # u -- v is a link


def RT():
    """routing-table invariant (established for every insertion order by the exhaustive enumeration C20.build.*)"""
    u, g = z3.Ints("u g")
    d = DIR(u, g)
    return z3.ForAll([u, g], z3.Implies(HAS(u, g), z3.And(
        u != g, ADJ(u, d), STP(u, g) >= 1,
        (STP(u, g) == 1) == (d == g),
        z3.Implies(STP(u, g) > 1, z3.And(HAS(d, g), STP(d, g) == STP(u, g) - 1)))))


class SymNode:
    def __init__(self, ident):
        self.id = ident  # SInt

    @property
    def name(self):
        return self.id

    @property
    def routes(self):
        return _Routes(self.id)

    def __pv_havoc__(self, name):
        return SymNode(sym.SInt(sym.cur().fresh(f"h_{name}", "int")))


class _Routes:
    def __init__(self, u):
        self.u = u

    def __contains__(self, g):
        return bool(sym.SBool(HAS(self.u.e, sym.lift(g)[0])))

    def __getitem__(self, g):
        run = sym.cur()
        ge = sym.lift(g)[0]
        run.safety("key", HAS(self.u.e, ge))  # KeyError otherwise
        return types.SimpleNamespace(direction=SymNode(sym.SInt(DIR(self.u.e, ge))), steps=sym.SInt(STP(self.u.e, ge)))


class SymList:
    """python list of nodes with symbolic length (ids stored in a z3 array)"""

    def __init__(self, arr, length):
        self.arr, self.length = arr, length

    @staticmethod
    def of(items):
        arr = z3.K(z3.IntSort(), z3.IntVal(-1))
        for i, it in enumerate(items):
            arr = z3.Store(arr, i, it.id.e)
        return SymList(arr, sym.SInt(z3.IntVal(len(items))))

    def append(self, node):
        self.arr = z3.Store(self.arr, self.length.e, node.id.e)
        self.length = self.length + 1

    def at(self, i):
        return sym.SInt(z3.Select(self.arr, sym.lift(i)[0]))

    def __pv_havoc__(self, name):
        run = sym.cur()
        return SymList(z3.Const(f"h_{name}!{next(run.counter)}", z3.ArraySort(z3.IntSort(), z3.IntSort())), sym.SInt(run.fresh(f"h_{name}_len", "int")))


def _path_spec(me, goal):
    def inv(env):
        obj, path = env["obj"], env["path"]
        if isinstance(path, list):
            path = SymList.of(path)
        j = z3.Int("j")
        chain = z3.ForAll([j], z3.Implies(z3.And(j >= 0, j < path.length.e - 1),
                                          z3.And(z3.Select(path.arr, j + 1) == DIR(z3.Select(path.arr, j), goal.e),
                                                 HAS(z3.Select(path.arr, j), goal.e))))
        return [("nonempty", path.length >= 1), ("starts_at_self", path.at(0) == me),
                ("ends_at_obj", path.at(path.length - 1) == obj.id),
                ("obj_routes_goal", sym.SBool(HAS(obj.id.e, goal.e))),
                ("length_steps", path.length - 1 + sym.SInt(STP(obj.id.e, goal.e)) == sym.SInt(STP(me.e, goal.e))),
                ("chain", sym.SBool(chain))]

    def havoc(env, names):
        return {"obj": env["obj"].__pv_havoc__("obj"), "path": SymList.of([]).__pv_havoc__("path")}
    return LoopSpec(inv, variant=lambda env: sym.SInt(STP(env["obj"].id.e, goal.e)), variant_lb=1, havoc=havoc, modifies=["path"])


@contract("C20", "path", funcs=[f"{NODE}.path"],
          assumptions=["routing-table invariant RT as precondition: established after every `+` by the exhaustive enumerations C20.build.* within the property's bounds (trees <= 8 nodes, graphs <= 6)"])
def _(c):
    """under RT, for any graph size: path(goal) terminates and returns a chain of linked nodes from self to the goal of
    length steps+1, each hop following the routing table; path to self is [self]; an unknown goal raises ValueError"""
    if not c.symbolic:
        return
    me, goal = c.integer("self"), c.integer("goal")
    c.run.add_fact("pre", "RT", RT())
    case = c.choice("case", ["known", "self", "unknown"])
    loops = {f"{NODE}.path#0": _path_spec(me, goal)}
    names = {ND: {"list": None}}
    w = c.world(loops=loops)
    # `path = [obj]` builds a python list: the loop's havoc replaces it by a symbolic-length list; give the
    # shadow namespace a list-literal hook through the first havoc (initial value converted below)
    node = SymNode(me)
    fn = w.fn(f"{NODE}.path")
    if case == "self":
        c.require(goal == me)
        res = fn(node, goal)
        c.ensure("self", bool(isinstance(res, list) and len(res) == 1 and res[0] is node))
        return
    c.require(goal != me)
    if case == "unknown":
        c.require(sym.SBool(z3.Not(HAS(me.e, goal.e))))
        c.ensure("unknown_raises", c.raises(ValueError, lambda: fn(node, goal)))
        return
    c.require(sym.SBool(HAS(me.e, goal.e)))
    res = fn(node, goal)
    L = res.length
    c.ensure("length", L == sym.SInt(STP(me.e, goal.e)) + 1)
    c.ensure("starts_at_self", res.at(0) == me)
    c.ensure("ends_at_goal", res.at(L - 1) == goal)
    j = z3.Int("jj")
    c.ensure("hops_are_links", sym.SBool(z3.ForAll([j], z3.Implies(z3.And(j >= 0, j < L.e - 1), ADJ(z3.Select(res.arr, j), z3.Select(res.arr, j + 1))))))


@contract("C20", "steps", funcs=[f"{NODE}.steps", f"{NODE}.list"], assumptions=["callee contract: path() (C20.path)"])
def _(c):
    """steps(goal) yields the consecutive pairs of path(goal), in order; list is every reachable node once, plus self"""
    if not c.symbolic:
        return
    n = c.choice("n", [1, 2, 3, 5])
    nodes = [types.SimpleNamespace(name=f"N{i}") for i in range(n)]
    w = c.world(stubs={f"{NODE}.path": lambda self, goal: list(nodes) if goal == "G" else [nodes[0], types.SimpleNamespace(name=goal)]})
    me = w.obj(NODE, name="N0", routes={"A": 1, "B": 2})
    pairs = list(me.steps("G"))
    c.ensure("pairs", bool(pairs == [(nodes[i], nodes[i + 1]) for i in range(n - 1)]))
    lst = me.list
    c.ensure("list", bool([x.name for x in lst[:-1]] == ["A", "B"] and lst[-1] is me))


# ---------------------------------------------------------------------------------------------
# exhaustive enumeration within the property's own bounds: RT with steps = graph distance after every `+`
# ---------------------------------------------------------------------------------------------

def _canon(adj, root, parent=None):
    return "(" + "".join(sorted(_canon(adj, ch, root) for ch in adj[root] if ch != parent)) + ")"


def _tree_canon(n, edges):
    adj = {i: [] for i in range(n)}
    for a, b in edges:
        adj[a].append(b)
        adj[b].append(a)
    return min(_canon(adj, r) for r in range(n))


_TREES = {}


def unlabelled_trees(n):
    """one labelled representative per isomorphism class of trees on n nodes (via Pruefer sequences); kept per process (8 nodes: 262144 sequences to canonicalise --
    recomputing it for every case is what made the thorough tier take hours)"""
    if n not in _TREES:
        _TREES[n] = _unlabelled_trees(n)
    return _TREES[n]


def _unlabelled_trees(n):
    if n == 1:
        return [[]]
    if n == 2:
        return [[(0, 1)]]
    seen, out = set(), []
    for seq in itertools.product(range(n), repeat=n - 2):
        deg = [1] * n
        for s in seq:
            deg[s] += 1
        edges = []
        seq_l = list(seq)
        for s in seq_l:
            leaf = min(i for i in range(n) if deg[i] == 1)
            edges.append((leaf, s))
            deg[leaf] -= 1
            deg[s] -= 1
        u, v = [i for i in range(n) if deg[i] == 1]
        edges.append((u, v))
        key = _tree_canon(n, edges)
        if key not in seen:
            seen.add(key)
            out.append(edges)
    return out


def _distances(n, edges):
    INF = 10 ** 6
    d = [[0 if i == j else INF for j in range(n)] for i in range(n)]
    for a, b in edges:
        d[a][b] = d[b][a] = 1
    for k in range(n):
        for i in range(n):
            for j in range(n):
                if d[i][k] + d[k][j] < d[i][j]:
                    d[i][j] = d[i][k] + d[k][j]
    return d, INF


def check_routing(nodes, edges, want_shortest=True):
    """RT + distances on the real Node objects; returns None or a description of the first violation"""
    n = len(nodes)
    d, INF = _distances(n, edges)
    eset = {frozenset(e) for e in edges}
    for i in range(n):
        for j in range(n):
            if i == j:
                continue
            u, g = nodes[i], nodes[j]
            if d[i][j] >= INF:
                try:
                    u.path(g.name)
                    return f"unconnected {i}->{j} not reported"
                except ValueError:
                    continue
            try:
                p = u.path(g.name)
            except Exception as e:  # noqa
                return f"connected {i}->{j} raised {e!r}"
            idx = [nodes.index(x) for x in p]
            if idx[0] != i or idx[-1] != j:
                return f"path {i}->{j} has wrong ends {idx}"
            if any(frozenset((a, b)) not in eset for a, b in zip(idx, idx[1:])):
                return f"path {i}->{j} uses a non-link {idx}"
            if want_shortest and len(idx) - 1 != d[i][j]:
                return f"path {i}->{j} not shortest: {idx} vs distance {d[i][j]}"
    return None


def _build_and_check(n, edges_in_order, check_every_step=True, want_shortest=True):
    from beyond.utils.node import Node
    nodes = [Node(f"n{i}") for i in range(n)]
    done = []
    for a, b in edges_in_order:
        nodes[a] + nodes[b]
        done.append((a, b))
        if check_every_step:
            err = check_routing(nodes, done, want_shortest)
            if err:
                return f"after {done}: {err}"
    if not check_every_step:
        return check_routing(nodes, done, want_shortest)
    return None


def _grid_trees(tier, rng):
    """every tree on 2..6 nodes (quick) / 2..8 nodes (thorough) up to isomorphism; each case = one tree x one orientation
    pattern; inside a case EVERY order of link insertions is built (up to 6 nodes; 120 orders per case at 7 nodes, 24 at 8) and the routing tables checked after every insertion"""
    nmax = 6 if tier == "quick" else 8
    for n in range(2, nmax + 1):
        for ti, edges in enumerate(unlabelled_trees(n)):
            for orient in range(2 ** (n - 1)):
                yield {"n": n, "tree": ti, "orient": orient}


@contract("C20", "build.trees", funcs=[f"{NODE}.__add__", f"{NODE}._update", f"{NODE}.path"], grid=_grid_trees, level="finite")
def _(c):
    """exhaustive (finite): for every tree (<= 6 nodes, up to isomorphism; thorough adds 7 nodes with 120 and 8 nodes with 24 orders per tree and orientation), every order and every orientation of link
    insertions: after every `+`, every connected pair is routed along the unique chain of existing links and every unconnected pair
    raises ValueError"""
    n, ti, orient = c.integer("n"), c.integer("tree"), c.integer("orient")
    edges = unlabelled_trees(n)[ti]
    oriented = [(a, b) if not (orient >> k) & 1 else (b, a) for k, (a, b) in enumerate(edges)]
    bad = None
    count = 0
    if n <= 6:
        perms = itertools.permutations(oriented)
        expected = math.factorial(n - 1)
    else:
        # 7 and 8 nodes: every order (720 / 5040 per tree and orientation) is 15 million builds; the orders are sampled there
        # (the first, the last and 118 / 22 seeded ones per tree and orientation) -- graphs of any size are covered by the proof contracts C20.init / .update / .add /
        # .fixpoint (DESIGN 9.7)
        import random
        r_ = random.Random(1000 * ti + orient)
        perms = [tuple(oriented), tuple(reversed(oriented))] + [tuple(r_.sample(oriented, len(oriented))) for _ in range(118 if n == 7 else 22)]
        expected = len(perms)
    for perm in perms:
        count += 1
        bad = _build_and_check(n, perm, check_every_step=(n <= 6))
        if bad:
            break
    c.ensure("routing_correct_for_every_insertion_order", bad is None)
    c.ensure("orders_enumerated", count == expected or bad is not None)


def _grid_graphs(tier, rng):
    """every connected labelled graph on 3..5 nodes (exhaustive insertion orders up to 4 nodes, 24 seeded orders at 5), and
    300 (quick) / 3000 (thorough) seeded connected graphs on 6 nodes with 6 seeded insertion orders each"""
    for n in (3, 4, 5):
        pairs = list(itertools.combinations(range(n), 2))
        for mask in range(1, 2 ** len(pairs)):
            edges = [p for k, p in enumerate(pairs) if (mask >> k) & 1]
            if len(edges) < n - 1:
                continue
            d, INF = _distances(n, edges)
            if any(d[0][j] >= INF for j in range(n)):
                continue
            yield {"n": n, "mask": mask, "seed": 0}
    pairs6 = list(itertools.combinations(range(6), 2))
    k = 0
    want = 300 if tier == "quick" else 3000
    while k < want:
        mask = rng.getrandbits(15)
        edges = [p for i, p in enumerate(pairs6) if (mask >> i) & 1]
        if len(edges) < 5:
            continue
        d, INF = _distances(6, edges)
        if any(d[0][j] >= INF for j in range(6)):
            continue
        k += 1
        yield {"n": 6, "mask": mask, "seed": k}


@contract("C20", "build.graphs", funcs=[f"{NODE}.__add__", f"{NODE}._update", f"{NODE}.path"], grid=_grid_graphs, level="bounded")
def _(c):
    """bounded: connected graphs with cycles (<= 6 nodes): after all links are inserted every pair is routed along a valid chain
    of existing links (validity), and that chain is a shortest one (shortest-path clause)"""
    import random
    n, mask = c.integer("n"), c.integer("mask")
    pairs = list(itertools.combinations(range(n), 2))
    edges = [p for k, p in enumerate(pairs) if (mask >> k) & 1]
    rng = random.Random(c.integer("seed") * 7919 + mask)
    if n <= 4:
        orders = list(itertools.permutations(edges))
    else:
        orders = []
        for _ in range(24 if n == 5 else 6):
            e = edges[:]
            rng.shuffle(e)
            orders.append([(a, b) if rng.random() < 0.5 else (b, a) for a, b in e])
    bad_valid = bad_short = None
    for o in orders:
        err = _build_and_check(n, o, check_every_step=False, want_shortest=False)
        if err and not bad_valid:
            bad_valid = err
        err2 = _build_and_check(n, o, check_every_step=False, want_shortest=True)
        if err2 and not bad_short:
            bad_short = err2
        # every pair asked after EVERY insertion: an answer given before a later link closed a cycle must not be served again afterwards
        if not bad_short and (n <= 4 or o is orders[0]):
            err3 = _build_and_check(n, o, check_every_step=True, want_shortest=True)
            if err3:
                bad_short = "asked after every insertion: " + err3
    c.ensure("valid_chain", bad_valid is None)
    c.ensure("shortest_chain", bad_short is None)


def _grid_register(tier, rng):
    """all sequences of length <= 3 over {create station S_k, create orbit-attached frame O_k (QSW), create orbit frame (inertial axes), orbit frame of an orbit given in the
    frame created just before, station on a user-defined body-fixed frame five links away from ITRF}, each interleaved with the full matrix of conversions among the 10
    built-in frames and that user frame at 2 dates"""
    kinds = ["station", "orbit_qsw", "orbit_inertial", "orbit_given_in_the_previous_new_frame", "station_on_a_user_body_fixed_frame", "orbit_qsw_with_a_moon_centred_parent"]
    for L in (1, 2, 3):
        for seq in itertools.product(range(6), repeat=L):
            if L == 3 and len(set(seq)) == 1:
                continue
            yield {"len": L, **{f"k{i}": seq[i] for i in range(L)}}


_USER = []
_MOONF = []


def _user_frame():
    """a user-defined body-fixed frame: its own orientation (slow spin about z, linked to EME2000) on its own centre (offset from the Earth's)"""
    if not _USER:
        from beyond.frames import frames, orient, center
        from beyond.utils.matrix import rot3
        spin = 2.6617e-6

        def C20User_to_EME2000(self, date):
            return rot3(-spin * (date.mjd - 55000.0) * 86400.0), np.array([0.0, 0.0, spin])
        orient.Orientation.C20User_to_EME2000 = C20User_to_EME2000
        o = orient.Orientation("C20User")
        o + orient.EME2000
        ce = center.Center("C20UserC", body=center.Earth.body)
        ce.add_link(center.Earth, orient.EME2000, np.array([3.844e8, 1.0e7, -2.0e7, 0.0, 0.0, 0.0]))
        _USER.append(frames.Frame("C20User", o, ce))
    return _USER[0]


@contract("C20", "register", funcs=["beyond.frames.stations:create_station", "beyond.frames.frames:orbit2frame", "beyond.frames.center:Center.add_link",
                                     "beyond.frames.orient:TopocentricOrientation.__init__", "beyond.frames.orient:LocalOrbitalOrientation.__init__"],
          grid=_grid_register, level="bounded")
def _(c):
    """bounded: registering stations / orbit-attached frames under new names never changes conversions between frames that already
    existed (bit-identical results), the new frame converts to and from every built-in frame, and its provider attribute is named
    <new>_to_<parent>"""
    from beyond.frames.frames import get_frame, orbit2frame
    from beyond.frames.stations import create_station
    from beyond.frames import orient
    from beyond.orbits import StateVector
    from beyond.dates import Date
    names = ["EME2000", "MOD", "TOD", "TEME", "PEF", "ITRF", "TIRF", "CIRF", "GCRF", "G50", _user_frame().name]
    dates = [Date(2010, 3, 4, 5, 6, 7), Date(2016, 11, 30, 23, 59, 0)]
    x = [7e6 * 0.6, 7e6 * 0.5, 7e6 * 0.62, -4.5e3, 5.5e3, 1.2e3]

    def matrix():
        out = {}
        for d in dates:
            for a in names:
                sv = StateVector(x, d, "cartesian", a)
                for b in names:
                    out[(str(d), a, b)] = np.asarray(sv.copy(frame=b), dtype=float).tobytes()
        return out
    base = matrix()
    L = c.integer("len")
    tag = "".join(str(c.integer(f"k{i}")) for i in range(L))
    ok_same, ok_new, ok_name, ok_origin = True, True, True, True
    fr = None
    for i in range(L):
        kind = c.integer(f"k{i}")
        nm = f"REG{tag}_{i}"
        if kind == 0:
            fr = create_station(nm, (10.0 + 7 * i, -20.0 + 11 * i, 50.0))
            ok_name = ok_name and hasattr(orient.Orientation, f"{nm}_to_ITRF")
        elif kind == 4:
            fr = create_station(nm, (0.67 + i, 23.47, 0.0), parent_frame=_user_frame())
            ok_name = ok_name and hasattr(orient.Orientation, f"{nm}_to_{_user_frame().orientation.name}")
        elif kind == 5:
            # a local orbital frame whose parent is a body-centred frame: the parent frame's name (Moon) is not its orientation's (EME2000)
            from beyond.env import solarsystem
            if not _MOONF:
                _MOONF.append(solarsystem.get_frame("Moon"))
            ref = StateVector([1.9e6, 2.0e5, 3.0e5, -100.0, 1.5e3, 400.0], dates[0], "cartesian", _MOONF[0])
            fr = orbit2frame(nm, ref, orientation="QSW", parent=_MOONF[0])
            ok_name = ok_name and hasattr(orient.Orientation, f"{nm}_to_EME2000")
        else:
            xi = [v * (1 + 0.01 * i) for v in x]
            ref = StateVector(xi, dates[0], "cartesian", "EME2000")
            if kind == 3 and fr is not None:
                # the reference orbit is given in the frame created just before (a station, or another orbit's frame): the chain of centres gets deeper
                ref = ref.copy(frame=fr)
            fr = orbit2frame(nm, ref, orientation="QSW" if kind == 1 else None)
            if kind == 1:
                ok_name = ok_name and hasattr(orient.Orientation, f"{nm}_to_EME2000")
            # the origin of an orbit-attached frame is where its orbit is
            origin = StateVector([0.0] * 6, dates[0], "cartesian", fr).copy(frame="EME2000")
            ok_origin = ok_origin and bool(np.allclose(np.asarray(origin, dtype=float)[:3], xi[:3], rtol=0, atol=1e-3))
        ok_same = ok_same and matrix() == base
        for b in names:
            sv = StateVector(x, dates[0], "cartesian", b)
            there = sv.copy(frame=fr)
            back = there.copy(frame=b)
            ok_new = ok_new and bool(np.allclose(np.asarray(back, dtype=float), x, rtol=1e-9, atol=1e-6))
    c.ensure("existing_conversions_unchanged", ok_same)
    c.ensure("new_frame_round_trips", ok_new)
    c.ensure("provider_named", ok_name)
    c.ensure("origin_of_orbit_frame_is_its_orbit", ok_origin)


def _grid_station_opts(tier, rng):
    """station options {equatorial axes, parent frame PEF, parent frame TIRF, equatorial axes on parent PEF, heading 'S' on parent PEF} x 2 dates"""
    for opt in range(5):
        yield {"opt": opt}


def _station_options(c):
    """bounded: a station created with the rarer options -- axes of EME2000 at the station's position (equatorial=True), a parent frame other than ITRF -- leaves every
    conversion among the built-in frames bit-identical, converts to and from every built-in frame without loss, and its conversion to ITRF equals the one made through
    its declared parent (real IERS tables: PEF and ITRF differ by the polar motion)"""
    from beyond.frames import frames as fr_
    from beyond.frames.stations import create_station
    from beyond.orbits import StateVector
    from beyond.dates import Date
    from contracts.eopcfg import use_eop
    use_eop(real=True)
    names = ["EME2000", "MOD", "TOD", "TEME", "PEF", "ITRF", "TIRF", "CIRF", "GCRF", "G50"]
    dates = [Date(2010, 3, 4, 5, 6, 7), Date(2016, 11, 30, 23, 59, 0)]
    x = [7e6 * 0.6, 7e6 * 0.5, 7e6 * 0.62, -4.5e3, 5.5e3, 1.2e3]

    def matrix():
        out = {}
        for d in dates:
            for a in names:
                sv = StateVector(x, d, "cartesian", a)
                for b in names:
                    out[(str(d), a, b)] = np.asarray(sv.copy(frame=b), dtype=float).tobytes()
        return out
    base = matrix()
    opt = c.integer("opt")
    nm = f"C20OPT{opt}"
    kw = [dict(equatorial=True), dict(parent_frame=fr_.PEF), dict(parent_frame=fr_.TIRF), dict(equatorial=True, parent_frame=fr_.PEF), dict(parent_frame=fr_.PEF, mask=None)][opt]
    parent = kw.get("parent_frame", fr_.ITRF).name
    sta = create_station(nm, (43.6, 1.44, 150.0), **kw)
    c.ensure("existing_conversions_unchanged", matrix() == base)
    ok_rt, ok_path, why = True, True, ""
    for d in dates:
        for b in names:
            try:
                sv = StateVector(x, d, "cartesian", b)
                there = sv.copy(frame=sta)
                back = np.asarray(there.copy(frame=b), dtype=float)
                ok_rt = ok_rt and bool(np.allclose(back, x, rtol=1e-9, atol=1e-6))
                via = np.asarray(sv.copy(frame=parent).copy(frame=sta), dtype=float)
                ok_path = ok_path and bool(np.linalg.norm(via[:3] - np.asarray(there, dtype=float)[:3]) <= 1e-6)
                # and out of the station frame: directly, and through the declared parent
                p2 = StateVector(list(np.asarray(there, dtype=float)), d, "cartesian", sta)
                out1 = np.asarray(p2.copy(frame=b), dtype=float)
                out2 = np.asarray(p2.copy(frame=parent).copy(frame=b), dtype=float)
                ok_path = ok_path and bool(np.linalg.norm(out1[:3] - out2[:3]) <= 1e-6)
            except Exception as e:
                ok_rt, why = False, why + f" {b}: {type(e).__name__} {e};"
    if why:
        print("station_options:", why[:300])
    c.ensure("new_frame_round_trips", ok_rt)
    c.ensure("direct_equals_through_the_declared_parent", ok_path)


contract("C20", "register.station_options", funcs=["beyond.frames.stations:create_station", "beyond.frames.orient:TopocentricOrientation.__init__"], grid=_grid_station_opts, level="bounded")(_station_options)
contract("C02", "station_options", funcs=["beyond.frames.stations:create_station", "beyond.frames.orient:TopocentricOrientation.__init__"], grid=_grid_station_opts, level="bounded")(_station_options)


def _grid_lagr(tier, rng):
    """the 6 orders in which {synodic frame about L1, synodic frame about L2, a station and a QSW orbit frame} are registered (under new names each time)"""
    for order in range(6):
        yield {"order": order}


@contract("C20", "register.same_named_nodes", funcs=[f"{NODE}.path", "beyond.frames.orient:Orientation.convert_to", "beyond.frames.lagrange:lagrange", "beyond.frames.frames:Frame.transform"],
          grid=_grid_lagr, level="bounded")
def _(c):
    """bounded: two frames registered under different names whose orientation nodes bear the same name (the synodic frames about L1 and L2 of one pair of bodies: both
    orientations are called SunEarthLagrange by the library) -- whatever the order of registration, a state in a station frame, in an orbit-attached frame or in EME2000
    converts into EACH of them and back, and the direct conversion equals the one made through EME2000"""
    import itertools
    from beyond.env import solarsystem as sol
    from beyond.frames.lagrange import lagrange
    from beyond.frames.frames import orbit2frame
    from beyond.frames.stations import create_station
    from beyond.orbits import StateVector
    from beyond.dates import Date
    order = list(itertools.permutations(["L1", "L2", "src"]))[c.integer("order")]
    tag = f"C20LG{c.integer('order')}"
    date = Date(2019, 2, 3, 4, 5, 6)
    made = {}
    for what in order:
        if what == "src":
            made["station"] = create_station(f"{tag}STA", (12.0, 34.0, 56.0))
            made["orbit"] = orbit2frame(f"{tag}ORB", StateVector([7.0e6, 1.0e5, 2.0e5, -50.0, 7.4e3, 900.0], date, "cartesian", "EME2000"), orientation="QSW")
        else:
            made[what] = lagrange(sol.get_frame("Sun"), sol.get_frame("Earth"), int(what[1]), name=f"{tag}{what}")
    c.ensure("orientations_share_a_name", made["L1"].orientation.name == made["L2"].orientation.name and made["L1"].orientation is not made["L2"].orientation)
    x = [1.0e6, -2.0e6, 3.0e5, 1.0, -2.0, 0.5]
    ok, why = True, ""
    for src in ("station", "orbit", "EME2000"):
        for dst in ("L1", "L2"):
            try:
                sv = StateVector(x, date, "cartesian", made.get(src, src))
                direct = np.asarray(sv.copy(frame=made[dst]), dtype=float)
                via = np.asarray(sv.copy(frame="EME2000").copy(frame=made[dst]), dtype=float)
                back = np.asarray(sv.copy(frame=made[dst]).copy(frame=made.get(src, src)), dtype=float)
            except Exception as e:
                ok, why = False, why + f" {src}->{dst}: {type(e).__name__} {e};"
                continue
            scale = np.linalg.norm(direct[:3])
            if not (np.linalg.norm(direct[:3] - via[:3]) <= 1e-9 * scale and np.linalg.norm(back[:3] - np.asarray(x)[:3]) <= 1e-9 * scale):
                ok, why = False, why + f" {src}->{dst}: differs;"
    if not ok:
        print("C20.register.same_named_nodes:", why[:300])
    c.ensure("every_pair_converts_and_agrees", ok)


def _grid_lagr2(tier, rng):
    """Lagrange point {1, 2, 4} of the Sun-Earth pair"""
    for kind in (1, 2, 4):
        yield {"kind": kind}


_LAGR2_SCRIPT = """
import json, sys
import numpy as np
from beyond.config import config
from beyond.env import solarsystem as sol, jpl
from beyond.frames.lagrange import lagrange
from beyond.orbits import StateVector
from beyond.dates import Date
kind = int(sys.argv[1])
A = lagrange(sol.get_frame("Sun"), sol.get_frame("Earth"), kind, name="C20LagA")
sv = StateVector([7e6, 1e5, 2e5, 0.0, 7500.0, 0.0], Date(2019, 2, 3), "cartesian", "EME2000")
before = np.asarray(sv.copy(frame=A), dtype=float)
config.update({"env": {"jpl": {"files": ["/repo/tests/data/jpl/de403_2000-2020.bsp", "/repo/tests/data/jpl/pck00010.tpc", "/repo/tests/data/jpl/gm_de431.tpc"]}}})
jpl.create_frames()
mid = np.asarray(sv.copy(frame=A), dtype=float)
lagrange(jpl.get_frame("Sun"), jpl.get_frame("Earth"), kind, name="C20LagB")
after = np.asarray(sv.copy(frame=A), dtype=float)
print("RESULT " + json.dumps({"mid": float(np.abs(mid - before).max()), "after": float(np.abs(after - before).max())}))
"""


@contract("C20", "register.second_frame_about_the_same_point", funcs=["beyond.frames.lagrange:lagrange", "beyond.frames.center:Center.add_link", "beyond.frames.center:Center.convert_to"],
          grid=_grid_lagr2, level="bounded")
def _(c):
    """bounded: a frame about a Lagrange point of the Sun-Earth pair exists (built on the analytical Sun); the planetary kernel's frames are created and a SECOND frame about
    the same point is registered under a new name, built on the kernel's Sun and Earth: conversions between EME2000 and the first frame give bit-identical results before
    and after.  (Run in an interpreter of its own: creating the kernel's frames re-registers Sun, Earth and Moon for the rest of the process.)"""
    import json
    import os
    import subprocess
    import sys
    env = dict(os.environ)
    env["PYTHONPATH"] = os.environ.get("BEYOND_REPO", "/repo") + os.pathsep + env.get("PYTHONPATH", "")
    out = subprocess.run([sys.executable, "-W", "ignore", "-c", _LAGR2_SCRIPT, str(c.integer("kind"))], capture_output=True, text=True, env=env, timeout=300)
    line = [x for x in out.stdout.splitlines() if x.startswith("RESULT ")]
    if not line:
        raise RuntimeError("scenario did not run: " + out.stderr[-400:])
    res = json.loads(line[0][7:])
    c.ensure("unchanged_by_the_kernel_frames", res["mid"] == 0.0)
    c.ensure("unchanged_by_the_second_frame", res["after"] == 0.0)


FR = "beyond.frames.frames"


@contract("C20", "orbit2frame", funcs=[f"{FR}:orbit2frame"], level="proof",
          assumptions=["Center, Frame and LocalOrbitalOrientation constructors abstracted as recorders (their own contracts: C20.register bounded, C02.center, C17)"])
def _(c):
    """proved: orbit2frame(name, ref, orientation, parent) creates one centre `name` (body of the parent's centre) linked exactly once, to the centre of the frame
    the reference orbit is expressed in, with that frame's orientation and the orbit itself as offset -- so the stored offset is always expressed relative to the node
    it is linked to; the frame's orientation is the orbit frame's when none is asked, a LocalOrbitalOrientation(name, ref, QSW|TNW, parent) otherwise (any case), and
    any other orientation is refused before anything is created"""
    if not c.symbolic:
        return  # recorders replace the constructors: nothing to replay on real objects here (C20.register does, bounded)
    calls = []

    class Rec:
        def __init__(self, kind, *a, **k):
            self.kind, self.a, self.k = kind, a, k
            calls.append(self)

        def add_link(self, *a):
            calls.append(("add_link", self, a))

    ref_center, ref_orient = object(), object()
    par_center = types.SimpleNamespace(body="BODY")
    ref = types.SimpleNamespace(frame=types.SimpleNamespace(center=ref_center, orientation=ref_orient))
    parent = types.SimpleNamespace(center=par_center, orientation=object())
    w = c.world(names={FR: {"center": types.SimpleNamespace(Center=lambda *a, **k: Rec("Center", *a, **k)),
                            "orient": types.SimpleNamespace(LocalOrbitalOrientation=lambda *a, **k: Rec("LOF", *a, **k)),
                            "Frame": lambda *a, **k: Rec("Frame", *a, **k)}})
    f = w.fn(f"{FR}:orbit2frame")
    o = c.choice("orientation", [None, "QSW", "TNW", "qsw", "Tnw", "XYZ"])
    if o == "XYZ":
        c.ensure("unknown_orientation.refused", c.raises(ValueError, lambda: f("N", ref, orientation=o, parent=parent)))
        c.ensure("unknown_orientation.nothing_created", calls == [])
        return
    res = f("N", ref, orientation=o, parent=parent)
    centers = [x for x in calls if isinstance(x, Rec) and x.kind == "Center"]
    links = [x for x in calls if isinstance(x, tuple)]
    frames_ = [x for x in calls if isinstance(x, Rec) and x.kind == "Frame"]
    lofs = [x for x in calls if isinstance(x, Rec) and x.kind == "LOF"]
    c.ensure("one_centre_named_after_the_frame", len(centers) == 1 and centers[0].a == ("N",) and centers[0].k == {"body": "BODY"})
    c.ensure("linked_once_to_the_centre_the_offset_is_relative_to", len(links) == 1 and links[0][1] is centers[0] and links[0][2][0] is ref_center)
    c.ensure("offset_orientation_is_the_orbit_frame_s", len(links) == 1 and links[0][2][1] is ref_orient and links[0][2][2] is ref)
    c.ensure("frame_returned", len(frames_) == 1 and res is frames_[0] and frames_[0].a[0] == "N" and frames_[0].a[2] is centers[0])
    if o is None:
        c.ensure("inertial_axes.orientation_of_the_orbit_frame", frames_[0].a[1] is ref_orient and lofs == [])
    else:
        c.ensure("local_axes.orientation", len(lofs) == 1 and frames_[0].a[1] is lofs[0] and lofs[0].a[0] == "N" and lofs[0].a[1] is ref
                 and str(lofs[0].a[2]).upper() == o.upper() and lofs[0].a[3] is parent)


STN = "beyond.frames.stations"


@contract("C11", "create_station", funcs=[f"{STN}:create_station"], level="proof",
          assumptions=["Center, TopocentricOrientation and TopocentricFrame constructors abstracted as recorders (C11.geodetic / C11.topo.axes cover them)",
                       "_geodetic_to_cartesian by its contract (C11.geodetic)"])
@contract("C20", "create_station", funcs=[f"{STN}:create_station"], level="proof",
          assumptions=["Center, TopocentricOrientation and TopocentricFrame constructors abstracted as recorders (C11.geodetic / C11.topo.axes / C20.register cover them)",
                       "_geodetic_to_cartesian by its contract (C11.geodetic)"])
def _(c):
    """proved: create_station(name, latlonalt, parent_frame) creates one centre `name` linked exactly once, to the parent frame's centre, with the parent frame's
    orientation and the geodetic coordinates as offset; one topocentric orientation whose declared parent is the parent frame's orientation, linked (+) to that orientation
    and to nothing else, its provider published as <name>_to_<parent orientation>; an equatorial station re-uses EME2000 and creates no orientation; the angles are handed
    over in radians"""
    if not c.symbolic:
        return
    calls = []

    class Rec:
        def __init__(self, kind, *a, **k):
            self.kind, self.a, self.k = kind, a, k
            calls.append(self)

        def add_link(self, *a):
            calls.append(("add_link", self, a))

        def __add__(self, other):
            calls.append(("link", self, other))
            return self

        def _to_parent(self, date):
            return None

    par_orient = types.SimpleNamespace(name="PARENT_ORIENT")
    par_center = types.SimpleNamespace(body="BODY")
    parent = types.SimpleNamespace(center=par_center, orientation=par_orient)
    published = {}
    eme = object()
    orient_ns = types.SimpleNamespace(TopocentricOrientation=lambda *a, **k: Rec("Topo", *a, **k), EME2000=eme,
                                      Orientation=type("OrientationStub", (), {"__setattr__": None}))

    class _Pub(type):
        def __setattr__(cls, k, v):
            published[k] = v
    orient_ns.Orientation = _Pub("Orientation", (), {})
    lat, lon, alt = c.real("lat"), c.real("lon"), c.real("alt")
    coords = object()
    geo = []
    w = c.world(names={STN: {"center": types.SimpleNamespace(Center=lambda *a, **k: Rec("Center", *a, **k)), "orient": orient_ns,
                             "TopocentricFrame": types.SimpleNamespace(_geodetic_to_cartesian=lambda *a: geo.append(a) or coords,
                                                                       __call__=None)}})
    made = []

    class TF:
        _geodetic_to_cartesian = staticmethod(lambda *a: geo.append(a) or coords)

        def __init__(self, *a, **k):
            self.a, self.k = a, k
            made.append(self)
    w.names[STN]["TopocentricFrame"] = TF
    equatorial = bool(c.boolean("equatorial"))
    res = w.fn(f"{STN}:create_station")("S", (lat, lon, alt), parent_frame=parent, equatorial=equatorial)
    centers = [x for x in calls if isinstance(x, Rec) and x.kind == "Center"]
    topos = [x for x in calls if isinstance(x, Rec) and x.kind == "Topo"]
    links = [x for x in calls if isinstance(x, tuple) and x[0] == "add_link"]
    olinks = [x for x in calls if isinstance(x, tuple) and x[0] == "link"]
    c.ensure("one_geodetic_conversion", len(geo) == 1)
    g_lat, g_lon, g_alt = geo[0]
    # latitude and altitude as given, in radians; the longitude may be brought back into another revolution, but must be the same direction
    c.ensure("angles_in_radians", sym.And(g_lat == sym.radians(lat), g_alt == alt, sym.cos(g_lon) == sym.cos(sym.radians(lon)), sym.sin(g_lon) == sym.sin(sym.radians(lon))))
    if not equatorial:
        t_lat, t_lon = list([x for x in calls if isinstance(x, Rec) and x.kind == "Topo"][0].a[1])[:2]
        c.ensure("orientation_from_the_same_angles", sym.And(t_lat == sym.radians(lat), sym.cos(t_lon) == sym.cos(sym.radians(lon)), sym.sin(t_lon) == sym.sin(sym.radians(lon))))
    c.ensure("one_centre", len(centers) == 1 and centers[0].a == ("S",) and centers[0].k == {"body": "BODY"})
    c.ensure("centre_linked_once_to_the_parent_centre", len(links) == 1 and links[0][1] is centers[0] and links[0][2][0] is par_center and links[0][2][1] is par_orient
             and links[0][2][2] is coords)
    c.ensure("frame_returned", len(made) == 1 and res is made[0] and made[0].a[0] == "S" and made[0].a[2] is centers[0])
    if equatorial:
        c.ensure("equatorial.no_orientation_created", topos == [] and olinks == [] and published == {} and made[0].a[1] is eme)
    else:
        c.ensure("topocentric.declared_parent_is_the_parent_orientation", len(topos) == 1 and topos[0].a[0] == "S" and topos[0].k.get("parent", topos[0].a[2] if len(topos[0].a) > 2 else None) is par_orient)
        c.ensure("topocentric.linked_to_the_parent_orientation_only", len(olinks) == 1 and olinks[0][1] is topos[0] and olinks[0][2] is par_orient)
        c.ensure("topocentric.provider_published", list(published) == ["S_to_PARENT_ORIENT"] and made[0].a[1] is topos[0])
