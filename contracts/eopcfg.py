"""Switching the Earth-orientation configuration inside one process.

beyond caches the instantiated EOP database (or the exception its instantiation raised) under its name the first time it is asked for, so changing
config['eop']['folder'] afterwards has no effect.  A bounded case that needs a given configuration therefore resets that cache -- through the library's
own registry (EopDb._dbs), not by reaching into the code under verification."""
import os


def use_eop(real=True, policy="pass"):
    from beyond.config import config
    from beyond.dates.eop import EopDb, SimpleEopDatabase
    root = os.environ.get("BEYOND_REPO", "/repo")
    if not os.path.isdir(os.path.join(root, "tests", "data", "pole")):
        root = "/repo"
    folder = os.path.join(root, "tests", "data", "pole") if real else "/nonexistent"
    cur = config.get("eop", fallback=None) if False else dict.get(config, "eop")
    want = {"folder": folder, "type": "all", "missing_policy": policy}
    if cur != want or not isinstance(EopDb._dbs.get(EopDb.DEFAULT_DBNAME), SimpleEopDatabase if real else Exception):
        config.update({"eop": dict(want)})
        EopDb._dbs[EopDb.DEFAULT_DBNAME] = SimpleEopDatabase   # back to "not instantiated yet"
