"""C09: interpolation (beyond/utils/interp.py, Ephem.interpolate)."""
import itertools
import math
import types

import numpy as np
import z3

from pyvc.contract import contract, LoopSpec
from pyvc import sym
from pyvc.adt import SeqView, SymDate, SymStateVector

IN = "beyond.utils.interp"
INT = f"{IN}:Interp"
EPH = "beyond.orbits.ephem"


def _search_spec(x):
    def inv(env):
        v, p = env["xs"], env["prev_idx"]
        n = env["ghost"]["n"]
        A = env["ghost"]["A"]
        return [
            ("view", sym.And(v.length >= 1, v.off >= 0, v.off + v.length <= n, p == v.off)),
            ("left", sym.Or(v.off == 0, A.at(v.off) < x)),
            ("right", sym.Or(v.off + v.length == n, A.at(v.off + v.length) >= x)),
        ]
    return LoopSpec(inv, variant=lambda env: env["xs"].length, variant_lb=1)


@contract("C09", "search", funcs=[f"{INT}._prev_idx"])
def _(c):
    """binary search, for every table length n >= 2 and every x in [xs[0], xs[n-1]]: terminates and returns idx with
    0 <= idx <= n-2 and xs[idx] <= x <= xs[idx+1] (xs[idx] < x unless idx = 0); all indexing in bounds"""
    if not c.symbolic:
        return
    n = c.integer("n", lo=2)
    x = c.real("x")
    A = SeqView.fresh("xs", n)
    c.require(sym.And(A.at(0) <= x, x <= A.at(n - 1)), "in_range")
    w = c.world(loops={f"{INT}._prev_idx#0": _search_spec(x)})
    w.rt.ghost.update(n=n, A=A)
    it = w.obj(INT, xs=A)
    idx = it._prev_idx(x)
    c.ensure("bracket", sym.And(idx >= 0, idx <= n - 2, A.at(idx) <= x, x <= A.at(idx + 1)))
    c.ensure("strict_left", sym.Or(idx == 0, A.at(idx) < x))


@contract("C09", "window", funcs=[f"{INT}._lagrange"],
          assumptions=["callee contract: _prev_idx returns 0 <= idx <= n-2 (C09.search)"])
def _(c):
    """for every order 2..12, every table length n >= order and every bracketing index: the selected window has exactly
    `order` nodes, lies inside the table, and contains the bracketing interval [idx, idx+1]"""
    if not c.symbolic:
        return
    order = c.choice("order", list(range(2, 13)))
    n = c.integer("n")
    c.require(n >= order)
    idx = c.integer("idx", lo=0)
    c.require(idx <= n - 2)
    x = c.real("x")
    X = SeqView.fresh("xs", n, sorted_strict=True)
    Y = SeqView.fresh("ys", n)
    w = c.world(stubs={f"{INT}._prev_idx": lambda self, xx: idx})
    it = w.obj(INT, xs=X, ys=Y, order=order)
    c.run.safety_assumed = {}
    res = it._lagrange(x)
    win = X.log[-1]
    c.ensure("inside", sym.And(win.off >= 0, win.off + order <= n))
    c.ensure("size", win.length == order)
    c.ensure("contains_bracket", sym.And(win.off <= idx, idx + 1 <= win.off + order - 1))
    c.ensure("same_window_for_ys", sym.And(Y.log[-1].off == win.off, Y.log[-1].length == win.length))


def _lagrange_spec(x, xs, ys):
    total = 0
    for j in range(len(xs)):
        lj = 1
        for m in range(len(xs)):
            if m != j:
                lj = lj * ((x - xs[m]) / (xs[j] - xs[m]))
        total = total + lj * ys[j]
    return total


def _basis_contract(order):
    @contract("C09", f"basis.k{order}", funcs=[f"{INT}._lagrange"],
              assumptions=["callee contract: _prev_idx (C09.search); window = whole table here (n = order), window selection is C09.window"])
    def _(c):
        """the numpy tile/diag/repeat/mask/prod pipeline evaluates sum_j y_j prod_{m != j} (x - x_m)/(x_j - x_m); at a node it
        returns that node's value exactly (orders 2..8 proved; 9..12 bounded)"""
        if not c.symbolic:
            return
        xs = [c.real(f"x{i}") for i in range(order)]
        ys = [c.real(f"y{i}") for i in range(order)]
        for i in range(order - 1):
            c.require(xs[i] < xs[i + 1], "sorted")
        x = c.real("x")
        w = c.world(stubs={f"{INT}._prev_idx": lambda self, xx: 0})
        it = w.obj(INT, xs=np.array(xs, dtype=object), ys=np.array(ys, dtype=object), order=order)
        res = it._lagrange(x)
        c.ensure("textbook_basis", res == _lagrange_spec(x, xs, ys), budget_ms=60000)
        for node in range(order):
            res_n = it._lagrange(xs[node])
            c.ensure(f"node_exact.{node}", res_n == ys[node], budget_ms=60000)
    return _


for _k in range(2, 9):
    _basis_contract(_k)


@contract("C09", "poly", funcs=[f"{INT}._lagrange"])
def _(c):
    """Lagrange interpolation of order k reproduces every polynomial of degree < k (k = 2, 3, 4 proved; higher orders
    follow from C09.basis by the Lagrange interpolation theorem -- trusted -- and are bounded-checked)"""
    if not c.symbolic:
        return
    order = c.choice("order", [2, 3, 4])
    xs = [c.real(f"x{i}") for i in range(order)]
    coef = [c.real(f"a{i}") for i in range(order)]
    for i in range(order - 1):
        c.require(xs[i] < xs[i + 1], "sorted")
    x = c.real("x")
    p = lambda t: sum((coef[k] * sym.power(t, k) if k else coef[0] for k in range(order)), 0)
    ys = [p(t) for t in xs]
    w = c.world(stubs={f"{INT}._prev_idx": lambda self, xx: 0})
    it = w.obj(INT, xs=np.array(xs, dtype=object), ys=np.array(ys, dtype=object), order=order)
    c.ensure("reproduces", it._lagrange(x) == p(x), budget_ms=120000)
    c.axiom("lagrange_theorem", True, "Lagrange interpolation theorem: sum_j p(x_j) l_j(x) = p(x) for deg p < k (used for k > 4)")


@contract("C09", "linear", funcs=[f"{INT}._linear"], assumptions=["callee contract: _prev_idx (C09.search)"])
def _(c):
    """linear interpolation returns the chord through the bracketing nodes, hence each node's value at the node,
    for every table length"""
    if not c.symbolic:
        return
    n = c.integer("n", lo=2)
    idx = c.integer("idx", lo=0)
    c.require(idx <= n - 2)
    x = c.real("x")
    X = SeqView.fresh("xs", n)
    Y = SeqView.fresh("ys", n)
    c.require(X.at(idx) < X.at(idx + 1), "sorted.instance")
    w = c.world(stubs={f"{INT}._prev_idx": lambda self, xx: idx})
    it = w.obj(INT, xs=X, ys=Y)
    res = it._linear(x)
    x0, x1, y0, y1 = X.at(idx), X.at(idx + 1), Y.at(idx), Y.at(idx + 1)
    c.ensure("chord", res * (x1 - x0) == y0 * (x1 - x0) + (y1 - y0) * (x - x0))
    c.ensure("node_left", sym.Implies(x == x0, res == y0))
    c.ensure("node_right", sym.Implies(x == x1, res == y1))


@contract("C09", "range", funcs=[f"{INT}.__call__", f"{IN}:DatedInterp.__call__", f"{IN}:DatedInterp.__init__", f"{INT}.__init__"],
          assumptions=["Date ADT: _mjd is the TAI instant in days (C03)"])
def _(c):
    """a query outside [first, last] raises ValueError (no extrapolation) -- for Interp and, in terms of the TAI
    instant, for DatedInterp; inside the range the selected method is called with the same abscissa"""
    if not c.symbolic:
        return
    n = c.choice("n", [2, 3])
    xs = [c.real(f"x{i}") for i in range(n)]
    for i in range(n - 1):
        c.require(xs[i] < xs[i + 1])
    x = c.real("x")
    method = c.choice("method", ["linear", "LAGRANGE"])
    calls = []
    w = c.world(stubs={f"{INT}._linear": lambda self, v: calls.append(("linear", v)) or "L",
                       f"{INT}._lagrange": lambda self, v: calls.append(("lagrange", v)) or "G"})
    dates = [SymDate(t * 86400) for t in xs]
    it = w.new(f"{IN}:DatedInterp", dates, np.array([0] * n, dtype=object), method, 2)
    inside = sym.And(xs[0] <= x, x <= xs[-1])
    q = SymDate(x * 86400)
    try:
        out = it(q)
        raised = False
    except ValueError:
        raised = True
    if raised:
        c.ensure("refused_only_outside", sym.Not(inside))
    else:
        c.ensure("accepted_only_inside", inside)
        c.ensure("dispatch", bool(len(calls) == 1 and calls[0][0] == method.lower() and out == ("L" if method == "linear" else "G")))
        c.ensure("abscissa", calls[0][1] == q._mjd)


# ---------------------------------------------------------------------------------------------
# bounded stand-ins
# ---------------------------------------------------------------------------------------------

def _grid_interp(tier, rng):
    """orders 2..12 x table lengths {order, order+1, order+3, 50} x uniform / +-20 % jittered / slowly breathing (steps 1 + 0.3 sin(2 pi i / n): mildly non-uniform,
    but the nodes drift several steps away from an even grid) abscissae x queries: every node,
    first and last interval mid-points, a middle point, just outside both ends; polynomial of degree order-1 with seeded coefficients"""
    for order in range(2, 13):
        for n in (order, order + 1, order + 3, 50):
            for jit in (0, 1, 2):
                yield {"order": order, "n": n, "jitter": jit, "seed": order * 100 + n + jit}


@contract("C09", "native", funcs=[f"{INT}.__call__", f"{INT}._lagrange", f"{INT}._linear", f"{INT}._prev_idx"], grid=_grid_interp, level="bounded")
def _(c):
    """bounded: on the real class, node exactness, reproduction of degree < order polynomials (1e-9 relative), linear =
    piecewise-linear reproduction, refusal outside the range"""
    import random
    from beyond.utils.interp import Interp
    order, n = c.integer("order"), c.integer("n")
    rng = random.Random(c.integer("seed"))
    xs = np.array([i + (rng.uniform(-0.2, 0.2) if c.integer("jitter") else 0.0) for i in range(n)], dtype=float)
    if c.integer("jitter") == 2:
        xs = np.concatenate([[0.0], np.cumsum([1 + 0.3 * math.sin(2 * math.pi * i / n) for i in range(n - 1)])])
    # coefficients in the Newton-like basis centred in the table to keep conditioning reasonable
    coef = [rng.uniform(-1, 1) for _ in range(order)]
    xc, sc = xs.mean(), max(1.0, (xs[-1] - xs[0]) / 2)
    p = lambda t: sum(coef[k] * ((t - xc) / sc) ** k for k in range(order))
    ys = np.array([p(t) for t in xs])
    f = Interp(xs, ys, "lagrange", order)
    c.ensure("node_exact", all(abs(f(t) - y) <= 1e-9 * max(1, abs(y)) for t, y in zip(xs, ys)))
    qs = [(xs[0] + xs[1]) / 2, (xs[-2] + xs[-1]) / 2, xs[n // 2] + 0.3 * (xs[min(n - 1, n // 2 + 1)] - xs[n // 2]) if n > 2 else xs[0]]
    c.ensure("poly_reproduced", all(abs(f(q) - p(q)) <= 1e-7 * max(1, abs(p(q))) for q in qs))
    g = Interp(xs, ys, "linear")
    c.ensure("linear_nodes", all(abs(g(t) - y) <= 1e-12 * max(1, abs(y)) for t, y in zip(xs, ys)))
    mid = (xs[0] + xs[1]) / 2
    c.ensure("linear_chord", abs(g(mid) - (ys[0] + ys[1]) / 2) <= 1e-12 * max(1, abs(ys[0])))
    # every interval, not only the first: the value at its middle is the middle of its chord
    c.ensure("linear_chord_every_interval", all(abs(g((xs[k] + xs[k + 1]) / 2) - (ys[k] + ys[k + 1]) / 2) <= 1e-11 * max(1, abs(ys[k]), abs(ys[k + 1])) for k in range(n - 1)))
    for fn in (f, g):
        for q in (xs[0] - 1e-9, xs[-1] + 1e-9):
            c.ensure("refused_outside", c.raises(ValueError, lambda: fn(q)))



def _grid_change(tier, rng):
    """(order before, order after) over {2, 3, 4, 5, 8} x {2, 3, 5, 8, 12}, before != after, table of 40 uniform or jittered abscissae; the same queries before and after"""
    for k1 in (2, 3, 4, 5, 8):
        for k2 in (2, 3, 5, 8, 12):
            if k1 != k2:
                yield {"k1": k1, "k2": k2, "jitter": (k1 + k2) % 2, "seed": 31 * k1 + k2}


@contract("C09", "settings_change", funcs=[f"{INT}.__call__", f"{INT}._lagrange", f"{EPH}:Ephem.order.fset", f"{EPH}:Ephem.method.fset"], grid=_grid_change, level="bounded")
def _(c):
    """bounded: an interpolator answers according to its CURRENT order and method: after queries at one order, changing the order (or the method, and back) on the
    same object gives exactly what a fresh interpolator of that order gives -- in particular it reproduces polynomials of degree < the new order; the same through
    Ephem.order / Ephem.method once the ephemeris has been interpolated"""
    import random
    from beyond.utils.interp import Interp
    k1, k2 = c.integer("k1"), c.integer("k2")
    rng = random.Random(c.integer("seed"))
    n = 40
    xs = np.array([i + (rng.uniform(-0.2, 0.2) if c.integer("jitter") else 0.0) for i in range(n)], dtype=float)
    coef = [rng.uniform(-1, 1) for _ in range(k2)]
    xc, sc = xs.mean(), (xs[-1] - xs[0]) / 2
    p = lambda t: sum(coef[k] * ((t - xc) / sc) ** k for k in range(k2))
    ys = np.array([p(t) for t in xs])
    qs = [xs[0] + 0.4, xs[3] + 0.5, xs[17] + 0.25, xs[18] + 0.75, xs[-2] + 0.6, xs[20]]
    f = Interp(xs, ys, "lagrange", k1)
    [f(q) for q in qs]
    f.order = k2
    fresh = Interp(xs, ys, "lagrange", k2)
    c.ensure("same_as_a_fresh_interpolator_of_the_new_order", all(f(q) == fresh(q) for q in qs))
    c.ensure("poly_of_the_new_order_reproduced", all(abs(f(q) - p(q)) <= 1e-6 * max(1, abs(p(q))) for q in qs))
    f.method = "linear"
    lin = Interp(xs, ys, "linear")
    c.ensure("linear_after_lagrange", all(f(q) == lin(q) for q in qs))
    f.method = "lagrange"
    c.ensure("lagrange_again", all(f(q) == fresh(q) for q in qs))
    # through the ephemeris
    from beyond.orbits import Orbit, Ephem
    from beyond.dates import Date, timedelta
    from beyond.propagators.kepler import Kepler
    from beyond.constants import Earth
    from contracts.c19_mission import _kep2cart
    r0, v0 = _kep2cart(6.9e6, 0.001, 0.9, 1.0, 2.0, 0.3, Earth.mu)
    d0 = Date(2018, 5, 4)
    orb = Orbit(list(r0) + list(v0), d0, "cartesian", "EME2000", Kepler())
    pts = list(orb.iter(stop=d0 + timedelta(seconds=60 * 39), step=timedelta(seconds=60)))
    eph, eph2 = Ephem(pts, method="lagrange", order=k1), Ephem(pts, method="lagrange", order=k2)
    dq = [d0 + timedelta(seconds=s) for s in (25.0, 215.0, 1051.0, 1099.5, 2300.0)]
    [eph.interpolate(d) for d in dq]
    eph.order = k2
    c.ensure("ephem.same_as_a_fresh_ephemeris_of_the_new_order",
             all(bool(np.array_equal(np.asarray(eph.interpolate(d), dtype=float), np.asarray(eph2.interpolate(d), dtype=float))) for d in dq))

def _grid_ephem(tier, rng):
    """Keplerian LEO (a=6.9e6, e=0.001) sampled at 60 s and 180 s, table lengths {8, 9, 30}, order 8: queries at nodes,
    middle of the first / last / a central interval"""
    for step in (60.0, 180.0):
        for n in (8, 9, 30):
            yield {"step": step, "n": n}


@contract("C09", "ephem", funcs=[f"{EPH}:Ephem.interpolate", f"{EPH}:Ephem.interp", f"{EPH}:Ephem.propagate"], grid=_grid_ephem, level="bounded")
def _(c):
    """bounded: interpolating an ephemeris at its own dates returns the stored point (1e-6 m); between nodes the position
    is within 5 cm of the two-body truth, near the ends as well as in the middle; frame and form are kept; dates outside refused"""
    from beyond.orbits import Orbit, Ephem
    from beyond.dates import Date, timedelta
    from beyond.propagators.kepler import Kepler
    from beyond.constants import Earth
    from contracts import twobody
    from contracts.c19_mission import _kep2cart
    step, n = c.real("step"), c.integer("n")
    r0, v0 = _kep2cart(6.9e6, 0.001, 0.9, 1.0, 2.0, 0.3, Earth.mu)
    d0 = Date(2018, 5, 4)
    orb = Orbit(list(r0) + list(v0), d0, "cartesian", "EME2000", Kepler())
    eph = orb.ephem(stop=d0 + timedelta(seconds=step * (n - 1)), step=timedelta(seconds=step))
    c.ensure("length", len(eph) == n)
    ok_nodes = all(np.linalg.norm(np.asarray(eph.interpolate(o.date)[:3], dtype=float) - np.asarray(o[:3], dtype=float)) <= 1e-6 for o in eph)
    c.ensure("node_exact", ok_nodes)
    worst = 0.0
    for k in (0, n // 2 - 1, n - 2):
        t = step * (k + 0.5)
        got = eph.interpolate(d0 + timedelta(seconds=t))
        rr, vv = twobody.propagate(r0, v0, t, Earth.mu)
        worst = max(worst, float(np.linalg.norm(np.asarray(got[:3], dtype=float) - rr)))
        c.ensure("frame_form_kept", bool(got.frame == eph.frame and got.form == eph.form and got.date == d0 + timedelta(seconds=t)))
    c.ensure("accuracy_5cm", worst <= 0.05 if step <= 60 else worst <= 50.0)
    c.ensure("refused_before", c.raises(ValueError, lambda: eph.interpolate(d0 - timedelta(seconds=1e-3))))
    c.ensure("refused_after", c.raises(ValueError, lambda: eph.interpolate(d0 + timedelta(seconds=step * (n - 1) + 1e-3))))


def _grid_ephem_views(tier, rng):
    """ephemerides held in frames {EME2000, TOD, ITRF, TEME} x forms {cartesian, keplerian, spherical} x {lagrange order 8 on 12 points, lagrange order 4 on 6 points, linear on
    3 points}"""
    for fr_ in range(4):
        for fo in range(3):
            for m in range(3):
                yield {"frame": fr_, "form": fo, "method": m}


@contract("C09", "ephem.views", funcs=[f"{EPH}:Ephem.interpolate", f"{EPH}:Ephem.frame.fget", f"{EPH}:Ephem.form.fget"], grid=_grid_ephem_views, level="bounded")
def _(c):
    """bounded: an interpolated point keeps the ephemeris' frame and form whatever they are (also for short tables and the linear method), is dated at the query, and at a node
    equals the stored point in that frame and form"""
    from beyond.orbits import Orbit, Ephem
    from beyond.dates import Date, timedelta
    from beyond.propagators.kepler import Kepler
    from beyond.constants import Earth
    from contracts.c19_mission import _kep2cart
    frame = ["EME2000", "TOD", "ITRF", "TEME"][c.integer("frame")]
    form = ["cartesian", "keplerian", "spherical"][c.integer("form")]
    method, order, n = [("lagrange", 8, 12), ("lagrange", 4, 6), ("linear", None, 3)][c.integer("method")]
    r0, v0 = _kep2cart(6.9e6, 0.01, 0.9, 1.0, 2.0, 0.3, Earth.mu)
    d0 = Date(2018, 5, 4)
    orb = Orbit(list(r0) + list(v0), d0, "cartesian", "EME2000", Kepler())
    pts = [orb.propagate(d0 + timedelta(seconds=60.0 * k)).copy(frame=frame, form=form) for k in range(n)]
    eph = Ephem(pts, method=method, order=order)
    q = d0 + timedelta(seconds=60.0 * (n - 1) - 17.0)
    got = eph.interpolate(q)
    c.ensure("frame_kept", got.frame.name == frame)
    c.ensure("form_kept", got.form.name == form)
    c.ensure("dated_at_the_query", got.date == q)
    node = eph.interpolate(pts[1].date)
    c.ensure("node_in_that_frame_and_form", node.frame.name == frame and node.form.name == form
             and bool(np.allclose(np.asarray(node, dtype=float), np.asarray(pts[1], dtype=float), rtol=1e-9, atol=1e-9)))
    # the ephemeris changed in place (all its points converted to another frame, then to another form) AFTER it has been interpolated: a node still returns the stored
    # point -- as it is now -- and a point in between is what a fresh ephemeris of the converted points gives
    other_frame = "EME2000" if frame != "EME2000" else "ITRF"
    eph.frame = other_frame
    node = eph.interpolate(pts[1].date)
    stored = np.asarray(eph[1], dtype=float)
    c.ensure("after_frame_change.node_is_the_stored_point", node.frame.name == other_frame and bool(np.allclose(np.asarray(node, dtype=float), stored, rtol=1e-9, atol=1e-6)))
    fresh = Ephem([p_.copy() for p_ in eph], method=method, order=order)
    c.ensure("after_frame_change.between_nodes", bool(np.allclose(np.asarray(eph.interpolate(q), dtype=float), np.asarray(fresh.interpolate(q), dtype=float), rtol=1e-9, atol=1e-6)))
    other_form = "cartesian" if form != "cartesian" else "spherical"
    eph.form = other_form
    node = eph.interpolate(pts[1].date)
    c.ensure("after_form_change.node_is_the_stored_point", node.form.name == other_form and bool(np.allclose(np.asarray(node, dtype=float), np.asarray(eph[1], dtype=float), rtol=1e-9, atol=1e-6)))
