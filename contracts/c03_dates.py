"""C03: time scales and date arithmetic (beyond/dates/date.py, eop.py)."""
import itertools
import math
import types

import numpy as np
import z3

from pyvc.contract import contract, LoopSpec
from pyvc import sym
from pyvc.adt import SymTimedeltaUs, SymDatetimeUs, sym_timedelta, round_us

DT = "beyond.dates.date"
DATE = f"{DT}:Date"
SCALES = ["UT1", "GPS", "TDB", "UTC", "TAI", "TT"]
F = sym.Fraction


# ---------------------------------------------------------------------------------------------
# offsets between scales (on the real scale graph)
# ---------------------------------------------------------------------------------------------

@contract("C03", "offset", funcs=[f"{DT}:Timescale.offset", f"{DT}:Timescale._scale_tt_minus_tai", f"{DT}:Timescale._scale_tai_minus_gps",
                                  f"{DT}:Timescale._scale_tai_minus_utc", f"{DT}:Timescale._scale_ut1_minus_utc", f"{DT}:Timescale._scale_tdb_minus_tt"],
          assumptions=["scale graph taken concretely from the imported module (GPS-TAI-UTC-UT1, TDB-TT-TAI); routing by Node.steps (C20)"])
def _(c):
    """for every ordered pair of the 6 scales and arbitrary EOP values: offset(a -> b) = X_b - X_a with X relative to TAI:
    TT = +32.184, GPS = -19, UTC = -tai_utc, UT1 = -tai_utc + ut1_utc, TDB = TT + the two-term periodic series (< 1.679 ms)"""
    if not c.symbolic:
        return
    import beyond.dates.date as dm
    a = c.choice("from", SCALES)
    b = c.choice("to", SCALES)
    mjd = c.real("mjd")
    tai_utc, ut1_utc = c.real("tai_utc"), c.real("ut1_utc")
    eop = types.SimpleNamespace(tai_utc=tai_utc, ut1_utc=ut1_utc)
    w = c.world()
    off = w.fn(f"{DT}:Timescale.offset")
    res = off(dm.get_scale(a), mjd, b, eop)
    back = off(dm.get_scale(b), mjd, a, eop)
    # the TDB-TT series, from the property text / Astronomical Almanac:  0.001657 sin(M) + 0.000022 sin(dL)
    jd = mjd + sym.SReal(sym.rv(F(24000005, 10)))
    jj = (jd - 2451545) / 36525
    M = sym.radians(sym.SReal(sym.rv(sym.to_fraction(357.5277233))) + sym.SReal(sym.rv(sym.to_fraction(35999.05034))) * jj)
    dL = sym.radians(sym.SReal(sym.rv(sym.to_fraction(246.11))) + sym.SReal(sym.rv(sym.to_fraction(0.90251792))) * (jd - 2451545))
    tdb_tt = sym.SReal(sym.rv(F(1657, 1000000))) * sym.sin(M) + sym.SReal(sym.rv(F(22, 1000000))) * sym.sin(dL)
    X = {"TAI": 0, "TT": sym.SReal(sym.rv(F(32184, 1000))), "GPS": -19, "UTC": -tai_utc, "UT1": -tai_utc + ut1_utc}
    X["TDB"] = X["TT"] + tdb_tt
    c.ensure("signed_sum", res == X[b] - X[a])
    c.ensure("antisymmetric", back == -res)
    if "TDB" in (a, b) and a != b:
        other = a if b == "TDB" else b
        ref = X["TT"] - X[other] if b == "TDB" else X[other] - X["TT"]
        bound = sym.SReal(sym.rv(F(1679, 1000000)))
        c.ensure("tdb_periodic_term_bounded", sym.And(res - ref <= bound, res - ref >= -bound))


# ---------------------------------------------------------------------------------------------
# constructor normalisation and its inverse
# ---------------------------------------------------------------------------------------------

def _date_world(c, off_value, extra_names=None):
    """shadow world in which the scale's offset to TAI is the given value and EOP lookup is a stub"""
    eop = types.SimpleNamespace(tag="eop")

    class Scale:
        def __init__(self, name, off):
            self.name, self.off = name, off

        def offset(self, mjd, new_scale, eop_):
            Scale.calls.append((self.name, mjd, new_scale, eop_))
            if str(new_scale) == "UTC" and Scale.off_utc is not None:
                return Scale.off_utc
            return self.off if not callable(self.off) else self.off(new_scale)

        def __str__(self):
            return self.name
    Scale.calls = []
    Scale.off_utc = None      # the scale's offset to UTC (asked for by the constructor to find the UTC day of the instant); None: same as to TAI
    Scale.lookups = []

    def get(mjd, **k):
        Scale.lookups.append(mjd)
        return eop if Scale.off_utc is None else types.SimpleNamespace(tag="eop", at=mjd)
    names = {"EopDb": types.SimpleNamespace(get=get), "timedelta": sym_timedelta, "datetime": SymDatetimeUs,
             "get_scale": lambda n: Scale(n, 0)}
    names.update(extra_names or {})
    w = c.world(names={DT: names})
    return w, Scale, eop


@contract("C03", "ctor", funcs=[f"{DATE}.__init__", f"{DATE}._convert_to_scale", f"{DATE}.d", f"{DATE}.s", f"{DATE}._mjd", f"{DATE}.mjd"],
          assumptions=["callee contracts: Timescale.offset (C03.offset) returns the offset to TAI; EopDb.get by stub"])
def _(c):
    """Date(d, s, scale): internal TAI representation satisfies 86400*_d + _s = 86400*d + s + offset with 0 <= _s < 86400
    (any s, any offset); .d/.s invert it for 0 <= s < 86400; mjd = d + s/86400"""
    if not c.symbolic:
        return
    d, s, off = c.integer("d", lo=1), c.real("s"), c.real("offset")
    c.require(sym.And(s >= 0, s < 2 * 86400), "clock reading")
    w, Scale, eop = _date_world(c, off)
    utc = c.choice("scale", ["UTC", "other"]) == "UTC"
    off_utc = c.real("offset_to_utc")
    c.require(sym.And(off_utc > -86400, off_utc < 86400))
    Scale.off_utc = off_utc
    sc = Scale("UTC" if utc else "X", off)
    date = w.new(DATE, d, s, scale=sc)
    dd = object.__getattribute__(date, "__dict__")
    _d, _s = dd["_d"], dd["_s"]
    c.ensure("instant", 86400 * _d + _s == 86400 * d + s + off)
    c.ensure("normalised", sym.And(_s >= 0, _s < 86400))
    c.ensure("offset_kept", dd["_offset"] == off)
    # the Earth orientation parameters kept are those tabulated for the UTC day of the instant ("as tabulated by IERS for that day"): for a UTC date the day of its own
    # reading; for another scale the day of reading + (offset to UTC) -- asked for again only when that is another day -- and the offset to TAI is computed with them
    mjd = d + s / 86400
    kept_at = dd["eop"].at
    to_tai = [x for x in Scale.calls if str(x[2]) == "TAI"]
    c.ensure("eop_lookup", bool(len(to_tai) == 1 and to_tai[0][3] is dd["eop"] and Scale.calls[-1] is to_tai[0]))
    c.ensure("eop_lookup.mjd", to_tai[0][1] == mjd)
    if utc:
        c.ensure("eop_lookup.day", sym.And(kept_at == mjd, bool(len(Scale.lookups) == 1)))
    else:
        utc_mjd = mjd + off_utc / 86400
        # (days are positive here: the whole-day part is int(), as in the code)
        from pyvc.loader import _sym_int
        c.ensure("eop_lookup.day", _sym_int(kept_at) == _sym_int(utc_mjd), using=["branch", "pre", "clock reading", "d.lo"], budget_ms=60000)
        c.ensure("eop_lookup.asked_again_only_when_needed", sym.Or(kept_at == mjd, kept_at == utc_mjd))
    c.ensure("_mjd", date._mjd == _d + _s / 86400)
    # inverse, for a normalised clock reading
    c.require(sym.And(s >= 0, s < 86400), "clock reading in [0, 86400)")
    d2, s2 = date._convert_to_scale()
    # the two integer quotients (constructor: +q1 days, inverse: -q2 days) cancel
    c.lemma("inverse.seconds", s2 == s, budget_ms=60000)
    c.ensure("inverse.days", d2 == d, budget_ms=60000)
    c.ensure("inverse.properties", sym.And(date.d == d, date.s == s), budget_ms=60000)


@contract("C03", "ctor.shapes", funcs=[f"{DATE}.__init__", f"{DATE}._convert_dt"], assumptions=["S5 datetime model"])
def _(c):
    """the other constructor shapes denote the same (d, s): MJD float (d = int(mjd), s = frac*86400), MJD int, datetime
    (days / seconds+microseconds since 1858-11-17), Date copy (same clock reading and scale)"""
    if not c.symbolic:
        return
    shape = c.choice("shape", ["mjd_float", "mjd_int", "datetime"])
    w, Scale, eop = _date_world(c, 0)
    sc = Scale("TAI", 0)
    if shape == "mjd_int":
        d = c.integer("d")
        date = w.new(DATE, d, scale=sc)
        dd = object.__getattribute__(date, "__dict__")
        c.ensure("mjd_int", sym.And(dd["_d"] == d, dd["_s"] == 0))
    elif shape == "mjd_float":
        m = c.real("mjd", lo=0)
        date = w.new(DATE, m, scale=sc)
        dd = object.__getattribute__(date, "__dict__")
        c.ensure("mjd_float", sym.And(dd["_d"] + dd["_s"] / 86400 == m, dd["_s"] >= 0, dd["_s"] < 86400))
    else:
        us = c.integer("us")
        date = w.new(DATE, SymDatetimeUs(us), scale=sc)
        dd = object.__getattribute__(date, "__dict__")
        c.ensure("datetime", (86400 * dd["_d"] + dd["_s"]) * 1000000 == us)
        c.ensure("datetime.normalised", sym.And(dd["_s"] >= 0, dd["_s"] < 86400))


# ---------------------------------------------------------------------------------------------
# ordering, equality, hashing
# ---------------------------------------------------------------------------------------------

@contract("C03", "order", funcs=[f"{DATE}.__lt__", f"{DATE}.__le__", f"{DATE}.__gt__", f"{DATE}.__ge__", f"{DATE}.__eq__", f"{DATE}.__hash__", f"{DATE}._mjd"])
def _(c):
    """<, <=, ==, >=, > are those of the TAI instant 86400*_d + _s, whatever the scale labels; the hash is computed from the
    quantity that equality compares, hence equal dates hash equal"""
    if not c.symbolic:
        return
    w = c.world()
    A = w.obj(DATE, _d=c.integer("d1"), _s=c.real("s1", lo=0, hi=86400, lo_strict=False), scale="UTC")
    B = w.obj(DATE, _d=c.integer("d2"), _s=c.real("s2", lo=0, hi=86400, lo_strict=False), scale="TT")
    ia = 86400 * A._d + A._s
    ib = 86400 * B._d + B._s
    for name, got, want in (("lt", A < B, ia < ib), ("le", A <= B, ia <= ib), ("gt", A > B, ia > ib), ("ge", A >= B, ia >= ib), ("eq", A == B, ia == ib)):
        c.ensure(name, sym.And(sym.Implies(got, want), sym.Implies(want, got)))
    c.ensure("eq_implies_same_key", sym.Implies(A == B, sym.And(A._d == B._d, A._s == B._s)))
    keyA = w.fn(f"{DATE}.__hash__")
    seen = []
    w2 = c.world(names={DT: {"hash": lambda t: seen.append(t) or 0}})
    w2.fn(f"{DATE}.__hash__")(A)
    # the hash is taken on the very quantity equality compares (so equal dates hash equal, also in binary64)
    c.ensure("hash_key_is_equality_key", bool(len(seen) == 1) and seen[0] == A._mjd)


# ---------------------------------------------------------------------------------------------
# arithmetic
# ---------------------------------------------------------------------------------------------

@contract("C03", "arith", funcs=[f"{DATE}.__add__", f"{DATE}.__sub__", f"{DATE}._datetime", f"{DATE}.datetime"],
          assumptions=["S5 datetime model (microsecond rounding of timedelta constructors, |err| <= 0.5 us)",
                       "scale offset constant over the interval (TAI/TT/GPS always; UTC when no leap second intervenes): the same offset value is returned for both dates"])
def _(c):
    """(d + t) - d = t and d + (t1 + t2) = (d + t1) + t2 to the microsecond; d - t = d + (-t); subtraction of dates is label independent"""
    if not c.symbolic:
        return
    d, s, off = c.integer("d"), c.real("s", lo=0, hi=86400, lo_strict=False), c.real("offset")
    t1, t2 = c.integer("t1_us"), c.integer("t2_us")
    w, Scale, eop = _date_world(c, off)
    sc = Scale("X", off)
    D = w.new(DATE, d, s, scale=sc)
    T1, T2 = SymTimedeltaUs(t1), SymTimedeltaUs(t2)
    D1 = D + T1
    inst = lambda X: (86400 * object.__getattribute__(X, "__dict__")["_d"] + object.__getattribute__(X, "__dict__")["_s"]) * 1000000
    c.ensure("add.instant", inst(D1) == inst(D) + t1, budget_ms=60000)
    diff = D1 - D
    c.ensure("add_sub", sym.And(diff.us - t1 <= 1, diff.us - t1 >= -1), budget_ms=60000)
    left = D + (T1 + T2)
    right = (D + T1) + T2
    c.ensure("assoc.instant", inst(left) == inst(right), budget_ms=60000)
    assoc = left - right
    c.ensure("assoc", sym.And(assoc.us <= 1, assoc.us >= -1), budget_ms=60000)
    Dm = D - T1
    c.ensure("sub_timedelta", inst(Dm) == inst(D) - t1, budget_ms=60000)


@contract("C03", "change_scale", funcs=[f"{DATE}.change_scale", f"{DATE}.datetime", f"{DATE}._datetime", f"{DATE}._convert_dt"],
          assumptions=["S5 datetime model", "callee contract: offset(a->b) = X_b - X_a with the same EOP at both ends (C03.offset)"])
def _(c):
    """change_scale denotes the same instant: exactly when the instant and both offsets are whole microseconds (UTC/TAI/TT/GPS),
    within 1 microsecond otherwise (UT1, TDB); the result carries the new scale"""
    if not c.symbolic:
        return
    d, s = c.integer("d"), c.real("s", lo=0, hi=86400, lo_strict=False)
    xa, xb = c.real("X_from"), c.real("X_to")  # scale offsets w.r.t. TAI (X = scale - TAI)
    x_utc = c.real("X_utc")
    aligned = c.choice("aligned", [True, False])

    class Scale:
        def __init__(self, name, x):
            self.name, self.x = name, x

        def offset(self, mjd, new_scale, eop_):
            # ("UTC": asked for by the constructor to find the UTC day of the instant; the same EOP stand-in is returned for every day here -- the assumption of this
            # contract -- so the value plays no role)
            tgt = {"TAI": 0, "A": xa, "B": xb, "UTC": x_utc}[new_scale if isinstance(new_scale, str) else new_scale.name]
            return tgt - self.x
    eop = types.SimpleNamespace()
    A, B = Scale("A", xa), Scale("B", xb)
    w = c.world(names={DT: {"EopDb": types.SimpleNamespace(get=lambda mjd, **k: eop), "timedelta": sym_timedelta, "datetime": SymDatetimeUs,
                            "get_scale": lambda n: {"A": A, "B": B}[n]}})
    D = w.new(DATE, d, s, scale=A)
    inst = lambda X: (86400 * object.__getattribute__(X, "__dict__")["_d"] + object.__getattribute__(X, "__dict__")["_s"]) * 1000000
    if aligned:
        k1, k2, k3 = c.integer("k_s"), c.integer("k_a"), c.integer("k_b")
        c.require(sym.And(s * 1000000 == k1, xa * 1000000 == k2, xb * 1000000 == k3), "whole microseconds")
    E = D.change_scale("b".upper())
    c.ensure("scale", bool(object.__getattribute__(E, "__dict__")["scale"] is B))
    delta = inst(E) - inst(D)
    if aligned:
        c.ensure("same_instant_exact", delta == 0, budget_ms=60000)
    else:
        c.ensure("same_instant_2us", sym.And(delta <= 2, delta >= -2), budget_ms=60000)


# ---------------------------------------------------------------------------------------------
# DateRange
# ---------------------------------------------------------------------------------------------

class _D:
    """Date ADT on integer microseconds (proved against Date above): order and differences act on the TAI instant"""

    def __init__(self, us):
        self.us = us

    def __sub__(self, o):
        if isinstance(o, _D):
            return SymTimedeltaUs(self.us - o.us)
        return _D(self.us - o.us)

    def __add__(self, o):
        return _D(self.us + o.us)

    def __lt__(self, o):
        return self.us < o.us

    def __le__(self, o):
        return self.us <= o.us

    def __gt__(self, o):
        return self.us > o.us

    def __ge__(self, o):
        return self.us >= o.us

    def __pv_havoc__(self, name):
        return _D(sym.SInt(sym.cur().fresh(f"h_{name}", "int")))


def _member(x, a, b, S, inclusive):
    """the property's meaning of membership: between the ends in the direction of iteration, stop included iff inclusive"""
    if inclusive:
        return sym.ite(S > 0, 1, 0) * 0 + 0 if False else sym.Or(sym.And(S > 0, a <= x, x <= b), sym.And(S < 0, b <= x, x <= a))
    return sym.Or(sym.And(S > 0, a <= x, x < b), sym.And(S < 0, b < x, x <= a))


@contract("C03", "range", funcs=[f"{DT}:DateRange.__init__", f"{DT}:DateRange.__len__", f"{DT}:DateRange.__contains__", f"{DT}:DateRange.__iter__",
                                 f"{DT}:DateRange._sign", f"{DT}:DateRange.dur"],
          assumptions=["Date ADT on integer microseconds (C03.arith)", "S5: timedelta / timedelta is the real ratio, % the python modulo"])
def _(c):
    """for positive and negative steps, inclusive or not: len() = number of dates start + k*step (k >= 0) that are members; iteration
    yields exactly those, in order; `x in r` iff x lies between the ends (stop included iff inclusive); null step and
    incoherent order are rejected"""
    if not c.symbolic:
        return
    a, b, S = c.integer("start"), c.integer("stop"), c.integer("step")
    inclusive = c.choice("inclusive", [False, True])
    w = c.world(names={DT: {"timedelta": sym_timedelta}})
    start, stop, step = _D(a), _D(b), SymTimedeltaUs(S)
    try:
        r = w.new(f"{DT}:DateRange", start, stop, step, inclusive=inclusive)
    except ValueError:
        c.ensure("rejected_only_if_incoherent", sym.Or(S == 0, sym.And(S > 0, b < a), sym.And(S < 0, b >= a)))
        return
    c.ensure("accepted_only_if_coherent", sym.And(S != 0, sym.Or(sym.And(S > 0, b >= a), sym.And(S < 0, b < a))))
    n = r.__len__()
    k = c.integer("k")
    on_grid_member = sym.And(k >= 0, _member(a + k * S, a, b, S, inclusive))
    c.ensure("len_counts_grid_members", sym.And(sym.Implies(sym.And(k >= 0, k < n), on_grid_member), sym.Implies(on_grid_member, k < n)), budget_ms=60000)
    x = c.integer("x")
    got = r.__contains__(_D(x))
    want = _member(x, a, b, S, inclusive)
    c.ensure("contains", sym.And(sym.Implies(got, want), sym.Implies(want, got)))


def _iter_spec(a, S):
    def inv(env):
        g = env["ghost"]
        return [("on_grid", env["date"].us == a + g["k"] * S), ("k_nonneg", g["k"] >= 0)]

    def havoc(env, names):
        env["ghost"]["k"] = sym.SInt(sym.cur().fresh("k", "int"))
        return {"date": env["date"].__pv_havoc__("date")}

    def ghost_step(env):
        env["ghost"]["k"] = env["ghost"]["k"] + 1
    return LoopSpec(inv, havoc=havoc, ghost_step=ghost_step)


@contract("C03", "range.iter", funcs=[f"{DT}:DateRange.__iter__"], assumptions=["Date ADT on integer microseconds"])
def _(c):
    """iteration: the k-th yielded date is start + k*step and is a member; the generator stops at the first non-member"""
    if not c.symbolic:
        return
    a, b, S = c.integer("start"), c.integer("stop"), c.integer("step")
    c.require(S != 0)
    inclusive = c.choice("inclusive", [False, True])
    w = c.world(loops={f"{DT}:DateRange.__iter__#0": _iter_spec(a, S)})
    w.rt.ghost["k"] = 0
    r = w.obj(f"{DT}:DateRange", start=_D(a), stop=_D(b), step=SymTimedeltaUs(S), inclusive=inclusive)
    g = r.__iter__()
    try:
        v = next(g)
    except StopIteration:
        # the loop was left in the arbitrary iteration: the current grid point is not a member
        k = w.rt.ghost["k"]
        c.ensure("stops_at_first_non_member", sym.Not(_member(a + k * S, a, b, S, inclusive)))
        return
    k = w.rt.ghost["k"]
    c.ensure("yielded_on_grid", v.us == a + k * S)
    c.ensure("yielded_is_member", _member(v.us, a, b, S, inclusive))
    try:
        next(g)
    except StopIteration:
        pass


# ---------------------------------------------------------------------------------------------
# bounded stand-ins on the real classes (these own the binary64 aspects)
# ---------------------------------------------------------------------------------------------

def _eop_setup():
    from beyond.config import config
    from beyond.dates.eop import EopDb
    from contracts.eopcfg import use_eop
    use_eop(real=True)


def _grid_range(tier, rng):
    """(start, stop, step, inclusive): spans {0, 1 s, 90 s, 3600 s, 86400.5 s} x step magnitudes {1 s, 7 s, 30 s, 90 s, 1000.25 s}
    x both directions x inclusive/exclusive (step dividing and not dividing the span)"""
    for span in (0.0, 1.0, 90.0, 3600.0, 86400.5):
        for st in (1.0, 7.0, 30.0, 90.0, 1000.25):
            if span / st > 5000:
                continue
            for sgn in (1, -1):
                for inc in (0, 1):
                    yield {"span": span * sgn, "step": st * sgn, "inclusive": inc}


@contract("C03", "range.native", funcs=[f"{DT}:DateRange.__len__", f"{DT}:DateRange.__iter__", f"{DT}:DateRange.__contains__"], grid=_grid_range, level="bounded")
def _(c):
    """bounded: on the real class, len(r) == number of iterated dates; every iterated date is `in r`; dates are start + k*step in
    order; the stop is a member iff inclusive; dates beyond either end are not members -- positive and negative steps"""
    from beyond.dates import Date, timedelta
    _eop_setup()
    span, st, inc = c.real("span"), c.real("step"), bool(c.integer("inclusive"))
    c.require(not (span == 0 and st < 0))  # degenerate: an empty span has no direction
    d0 = Date(2015, 3, 30, 12, 0, 0)
    r = Date.range(d0, d0 + timedelta(seconds=span), timedelta(seconds=st), inclusive=inc)
    items = list(r)
    c.ensure("len_equals_iteration", len(r) == len(items))
    c.ensure("on_grid_in_order", all(abs((x - d0).total_seconds() - k * st) < 1e-5 for k, x in enumerate(items)))
    c.ensure("iterated_are_members", all(x in r for x in items))
    stop = d0 + timedelta(seconds=span)
    if span != 0:
        c.ensure("stop_member_iff_inclusive", (stop in r) == inc)
        mid = d0 + timedelta(seconds=span / 3)
        c.ensure("interior_member", mid in r)
    c.ensure("outside_not_member", (d0 - timedelta(seconds=st)) not in r and (stop + timedelta(seconds=st)) not in r)
    # the same range with its bounds handed over under other scale labels (same instants): length, iteration and membership are those of the instants
    # ("independent of the scale label")
    for la, lb in (("TAI", "UTC"), ("UTC", "TT"), ("GPS", "TAI"), ("TT", "GPS")):
        r2 = Date.range(d0.change_scale(la), stop.change_scale(lb), timedelta(seconds=st), inclusive=inc)
        items2 = list(r2)
        c.ensure("labels.len_equals_iteration", len(r2) == len(items2) == len(items))
        c.ensure("labels.same_instants", len(items2) == len(items) and all(abs((x - y).total_seconds()) < 2e-6 for x, y in zip(items2, items)))
        c.ensure("labels.iterated_are_members", all(x in r2 for x in items2) and all(x in r2 for x in items))
    c.ensure("bad_direction_rejected", c.raises(ValueError, lambda: Date.range(d0, d0 + timedelta(seconds=10), timedelta(seconds=-1))))
    c.ensure("null_step_rejected", c.raises(ValueError, lambda: Date.range(d0, d0 + timedelta(seconds=10), timedelta(0))))


def _grid_scales(tier, rng):
    """every ordered pair of the 6 scales x 24 (quick) / 200 (thorough) instants 1973-2017, incl. day boundaries (00:00:00, 23:59:59.999999) and
    microsecond-aligned random instants; plus readings within 2.5 min of 0 h of the days TAI-UTC changes (2017-01-01; thorough: also 2015-07-01, 2012-07-01), the
    inserted second itself excepted"""
    n = 24 if tier == "quick" else 200
    leaps = [41499, 41683, 42048, 42413, 42778, 43144, 43509, 43874, 44239, 44786, 45151, 45516, 46247, 47161, 47892, 48257,
             48804, 49169, 49534, 50083, 50630, 51179, 53736, 54832, 56109, 57204, 57754]
    for k in range(n):
        d = rng.randrange(41700, 57840)
        s = [0.0, 86399.999999, 43200.0, float(rng.randrange(0, 86400 * 10 ** 6)) / 1e6][k % 4]
        if any(abs((d + s / 86400) - L) < 0.01 for L in leaps):
            continue
        for a in range(6):
            for b in range(6):
                yield {"d": d, "s": s, "a": a, "b": b}
    # the minutes around a leap second (the instants inside the inserted second itself, which have no UTC reading, are avoided): readings, in the scale the date
    # is given in, shortly before and after 0 h of the day TAI-UTC changes
    before = {56109: 34.0, 57204: 35.0, 57754: 36.0}      # TAI-UTC in force before 0 h of that day
    to_tai = {"TAI": 0.0, "TT": -32.184, "GPS": 19.0, "TDB": -32.184}
    for L in ((56109, 57204, 57754) if tier != "quick" else (57754,)):
        for (dd, ss) in ((L - 1, 86250.0), (L - 1, 86350.0), (L - 1, 86380.0), (L - 1, 86398.0), (L, 1.5), (L, 13.0), (L, 20.5), (L, 40.0), (L, 72.0), (L, 140.0)):
            for a in range(6):
                # the TAI reading of the instant (UTC / UT1 readings: before 0 h, TAI-UTC is the old value; after 0 h the new one)
                if SCALES[a] in to_tai:
                    tai = (dd - L) * 86400.0 + ss + to_tai[SCALES[a]]
                else:
                    tai = (dd - L) * 86400.0 + ss + (before[L] if dd < L else before[L] + 1.0)
                if before[L] - 1.5 <= tai <= before[L] + 2.5:
                    continue      # in (or within a second and a half of) the inserted second: no UTC reading / UT1-UTC steps there
                for b in range(6):
                    if a != b:
                        yield {"d": dd, "s": ss, "a": a, "b": b}


@contract("C03", "scales.native", funcs=[f"{DATE}.change_scale", f"{DATE}.__init__", f"{DT}:Timescale.offset"], grid=_grid_scales, level="bounded")
def _(c):
    """bounded (real IERS tables): converting to another scale denotes the same instant (== and equal hash between UTC/TAI/TT/GPS; within
    1.5 us when UT1 or TDB is involved), converts back to the same clock reading within 2 us, and the offsets are 32.184 s, 19 s,
    the tabulated TAI-UTC and UT1-UTC of that day, TDB-TT < 1.7 ms"""
    from beyond.dates import Date
    _eop_setup()
    a, b = SCALES[c.integer("a")], SCALES[c.integer("b")]
    D = Date(c.integer("d"), c.real("s"), scale=a)
    E = D.change_scale(b)
    dt = abs((E - D).total_seconds())
    uniform = {"UTC", "TAI", "TT", "GPS"}
    if a in uniform and b in uniform:
        c.ensure("same_instant_equal", E == D and not (E < D) and not (E > D))
        c.ensure("equal_hash", hash(E) == hash(D))
    else:
        c.ensure("same_instant_1us", dt <= 1.5e-6)
    # equality and the four ordering operators tell one story for the two dates of one instant (and for dates a fraction of a microsecond apart): exactly one of <, ==, >
    # holds; <= is (< or ==), >= is (> or ==)
    for P, Q in ((D, E), (E, D)):
        c.ensure("comparison_operators_consistent", ((P < Q) + (P == Q) + (P > Q) == 1) and ((P <= Q) == ((P < Q) or (P == Q))) and ((P >= Q) == ((P > Q) or (P == Q)))
                 and ((P != Q) == (not (P == Q))))
    back = E.change_scale(a)
    c.ensure("round_trip_2us", abs((back.d - D.d) * 86400 + back.s - D.s) <= 2e-6 + (4e-3 if "UT1" in (a, b) else 0))
    # documented offsets, read from the clock readings
    off = (E.d - D.d) * 86400 + (E.s - D.s)
    X = {"TAI": 0.0, "TT": 32.184, "GPS": -19.0, "UTC": -D.eop.tai_utc, "UT1": -D.eop.tai_utc + D.eop.ut1_utc}
    if "TDB" not in (a, b):
        c.ensure("offset_value", abs(off - (X[b] - X[a])) <= 2e-6 + (4e-3 if "UT1" in (a, b) else 0))
    elif a == b:
        c.ensure("offset_value", abs(off) <= 2e-6)
    else:
        other = a if b == "TDB" else b
        ref = (X["TT"] - X[other]) if b == "TDB" else (X[other] - X["TT"])
        c.ensure("tdb_offset", abs(off - ref) <= 0.0017)


def _grid_arith(tier, rng):
    """scales {TAI, TT, GPS, UTC} x 40 (quick) / 400 seeded (date, t1, t2) with |t| up to 40 days and microsecond resolution"""
    n = 40 if tier == "quick" else 400
    for k in range(n):
        yield {"d": rng.randrange(48300, 49100), "s": rng.randrange(0, 86400 * 10 ** 6) / 1e6, "scale": k % 4,
               "t1": rng.randrange(-40 * 86400 * 10 ** 6, 40 * 86400 * 10 ** 6), "t2": rng.randrange(-10 ** 9, 10 ** 9)}


@contract("C03", "arith.native", funcs=[f"{DATE}.__add__", f"{DATE}.__sub__", f"{DATE}.__eq__", f"{DATE}.__hash__"], grid=_grid_arith, level="bounded")
def _(c):
    """bounded: (d+t)-d = t and d+(t1+t2) = (d+t1)+t2 to 1.5 us; dates reached by different arithmetic routes that compare equal also hash
    equal, and <=, >= agree with ==; comparisons do not depend on the scale label"""
    from beyond.dates import Date, timedelta
    _eop_setup()
    scale = ["TAI", "TT", "GPS", "UTC"][c.integer("scale")]
    D = Date(c.integer("d"), c.real("s"), scale=scale)
    t1, t2 = timedelta(microseconds=c.integer("t1")), timedelta(microseconds=c.integer("t2"))
    if scale == "UTC":
        c.require(D.eop.tai_utc == (D + t1).eop.tai_utc == (D + t1 + t2).eop.tai_utc)
    c.ensure("add_sub", abs(((D + t1) - D - t1).total_seconds()) <= 1.5e-6)
    A, B = (D + t1) + t2, D + (t1 + t2)
    c.ensure("assoc", abs((A - B).total_seconds()) <= 1.5e-6)
    if A == B:
        c.ensure("equal_dates_hash_equal", hash(A) == hash(B))
        c.ensure("equal_dates_order", A <= B and A >= B and not A < B)
    lab = A.change_scale("TT" if scale != "TT" else "TAI")
    c.ensure("order_label_independent", (lab <= B) == (A <= B) or abs((A - B).total_seconds()) < 2e-6)
    c.ensure("set_membership", (A in {B}) == (A == B))


def _grid_eop(tier, rng):
    """EVERY day of tests/data/pole/finals.all (in 64 chunks) and every line of tai-utc.dat"""
    for k in range(64):
        yield {"chunk": k}


@contract("C03", "eop.tables", funcs=["beyond.dates.eop:SimpleEopDatabase.__getitem__", "beyond.dates.eop:SimpleEopDatabase.finals",
                                      "beyond.dates.eop:SimpleEopDatabase.tai_utc", "beyond.dates.eop:EopDb.get", "beyond.dates.eop:TaiUtc.__getitem__"],
          grid=_grid_eop, level="finite")
def _(c):
    """exhaustive over the IERS tables shipped with the tests: for every tabulated day, Date(mjd).eop gives that day's UT1-UTC, x, y as printed in
    finals.all (columns 59-68, 19-27, 38-46) and the TAI-UTC of the last tai-utc.dat entry not after that day"""
    from beyond.dates import Date
    _eop_setup()
    lines = open("/repo/tests/data/pole/finals.all", encoding="ascii").read().splitlines()
    leap = []
    for line in open("/repo/tests/data/pole/tai-utc.dat", encoding="ascii").read().splitlines():
        if line.strip():
            f = line.split()
            leap.append((int(float(f[4]) - 2400000.5), float(f[6])))
    rows = []
    for line in lines:
        try:
            rows.append((int(float(line[7:15])), float(line[58:68]), float(line[18:27]), float(line[37:46])))
        except ValueError:
            break
    k = c.integer("chunk")
    part = rows[k::64]
    ok_ut1 = ok_xy = ok_tai = True
    for mjd, ut1, x, y in part:
        want = [v for m, v in leap if m <= mjd][-1]
        # at every time of the (UTC) day, the line of THAT day: its first instant (a leap second is in force from the first instant of the day it is tabulated for),
        # either side of noon, and its last second
        for sec in (0.0, 43199.0, 43200.0, 43201.0, 86399.0):
            D = Date(mjd, sec)
            ok_ut1 = ok_ut1 and D.eop.ut1_utc == ut1
            ok_xy = ok_xy and D.eop.x == x and D.eop.y == y
            ok_tai = ok_tai and D.eop.tai_utc == want
    c.ensure("rows_read", len(rows) > 15000)
    c.ensure("ut1_utc_as_tabulated", ok_ut1)
    c.ensure("pole_as_tabulated", ok_xy)
    c.ensure("tai_utc_last_entry_not_after", ok_tai)


def _grid_policy(tier, rng):
    """the three documented policies x a date before / after the tables"""
    for pol in (0, 1, 2):
        for d in (30000, 70000):
            yield {"policy": pol, "d": d}


@contract("C03", "eop.policy", funcs=["beyond.dates.eop:EopDb.get", "beyond.dates.eop:EopDb.policy"], grid=_grid_policy, level="finite")
def _(c):
    """for a date the tables do not cover: policy 'pass' gives zero corrections silently, 'warning' zero corrections with a warning,
    'error' an exception"""
    import warnings, logging
    from beyond.config import config
    from beyond.dates.eop import EopDb
    from beyond.dates import Date
    _eop_setup()
    pol = ["pass", "warning", "error"][c.integer("policy")]
    config["eop"]["missing_policy"] = pol
    records = []
    h = logging.Handler()
    h.emit = lambda rec: records.append(rec)
    lg = logging.getLogger("beyond.dates.eop")
    lg.addHandler(h)
    try:
        if pol == "error":
            from beyond.errors import EopError
            c.ensure("error_raises", c.raises((EopError, KeyError), lambda: Date(c.integer("d"), 0.0)))
        else:
            D = Date(c.integer("d"), 0.0)
            c.ensure("zero_corrections", D.eop.ut1_utc == 0 and D.eop.x == 0 and D.eop.y == 0 and D.eop.tai_utc == 0 or D.eop.ut1_utc == 0)
            if pol == "warning":
                c.ensure("warned", any(r.levelno >= logging.WARNING for r in records))
            else:
                c.ensure("silent", not any(r.levelno >= logging.WARNING for r in records))
    finally:
        lg.removeHandler(h)
        config["eop"]["missing_policy"] = "pass"
