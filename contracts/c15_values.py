"""C15: value semantics of state vectors (beyond/orbits/statevector.py, orbit.py, cov.py)."""
import itertools
import math
import pickle
import types

import numpy as np

from pyvc.contract import contract

SV = "beyond.orbits.statevector"
FORMS = ["cartesian", "spherical", "cylindrical", "keplerian", "keplerian_eccentric", "keplerian_mean", "keplerian_circular",
         "keplerian_mean_circular", "equinoctial", "tle"]


# element names of each form, in order, and the alternative spellings of a name (docstrings of beyond/orbits/forms.py and the documentation of StateVector)
FORM_SPEC = {
    "cartesian": ["x", "y", "z", "vx", "vy", "vz"],
    "spherical": ["r", "θ", "φ", "r_dot", "θ_dot", "φ_dot"],
    "cylindrical": ["r", "θ", "z", "r_dot", "θ_dot", "vz"],
    "keplerian": ["a", "e", "i", "Ω", "ω", "ν"],
    "keplerian_eccentric": ["a", "e", "i", "Ω", "ω", "E"],
    "keplerian_mean": ["a", "e", "i", "Ω", "ω", "M"],
    "keplerian_circular": ["a", "ex", "ey", "i", "Ω", "u"],
    "keplerian_mean_circular": ["a", "ex", "ey", "i", "Ω", "α"],
    "equinoctial": ["a", "ex", "ey", "ix", "iy", "l"],
    "tle": ["i", "Ω", "e", "ω", "M", "n"],
}
SPELLINGS = {"θ": ["theta"], "φ": ["phi"], "Ω": ["raan", "Omega"], "ω": ["omega"], "ν": ["nu"], "θ_dot": ["theta_dot"], "φ_dot": ["phi_dot"], "u": ["aol"],
             "E": ["H"], "vx": ["x_dot"], "vy": ["y_dot"], "vz": ["z_dot"], "α": ["alpha", "maol"]}


def _grid_names(tier, rng):
    """every one of the 10 forms (inside: every parameter name, every alias of Form.alt, every index, and every name of the other forms)"""
    for k in range(len(FORMS)):
        yield {"form": k}


def _state(form="cartesian", cov=False, mans=False, orbit=False):
    from beyond.orbits import StateVector, Orbit
    from beyond.dates import Date, timedelta
    from beyond.orbits.cov import Cov
    from beyond.orbits.man import ImpulsiveMan
    from beyond.propagators.kepler import Kepler
    x = [7.0e6 * 0.6, 7.0e6 * 0.5, 7.0e6 * 0.62, -4.5e3, 5.5e3, 1.2e3]
    d = Date(2015, 3, 4, 5, 6, 7)
    sv = Orbit(x, d, "cartesian", "EME2000", Kepler()) if orbit else StateVector(x, d, "cartesian", "EME2000")
    if mans:
        sv.maneuvers = [ImpulsiveMan(d + timedelta(seconds=100), [1.0, 0.0, 0.0], frame="TNW", comment="m1")]
    if cov:
        A = np.random.default_rng(3).normal(size=(6, 6))
        sv.cov = Cov(sv, A @ A.T, sv.frame)
    sv.name = "SAT"
    sv.form = form
    return sv


@contract("C15", "names", funcs=[f"{SV}:StateVector.__getattr__", f"{SV}:StateVector.__setattr__", f"{SV}:StateVector.__getitem__", f"{SV}:StateVector.__setitem__"],
          grid=_grid_names, level="finite")
def _(c):
    """finite (exhaustive): for each of the 10 forms, every parameter name and every alias that designates one of its parameters reads and writes the element at that
    parameter's position (attribute, [name] and [index] agree); names belonging only to other forms raise AttributeError / KeyError"""
    from beyond.orbits.forms import Form, get_form, _cache
    form = FORMS[c.integer("form")]
    sv = _state(form)
    f = get_form(form)
    # the documented names of this form's six elements, in order (module docstrings of forms.py): greek names with their latin aliases
    # (written here from the documentation, not read from the code's own tables)
    canon = FORM_SPEC[form]
    aliases = SPELLINGS
    ok_read = ok_write = ok_other = True
    for i, name in enumerate(canon):
        for n in [name] + aliases.get(name, []):
            try:
                ok_read = ok_read and float(getattr(sv, n)) == float(sv[i]) == float(sv[n])
            except (AttributeError, KeyError) as e:
                ok_read = False
            try:
                cp = sv.copy()
                setattr(cp, n, 0.125)
                ok_write = ok_write and float(cp[i]) == 0.125 and all(float(cp[j]) == float(sv[j]) for j in range(6) if j != i)
                cp2 = sv.copy()
                cp2[n] = 0.25
                ok_write = ok_write and float(cp2[i]) == 0.25
            except (AttributeError, KeyError):
                ok_write = False
    others = {n for g in FORM_SPEC.values() for n in g} - set(canon)
    for n in sorted(others | {a for o in others for a in aliases.get(o, [])}):
        try:
            getattr(sv, n)
            ok_other = False
        except AttributeError:
            pass
        try:
            sv[n]
            ok_other = False
        except KeyError:
            pass
    c.ensure("names_and_aliases_read_their_element", ok_read)
    c.ensure("names_and_aliases_write_their_element", ok_write)
    c.ensure("names_of_other_forms_are_refused", ok_other)


OPS = ["copy", "copy_form", "copy_frame", "copy_same", "set_element", "set_meta", "set_maneuvers", "set_cov", "form_setter", "frame_setter", "bad_form", "bad_frame",
       "pickle", "as_orbit", "as_statevector", "mutate_cov", "mutate_maneuver_list", "form_call", "deepcopy"]


def _grid_seq(tier, rng):
    """states {plain, with covariance, with maneuvers, with both, Orbit with both} x seeded operation sequences of length 6 (quick 150, thorough 3000) over copy / copy(form) /
    copy(frame) / copy(same) / element, metadata, maneuver, covariance assignment / form and frame setters / failing form and frame changes / pickle round trip / copy.deepcopy / as_orbit /
    as_statevector / in-place mutation of an attached covariance or maneuver list"""
    n = 150 if tier == "quick" else 3000
    for k in range(n):
        yield {"kind": k % 5, "seed": k, **{f"op{i}": rng.randrange(len(OPS)) for i in range(6)}, **{f"arg{i}": rng.randrange(1000) for i in range(6)}}


def _snap(o):
    from beyond.orbits.cov import Cov
    d = {"coord": np.asarray(o, dtype=float).tobytes(), "form": o.form.name, "frame": o.frame.name, "date": (o.date._d, o.date._s), "name": getattr(o, "name", None),
         "mans": [(m.date._d, m.date._s, np.asarray(m._dv).tobytes(), m.frame, m.comment) for m in o.maneuvers] if "maneuvers" in o._data else None,
         "cov": (np.asarray(o.cov, dtype=float).tobytes(), str(o.cov.frame)) if o._data.get("cov") is not None else None, "type": type(o).__name__,
         "extra": o._data.get("extra"), "free": {nm: o._data.get(nm) for nm in ("t", "op", "prop", "or", "at", "f", "fra", "dat", "co") if nm in o._data}}
    return d


def _same_state(a, b, rtol=1e-9):
    """equality of two snapshots, coordinates up to the rounding of a there-and-back form conversion"""
    ca, cb = np.frombuffer(a["coord"]), np.frombuffer(b["coord"])
    return {k: v for k, v in a.items() if k != "coord"} == {k: v for k, v in b.items() if k != "coord"} and bool(np.allclose(ca, cb, rtol=rtol, atol=1e-9))


def _behaves_like(new, old):
    """equal in value also means: the same thing happens to both when they are converted to another frame (coordinates, and the covariance that follows or stays) --
    compared to rounding (1e-9 relative), the covariance's frame exactly"""
    for f in ("ITRF", "TOD"):
        a, b = _snap(new.copy(frame=f)), _snap(old.copy(frame=f))
        skip = ("type", "coord", "cov")
        if {k: v for k, v in a.items() if k not in skip} != {k: v for k, v in b.items() if k not in skip}:
            return False
        if not np.allclose(np.frombuffer(a["coord"]), np.frombuffer(b["coord"]), rtol=1e-9, atol=1e-6):
            return False
        if (a["cov"] is None) != (b["cov"] is None):
            return False
        if a["cov"] is not None:
            ca, cb = np.frombuffer(a["cov"][0]), np.frombuffer(b["cov"][0])
            if a["cov"][1] != b["cov"][1] or not np.allclose(ca, cb, rtol=1e-7, atol=1e-9 * float(np.abs(cb).max())):
                return False
    return True


def _consistent(o):
    """form / frame / values mutually consistent: converting to cartesian EME2000 gives a finite state at the same radius as before"""
    x = np.asarray(o.copy(form="cartesian", frame="EME2000"), dtype=float)
    return bool(np.all(np.isfinite(x)) and abs(np.linalg.norm(x[:3]) / 7.0e6 - 1) < 0.2)


@contract("C15", "sequences", funcs=[f"{SV}:StateVector.copy", f"{SV}:StateVector.form.fset", f"{SV}:StateVector.frame.fset", f"{SV}:StateVector.__reduce__", f"{SV}:StateVector.__setstate__",
                                     f"{SV}:StateVector.as_orbit", "beyond.orbits.orbit:Orbit.as_statevector", "beyond.orbits.cov:Cov.copy", f"{SV}:StateVector.__array_finalize__"],
          grid=_grid_seq, level="bounded")
def _(c):
    """bounded: along a sequence of 6 operations over a growing pool of objects, an operation on one object never changes any other object (coordinates, form, frame, date,
    metadata, maneuvers, covariance), operations that return a new object leave the receiver unchanged and the result equal in value, a failed form / frame change leaves
    the receiver exactly as it was and still consistent, pickling and Orbit <-> StateVector conversion preserve values and metadata"""
    import random
    from beyond.orbits.cov import Cov
    from beyond.orbits.man import ImpulsiveMan
    from beyond.dates import timedelta
    from beyond.propagators.kepler import Kepler
    import beyond.frames.frames as fr
    kind = c.integer("kind")
    base = _state("cartesian", cov=kind in (1, 3, 4), mans=kind in (2, 3, 4), orbit=kind == 4)
    pool = [base]
    ok_alias = ok_recv = ok_value = ok_fail = ok_meta = ok_inplace = True
    forms = ["spherical", "keplerian", "keplerian_mean", "equinoctial", "cartesian", "cylindrical"]
    frames_ = ["ITRF", "TOD", "GCRF", "EME2000", "TEME"]
    for i in range(6):
        op = OPS[c.integer(f"op{i}")]
        a = c.integer(f"arg{i}")
        k = a % len(pool)
        tgt = pool[k]
        before = [_snap(o) for o in pool]
        new = None
        mutates = False
        try:
            if op == "copy":
                new = tgt.copy()
                ok_value = ok_value and _snap(new) == before[k] and _behaves_like(new, tgt)
            elif op == "copy_form":
                new = tgt.copy(form=forms[a % len(forms)])
                ok_value = ok_value and new.form.name == forms[a % len(forms)] and new.frame.name == tgt.frame.name
            elif op == "copy_frame":
                new = tgt.copy(frame=frames_[a % len(frames_)])
                ok_value = ok_value and new.frame.name == frames_[a % len(frames_)] and new.form.name == tgt.form.name
            elif op == "copy_same":
                other = pool[(a // 7) % len(pool)]
                new = tgt.copy(same=other)
                ok_value = ok_value and new.frame.name == other.frame.name and new.form.name == other.form.name
            elif op == "set_element":
                mutates = True
                tgt[a % 6] = float(tgt[a % 6]) * (1 + 1e-3)
            elif op == "set_meta":
                mutates = True
                tgt.extra = {"k": a}
                # (free metadata under short / awkward names as well: they are carried like any other)
                for nm in ("t", "op", "prop", "or", "at", "f", "fra", "dat", "co")[: 1 + a % 9]:
                    tgt._data[nm] = f"{nm}-{a}"
            elif op == "set_maneuvers":
                mutates = True
                tgt.maneuvers = [ImpulsiveMan(tgt.date + timedelta(seconds=a), [0.0, 1.0, 0.0], comment=f"m{a}")]
            elif op == "set_cov":
                mutates = True
                A = np.random.default_rng(a).normal(size=(6, 6))
                tgt.cov = Cov(tgt, A @ A.T, tgt.frame)
            elif op == "form_setter":
                mutates = True
                want = np.asarray(tgt.copy(form=forms[a % len(forms)]), dtype=float)
                tgt.form = forms[a % len(forms)]
                # changing in place gives what a converted copy gives (the write really reaches the object's own memory)
                ok_inplace = ok_inplace and tgt.form.name == forms[a % len(forms)] and bool(np.allclose(np.asarray(tgt, dtype=float), want, rtol=1e-12, atol=1e-9)) and _consistent(tgt)
            elif op == "frame_setter":
                mutates = True
                want = np.asarray(tgt.copy(frame=frames_[a % len(frames_)]), dtype=float)
                tgt.frame = frames_[a % len(frames_)]
                ok_inplace = ok_inplace and tgt.frame.name == frames_[a % len(frames_)] and bool(np.allclose(np.asarray(tgt, dtype=float), want, rtol=1e-12, atol=1e-9)) and _consistent(tgt)
            elif op == "bad_form":
                try:
                    tgt.form = "no_such_form"
                    ok_fail = False
                except Exception:
                    ok_fail = ok_fail and _same_state(_snap(tgt), before[k]) and _consistent(tgt)
            elif op == "bad_frame":
                try:
                    tgt.frame = fr.Hill if a % 2 else "no_such_frame"
                    ok_fail = False
                except Exception:
                    ok_fail = ok_fail and _same_state(_snap(tgt), before[k]) and _consistent(tgt)
            elif op == "deepcopy":
                # the standard library's way of asking for an independent copy
                import copy as _copy
                new = _copy.deepcopy(tgt)
                ok_value = ok_value and _snap(new) == before[k] and _behaves_like(new, tgt)
            elif op == "pickle":
                new = pickle.loads(pickle.dumps(tgt))
                sn = _snap(new)
                ok_meta = ok_meta and sn == before[k] and _behaves_like(new, tgt)
            elif op == "as_orbit":
                new = tgt.as_orbit(Kepler())
                sn = _snap(new)
                ok_meta = ok_meta and {x: sn[x] for x in sn if x != "type"} == {x: before[k][x] for x in before[k] if x != "type"} and sn["type"] == "Orbit" and _behaves_like(new, tgt)
            elif op == "as_statevector":
                if hasattr(tgt, "as_statevector"):
                    new = tgt.as_statevector()
                    sn = _snap(new)
                    ok_meta = ok_meta and {x: sn[x] for x in sn if x != "type"} == {x: before[k][x] for x in before[k] if x != "type"} and sn["type"] == "StateVector" and _behaves_like(new, tgt)
            elif op == "form_call":
                # the conversion function itself (orb.form(orb, X)): "gives the result of the transformation without in-place modifications" -- whatever is done to
                # what it returns (the current form included) never shows in the receiver
                res_ = tgt.form(tgt, forms[a % len(forms)] if a % 3 else tgt.form.name)
                try:
                    res_[0] = float(res_[0]) * 2 + 1.0
                    res_[5] = -float(res_[5])
                except Exception:
                    pass
            elif op == "mutate_cov":
                if tgt._data.get("cov") is not None:
                    mutates = True
                    tgt.cov[0, 0] = float(tgt.cov[0, 0]) * 2
            elif op == "mutate_maneuver_list":
                if "maneuvers" in tgt._data and tgt.maneuvers:
                    mutates = True
                    tgt.maneuvers.append(ImpulsiveMan(tgt.date + timedelta(seconds=5), [0.0, 0.0, 2.0]))
        except Exception as e:
            c.ensure(f"no_exception:{op}:{type(e).__name__}", False)
            return
        after = [_snap(o) for o in pool]
        for j in range(len(pool)):
            if j != k:
                ok_alias = ok_alias and after[j] == before[j]
        if not mutates:
            ok_recv = ok_recv and (after[k] == before[k] or (op in ("bad_form", "bad_frame") and _same_state(after[k], before[k])))
        if new is not None:
            pool.append(new)
    c.ensure("no_shared_mutable_data", ok_alias)
    c.ensure("receiver_unchanged_by_returning_methods", ok_recv)
    c.ensure("returned_object_has_requested_form_frame", ok_value)
    c.ensure("failed_change_is_atomic", ok_fail)
    c.ensure("in_place_change_equals_converted_copy", ok_inplace)
    c.ensure("pickle_and_type_conversion_preserve", ok_meta)


# ---------------------------------------------------------------------------------------------------------------------
# proved part: the real source of the setters, copy(), as_orbit() and as_statevector() executed on stand-ins

ORB = "beyond.orbits.orbit"
GFORM_NAMES = ["cartesian", "keplerian", "spherical"]


class _Ghost:
    """a form / frame / attached item seen only through what statevector.py does with it"""

    def __init__(self, kind, name, log):
        self.kind, self.name, self.log = kind, name, log

    def __repr__(self):
        return f"<{self.kind} {self.name}>"


class _GForm(_Ghost):
    """conversion to another form: an uninterpreted function of the coordinates per (from, to) pair, or a failure"""
    param_names = ["p0", "p1", "p2", "p3", "p4", "p5"]

    def __init__(self, c, name, log, fails):
        super().__init__("form", name, log)
        self.c, self.fails = c, fails

    def __call__(self, sv, new_form):
        from pyvc import sym
        self.log.append(("convert", self.name, new_form.name))
        if self.fails(self.name, new_form.name):
            raise ValueError(f"no conversion {self.name} -> {new_form.name}")
        x = [sv[i] for i in range(6)]
        # (a conversion depends on the central body of the frame the state is attached to *at that moment*: mu)
        return conv(self.name, new_form.name, x, sv.frame.name)


def conv(a, b, x, frame="A"):
    from pyvc import sym
    if a == b:
        return list(x)
    return [sym.uf(f"conv_{a}_{b}_in_{frame}_{i}", *x) for i in range(6)]


def transf(a, b, x):
    from pyvc import sym
    return [sym.uf(f"transform_{a}_{b}_{i}", *x) for i in range(6)]


class _GFrame(_Ghost):
    def __init__(self, c, name, log, fails):
        super().__init__("frame", name, log)
        self.fails = fails

    def transform(self, sv, new_frame):
        self.log.append(("transform", self.name, new_frame.name, sv.form.name))
        if self.fails(self.name, new_frame.name):
            raise ValueError(f"no path {self.name} -> {new_frame.name}")
        return transf(self.name, new_frame.name, [sv[i] for i in range(6)])


class _Tok(_Ghost):
    """a mutable attached item (covariance, propagator): copy() gives a distinct item that remembers its parent"""

    def __init__(self, name, log, parent=None, frame=None):
        super().__init__("item", name, log)
        self.parent = parent
        self.__dict__["frame"] = frame

    def copy(self):
        return _Tok(self.name, self.log, parent=self, frame=self.__dict__["frame"])

    def __setattr__(self, k, v):
        if k == "frame" and "log" in self.__dict__:
            self.log.append(("item_frame_set", id(self), v))
        self.__dict__[k] = v


class _GuardDict(dict):
    """the receiver's _data: every write is recorded"""

    def __init__(self, *a, **k):
        super().__init__(*a, **k)
        self.writes = []

    def __setitem__(self, k, v):
        self.writes.append((k, v))
        super().__setitem__(k, v)

    def __delitem__(self, k):
        self.writes.append((k, "<deleted>"))
        super().__delitem__(k)

    def pop(self, *a):
        self.writes.append((a[0], "<popped>"))
        return super().pop(*a)

    def update(self, *a, **k):
        self.writes.append(("<update>", a, k))
        super().update(*a, **k)


def _sv_setup(c, orbit=False, never_fail=False):
    """a stand-in StateVector / Orbit over its own store of 6 symbolic coordinates, in ghost form F0 = 'keplerian' and ghost frame 'A', the way
    StateVector.__new__ builds it (the real __new__ runs; np.ndarray.__new__ is the store hook)"""
    from pyvc import sym
    log = []
    fail = {}

    def fails(a, b):
        key = f"fail_{a}_{b}"
        if never_fail:
            return False
        if key not in fail:
            fail[key] = bool(c.boolean(key))
        return fail[key]

    forms = {n: _GForm(c, n, log, fails) for n in GFORM_NAMES}
    frames = {n: _GFrame(c, n, log, fails) for n in "AB"}
    w = c.world()
    w.names[SV] = {"get_form": lambda name: forms[name], "get_frame": lambda name: frames[name], "Orbit": w.cls(f"{ORB}:Orbit")}
    w.names[ORB] = {"StateVector": w.cls(f"{SV}:StateVector"), "get_propagator": lambda p: p}
    x0 = [c.real(f"x{i}") for i in range(6)]
    cov = _Tok("cov", log, frame=frames["A"]) if bool(c.boolean("has_cov")) else None
    mans = [_Ghost("man", "m1", log)]
    date = _Ghost("date", "t0", log)
    kw = dict(cov=cov, maneuvers=mans, name="SAT", t="free metadata under a short name", op="another", prop="and another")
    if orbit:
        sv = w.cls(f"{ORB}:Orbit")(x0, date, forms["keplerian"], frames["A"], _Tok("propagator", log), **kw)
    else:
        sv = w.cls(f"{SV}:StateVector")(x0, date, forms["keplerian"], frames["A"], **kw)
    # from here on every write to the receiver's _data and store is recorded
    d = object.__getattribute__(sv, "__dict__")
    d["_data"] = _GuardDict(d["_data"])
    d["_pv_nd"].base.writes.clear()
    del log[:]
    # C01's contract, assumed here: converting there and back restores the coordinates
    for a in GFORM_NAMES:
        for b in GFORM_NAMES:
            if a != b:
                y = conv(a, b, x0, "A")
                z = conv(b, a, y, "A")
                for i in range(6):
                    c.axiom(f"C01.round_trip.{a}.{b}.{i}", z[i] == x0[i], "contract of the form conversions (property C01, same central body both ways), assumed at this call site")
    return types.SimpleNamespace(w=w, sv=sv, x0=x0, forms=forms, frames=frames, cov=cov, mans=mans, date=date, log=log, data=d["_data"], store=d["_pv_nd"].base)


def _coords(o):
    nd = object.__getattribute__(o, "__dict__")["_pv_nd"]
    return [nd[i] for i in range(6)]


def _eqv(c, label, got, want):
    for i in range(6):
        c.ensure(f"{label}.{i}", got[i] == want[i])


@contract("C15", "form_setter", funcs=[f"{SV}:StateVector.form.fset", f"{SV}:StateVector.__new__", f"{SV}:StateVector.base.fget"], level="proof",
          assumptions=["form conversions abstracted as uninterpreted functions of the coordinates per (from, to) pair, or a raised exception"])
def _(c):
    """proved: `sv.form = F` either converts (coordinates = conv(old, F)(coordinates before), form = F, one write of all six coordinates, nothing else in _data written)
    or, when the conversion raises, leaves coordinates, form and every other item exactly as they were"""
    if not c.symbolic:
        return  # ghost forms / frames / uninterpreted conversions only exist symbolically; the bounded contracts above exercise the real objects
    s = _sv_setup(c)
    try:
        s.sv.form = "spherical"
        raised = False
    except ValueError:
        raised = True
    c.ensure("raises_iff_conversion_fails", raised == bool(c.boolean("fail_keplerian_spherical")))
    if raised:
        _eqv(c, "failed.coordinates_unchanged", _coords(s.sv), s.x0)
        c.ensure("failed.form_unchanged", s.data["form"] is s.forms["keplerian"])
        c.ensure("failed.nothing_written", s.data.writes == [] and s.store.writes == [])
    else:
        _eqv(c, "done.coordinates_converted", _coords(s.sv), conv("keplerian", "spherical", s.x0))
        c.ensure("done.form_is_target", s.data["form"] is s.forms["spherical"])
        c.ensure("done.only_form_written", [k for k, _ in s.data.writes] == ["form"] and len(s.store.writes) == 1)
    c.ensure("frame_untouched", s.data["frame"] is s.frames["A"])


@contract("C15", "frame_setter", funcs=[f"{SV}:StateVector.frame.fset", f"{SV}:StateVector.form.fset", f"{SV}:StateVector.cov.fget"], level="proof",
          assumptions=["form conversions and the frame transformation abstracted as uninterpreted functions of the coordinates, or a raised exception",
                       "there-and-back form conversion restores the coordinates (C01's contract, assumed at this call site)"])
def _(c):
    """proved: `sv.frame = B` for an object in form F0, frame A: (same frame) nothing changes; (conversion to cartesian fails) nothing changes; (the transformation
    fails) form F0, frame A, coordinates as before, covariance untouched; (success) frame B, form F0, coordinates = back(transform(to_cartesian(x))), an attached
    covariance in frame A follows to B, one in another frame is left alone; (restoring the form fails) the object is consistently cartesian, in the frame whose
    coordinates it holds.  The transformation is always applied to cartesian coordinates."""
    if not c.symbolic:
        return  # ghost forms / frames / uninterpreted conversions only exist symbolically; the bounded contracts above exercise the real objects
    s = _sv_setup(c)
    same = bool(c.boolean("same_frame"))
    cov_follows = bool(c.boolean("cov_in_frame_of_state"))
    if s.cov is not None and not cov_follows:
        s.cov.__dict__["frame"] = s.frames["B"] if same else _GFrame(c, "C", s.log, lambda a, b: False)
    target = s.frames["A"] if same else s.frames["B"]
    cov_frame0 = s.cov.__dict__["frame"] if s.cov is not None else None
    try:
        s.sv.frame = target
        raised = False
    except ValueError:
        raised = True
    f_to = bool(c.boolean("fail_keplerian_cartesian")) if not same else False
    f_tr = bool(c.boolean("fail_A_B")) if not same and not f_to else False
    f_back = bool(c.boolean("fail_cartesian_keplerian")) if not same and not f_to else False
    c.ensure("raises_iff_a_step_fails", raised == (f_to or f_tr or f_back))
    c.ensure("transform_sees_cartesian", all(e[3] == "cartesian" for e in s.log if e[0] == "transform"))
    cart = conv("keplerian", "cartesian", s.x0)
    if same:
        _eqv(c, "same.coordinates_unchanged", _coords(s.sv), s.x0)
        c.ensure("same.nothing_written", [k for k, _ in s.data.writes] == [] and s.store.writes == [])
    elif f_to:
        _eqv(c, "failed_to_cartesian.coordinates_unchanged", _coords(s.sv), s.x0)
        c.ensure("failed_to_cartesian.form_frame_unchanged", s.data["form"] is s.forms["keplerian"] and s.data["frame"] is s.frames["A"])
        c.ensure("failed_to_cartesian.nothing_written", s.data.writes == [] and s.store.writes == [])
    elif f_tr and not f_back:
        _eqv(c, "failed_transform.coordinates_restored", _coords(s.sv), s.x0)
        c.ensure("failed_transform.form_frame_restored", s.data["form"] is s.forms["keplerian"] and s.data["frame"] is s.frames["A"])
    elif f_tr and f_back:
        _eqv(c, "failed_transform_and_restore.cartesian_in_old_frame", _coords(s.sv), cart)
        c.ensure("failed_transform_and_restore.form_frame_consistent", s.data["form"] is s.forms["cartesian"] and s.data["frame"] is s.frames["A"])
    elif f_back:
        _eqv(c, "failed_restore.cartesian_in_new_frame", _coords(s.sv), transf("A", "B", cart))
        c.ensure("failed_restore.form_frame_consistent", s.data["form"] is s.forms["cartesian"] and s.data["frame"] is s.frames["B"])
    else:
        _eqv(c, "done.coordinates", _coords(s.sv), conv("cartesian", "keplerian", transf("A", "B", cart), "B"))
        c.ensure("done.form_frame", s.data["form"] is s.forms["keplerian"] and s.data["frame"] is s.frames["B"])
    if s.cov is not None:
        moved = [e for e in s.log if e[0] == "item_frame_set"]
        if raised or same or not cov_follows:
            c.ensure("covariance_left_alone", s.cov.__dict__["frame"] is cov_frame0 and (moved == [] or same))
        else:
            c.ensure("covariance_follows", s.cov.__dict__["frame"] is s.frames["B"] and len(moved) == 1)
    c.ensure("other_items_untouched", all(k in ("form", "frame") for k, _ in s.data.writes) and s.data["maneuvers"] is s.mans and s.data["date"] is s.date)


def _check_fresh(c, label, s, new, real_name, propagator=None):
    """`new` is a distinct object of the requested class over its own store whose items are private copies"""
    nd = object.__getattribute__(new, "__dict__")
    c.ensure(f"{label}.new_object", new is not s.sv and nd["_pv_real"].__name__ == real_name)
    c.ensure(f"{label}.own_memory", nd["_pv_nd"].base is not s.store)
    c.ensure(f"{label}.own_data_dict", nd["_data"] is not s.data)
    c.ensure(f"{label}.maneuver_list_not_shared", nd["_data"]["maneuvers"] is not s.mans and list(nd["_data"]["maneuvers"]) == list(s.mans))
    if s.cov is not None:
        c.ensure(f"{label}.covariance_is_a_private_copy", nd["_data"]["cov"] is not s.cov and getattr(nd["_data"]["cov"], "parent", None) is s.cov)
    else:
        c.ensure(f"{label}.no_covariance_invented", nd["_data"].get("cov") is None)
    c.ensure(f"{label}.metadata_kept", nd["_data"]["name"] == "SAT" and nd["_data"]["date"] is s.date)
    keys = set(nd["_data"]) - {"propagator"}
    c.ensure(f"{label}.same_items", keys == set(s.data) - {"propagator"})
    if propagator is not None:
        c.ensure(f"{label}.propagator", nd["_data"]["propagator"] is propagator)
    # the receiver
    c.ensure(f"{label}.receiver_data_not_written", s.data.writes == [])
    c.ensure(f"{label}.receiver_memory_not_written", s.store.writes == [])
    _eqv(c, f"{label}.receiver_coordinates", _coords(s.sv), s.x0)
    if s.cov is not None:
        c.ensure(f"{label}.receiver_covariance_untouched", s.data["cov"] is s.cov and not any(e[0] == "item_frame_set" and e[1] == id(s.cov) for e in s.log))


@contract("C15", "copy", funcs=[f"{SV}:StateVector.copy", f"{SV}:StateVector.__new__", f"{SV}:StateVector.frame.fset", f"{SV}:StateVector.form.fset"], level="proof",
          assumptions=["form conversions and the frame transformation abstracted as uninterpreted functions of the coordinates (never failing here)",
                       "attached items abstracted as objects whose copy() returns a distinct object"])
def _(c):
    """proved: copy(), copy(form=), copy(frame=), copy(form=, frame=) and copy(same=) of a StateVector and of an Orbit return a distinct object over its own memory and
    its own _data dict, whose maneuver list, covariance and propagator are private copies, in the requested form and frame (coordinates = the conversion of the
    receiver's), and never write to the receiver's memory, _data or attached items; copy(same=x) takes both from x and raises TypeError, receiver untouched, when x
    has no form/frame"""
    if not c.symbolic:
        return  # ghost forms / frames / uninterpreted conversions only exist symbolically; the bounded contracts above exercise the real objects
    orbit = bool(c.boolean("is_orbit"))
    s = _sv_setup(c, orbit=orbit, never_fail=True)
    mode = c.choice("mode", ["plain", "form", "frame", "both", "same", "same_bad", "same_form_frame_as_self"])
    F, A, B = s.forms, s.frames["A"], s.frames["B"]
    other = types.SimpleNamespace(form=F["spherical"], frame=B)
    if mode == "same_bad":
        raised = c.raises(TypeError, lambda: s.sv.copy(same=types.SimpleNamespace(frame=B)))
        c.ensure("same_without_form.raises", raised)
        c.ensure("same_without_form.receiver_untouched", s.data.writes == [] and s.store.writes == [])
        return
    new = {"plain": lambda: s.sv.copy(), "form": lambda: s.sv.copy(form="spherical"), "frame": lambda: s.sv.copy(frame=B),
           "both": lambda: s.sv.copy(form="spherical", frame="B"), "same": lambda: s.sv.copy(same=other),
           "same_form_frame_as_self": lambda: s.sv.copy(same=s.sv)}[mode]()
    _check_fresh(c, "copy", s, new, "Orbit" if orbit else "StateVector")
    nd = object.__getattribute__(new, "__dict__")
    if orbit:
        c.ensure("copy.propagator_is_a_private_copy", getattr(nd["_data"]["propagator"], "parent", None) is s.data["propagator"])
    to_form = "spherical" if mode in ("form", "both", "same") else "keplerian"
    to_frame = B if mode in ("frame", "both", "same") else A
    c.ensure("copy.form", nd["_data"]["form"] is F[to_form])
    c.ensure("copy.frame", nd["_data"]["frame"] is to_frame)
    x = s.x0
    if to_frame is B:
        x = conv("cartesian", "keplerian", transf("A", "B", conv("keplerian", "cartesian", x)), "B")
    if to_form == "spherical":
        x = conv("keplerian", "spherical", x, "B" if to_frame is B else "A")
    _eqv(c, "copy.coordinates", _coords(new), x)
    if s.cov is not None and to_frame is B:
        c.ensure("copy.covariance_of_the_copy_follows_its_frame", nd["_data"]["cov"].__dict__["frame"] is B)


@contract("C15", "as_orbit", funcs=[f"{SV}:StateVector.as_orbit", f"{ORB}:Orbit.__new__", f"{ORB}:Orbit.as_statevector", f"{ORB}:Orbit.propagator.fset"], level="proof",
          assumptions=["attached items abstracted as objects whose copy() returns a distinct object"])
def _(c):
    """proved: sv.as_orbit(p) returns an Orbit with propagator p, orb.as_statevector() a StateVector without one; both over their own memory and _data, with the same
    coordinates, form, frame, date and metadata, private copies of the maneuver list and covariance, and the receiver never written"""
    if not c.symbolic:
        return  # ghost forms / frames / uninterpreted conversions only exist symbolically; the bounded contracts above exercise the real objects
    from pyvc import sym
    if bool(c.boolean("from_orbit")):
        s = _sv_setup(c, orbit=True, never_fail=True)
        new = s.sv.as_statevector()
        _check_fresh(c, "as_statevector", s, new, "StateVector")
        nd = object.__getattribute__(new, "__dict__")
        c.ensure("as_statevector.no_propagator", "propagator" not in nd["_data"])
        label = "as_statevector"
    else:
        s = _sv_setup(c, never_fail=True)
        p = _Tok("propagator", s.log)
        new = s.sv.as_orbit(p)
        _check_fresh(c, "as_orbit", s, new, "Orbit", propagator=p)
        nd = object.__getattribute__(new, "__dict__")
        label = "as_orbit"
    _eqv(c, f"{label}.coordinates", _coords(new), s.x0)
    c.ensure(f"{label}.form_frame", nd["_data"]["form"] is s.forms["keplerian"] and nd["_data"]["frame"] is s.frames["A"])
