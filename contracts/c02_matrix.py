"""C02 (part): beyond.utils.matrix -- rot1/rot2/rot3/expand."""
import math
import numpy as np
from pyvc.contract import contract
from pyvc import sym

M = "beyond.utils.matrix"
I3 = np.identity(3).astype(int).astype(object)


def det3(R):
    return (R[0, 0] * (R[1, 1] * R[2, 2] - R[1, 2] * R[2, 1])
            - R[0, 1] * (R[1, 0] * R[2, 2] - R[1, 2] * R[2, 0])
            + R[0, 2] * (R[1, 0] * R[2, 1] - R[1, 1] * R[2, 0]))


def angle_grid(names):
    def grid(tier, rng):
        """every combination of angles from {-7, -pi, -2, -pi/2, -0.3, 0, 0.3, pi/2, 2, pi, 4, 7}"""
        vals = [-7, -math.pi, -2, -math.pi / 2, -0.3, 0, 0.3, math.pi / 2, 2, math.pi, 4, 7]
        import itertools
        for combo in itertools.product(vals, repeat=len(names)):
            yield dict(zip(names, combo))
    return grid


def _rot_contract(k):
    axis = k - 1

    @contract("C02", f"rot{k}", funcs=[f"{M}:rot{k}"], grid=angle_grid(["a", "b"]))
    def _(c):
        rot = c.fn(f"{M}:rot{k}")
        a, b = c.real("a"), c.real("b")
        R = rot(a)
        c.ensure("shape", R.shape == (3, 3))
        c.ensure("orthonormal", c.all_eq(R @ R.T, I3))
        c.ensure("det", c.eq(det3(R), 1))
        ax = np.array([1 if i == axis else 0 for i in range(3)], dtype=object)
        c.ensure("axis_fixed", c.all_eq(R @ ax, ax))
        # sense of rotation (passive): the vector at angle +a from the first transverse axis,
        # measured towards the second one, is brought onto the first transverse axis
        i1, i2 = (axis + 1) % 3, (axis + 2) % 3
        v = np.zeros(3, dtype=object)
        v[i1], v[i2] = sym.cos(a), sym.sin(a)
        e1 = np.array([1 if i == i1 else 0 for i in range(3)], dtype=object)
        c.ensure("sense", c.all_eq(R @ v, e1))
        Rb = rot(b)
        c.ensure("compose", c.all_eq(Rb @ R, rot(a + b)))
        c.ensure("inverse", c.all_eq(rot(-a), R.T))


for _k in (1, 2, 3):
    _rot_contract(_k)


def _expand_grid(tier, rng):
    """20 (quick) / 200 (thorough) seeded random draws of m (3x3), rate, r, v in [-2, 2]"""
    n = 20 if tier == "quick" else 200
    for _ in range(n):
        d = {}
        for i in range(3):
            for j in range(3):
                d[f"m{i}{j}"] = rng.uniform(-2, 2)
            d[f"w{i}"] = rng.uniform(-2, 2)
            d[f"r{i}"] = rng.uniform(-2, 2)
            d[f"v{i}"] = rng.uniform(-2, 2)
        yield d


@contract("C02", "expand", funcs=[f"{M}:expand"], grid=_expand_grid)
def _(c):
    expand = c.fn(f"{M}:expand")
    m = c.mat("m", 3, 3)
    w = c.vec("w", 3)
    r = c.vec("r", 3)
    v = c.vec("v", 3)
    x = np.concatenate([r, v])
    cross = lambda a, b: np.array([a[1] * b[2] - a[2] * b[1], a[2] * b[0] - a[0] * b[2], a[0] * b[1] - a[1] * b[0]], dtype=object)
    out = expand(m, w)
    c.ensure("shape", out.shape == (6, 6))
    y = out @ x
    mr = m @ r
    c.ensure("kin.position", c.all_eq(y[:3], mr))
    # transport theorem: v' = m v - rate x (m r), rate expressed in the target axes... the code's
    # documented convention: out[3:, :3] = -[rate]x m
    c.ensure("kin.velocity", c.all_eq(y[3:], m @ v - cross(w, mr)))
    out0 = expand(m)
    y0 = out0 @ x
    c.ensure("norate.blocks", c.all_eq(y0, np.concatenate([m @ r, m @ v])))
