"""C06: numerical propagation (beyond/propagators/keplernum.py): Butcher tableaux, RK step, acceleration."""
import ast
import itertools
import math
import types
from fractions import Fraction

import numpy as np
import z3

from pyvc.contract import contract
from pyvc import sym, loader
from pyvc.adt import SymDate, SymTimedelta, SymStateVector

KN = "beyond.propagators.keplernum"
KNC = f"{KN}:KeplerNum"


# ---------------------------------------------------------------------------------------------
# the tableaux as written in the source (AST), in exact rationals
# ---------------------------------------------------------------------------------------------

def _ast_tableaux():
    text, tree, path = loader.module_source(KN)
    cls = next(n for n in tree.body if isinstance(n, ast.ClassDef) and n.name == "KeplerNum")
    consts = {}
    butcher = None
    for st in cls.body:
        if isinstance(st, ast.Assign) and isinstance(st.targets[0], ast.Name):
            name = st.targets[0].id
            if name == "BUTCHER":
                butcher = st.value
            elif isinstance(st.value, ast.Constant):
                consts[name] = st.value.value

    def ev(n):
        if isinstance(n, ast.Constant):
            return Fraction(n.value) if isinstance(n.value, int) else n.value
        if isinstance(n, ast.Name):
            return consts[n.id]
        if isinstance(n, ast.UnaryOp) and isinstance(n.op, ast.USub):
            return -ev(n.operand)
        if isinstance(n, ast.BinOp):
            l, r = ev(n.left), ev(n.right)
            return {ast.Div: lambda: l / r, ast.Mult: lambda: l * r, ast.Add: lambda: l + r, ast.Sub: lambda: l - r}[type(n.op)]()
        if isinstance(n, ast.List):
            return [ev(x) for x in n.elts]
        if isinstance(n, ast.Call) and getattr(n.func, "id", "") == "array":
            return ev(n.args[0])
        if isinstance(n, ast.Dict):
            return {ev(k): ev(v) for k, v in zip(n.keys, n.values)}
        raise ValueError(ast.dump(n)[:80])
    return ev(butcher)


def _trees(max_order):
    """rooted trees as nested tuples of children (canonical: sorted), by order"""
    by = {1: [()]}
    for n in range(2, max_order + 1):
        out = set()
        # a tree of order n = root + multiset of subtrees with orders summing to n-1
        def parts(total, maxpart):
            if total == 0:
                yield []
                return
            for p in range(min(total, maxpart), 0, -1):
                for rest in parts(total - p, p):
                    yield [p] + rest
        for part in parts(n - 1, n - 1):
            for combo in itertools.product(*[by[p] for p in part]):
                out.add(tuple(sorted(combo)))
        by[n] = sorted(out)
    return by


def _order(t):
    return 1 + sum(_order(c) for c in t)


def _gamma(t):
    g = _order(t)
    for c in t:
        g *= _gamma(c)
    return g


def _phi(t, A, cvec, i):
    """elementary weight component: prod over children of sum_j a_ij Phi_j(child)"""
    r = Fraction(1)
    for ch in t:
        if ch == ():
            r *= cvec[i]
        else:
            r *= sum((A[i][j] * _phi(ch, A, cvec, j) for j in range(len(A[i]))), Fraction(0))
    return r


def _tree_name(t):
    return "[" + "".join(_tree_name(c) for c in t) + "]"


EXPECTED_ORDER = {"euler": (1, None), "rk4": (4, None), "rkf54": (5, 4), "dopri54": (5, 4)}


@contract("C06", "tableau", funcs=[f"{KNC}.BUTCHER (class data)"], level="proof")
def _(c):
    """rooted-tree order conditions (exact rationals, on the tableau expressions as written in the source):
    euler order 1, rk4 order 4, rkf54 and dopri54: b order 5, b_star order 4; c_i = sum_j a_ij; DOPRI's last row = b"""
    if not c.symbolic:
        return
    tabs = _ast_tableaux()
    trees = _trees(5)
    meta = {"decided_by": "exact-rational"}
    for method, (pb, pstar) in EXPECTED_ORDER.items():
        t = tabs[method]
        b, cvec = list(t["b"]), list(t["c"])
        s = len(b)
        A = [list(row) + [Fraction(0)] * (s - len(row)) for row in (t["a"] if t["a"] else [[]])]
        while len(A) < s:
            A.append([Fraction(0)] * s)
        A = [row[:s] for row in A]
        for i in range(s):
            c.run.oblige(f"{method}.rowsum.{i}", "post", z3.BoolVal(sum(A[i], Fraction(0)) == cvec[i]), using=[], meta=dict(meta))
            c.run.oblige(f"{method}.explicit.{i}", "post", z3.BoolVal(all(A[i][j] == 0 for j in range(i, s))), using=[], meta=dict(meta))
        for weights, p, tag in ((b, pb, "b"), (list(t.get("b_star", [])), pstar, "b_star")):
            if p is None:
                continue
            for order in range(1, p + 1):
                for tr in trees[order]:
                    lhs = sum((weights[i] * _phi(tr, A, cvec, i) for i in range(s)), Fraction(0))
                    c.run.oblige(f"{method}.{tag}.order{order}.{_tree_name(tr)}", "post", z3.BoolVal(lhs == Fraction(1, _gamma(tr))), using=[],
                                 meta=dict(meta, lhs=str(lhs), rhs=str(Fraction(1, _gamma(tr)))))
        if "b_star" in t:
            # the embedded pair must really differ (otherwise the error estimate is identically zero)
            c.run.oblige(f"{method}.embedded_differs", "post", z3.BoolVal(list(t["b"]) != list(t["b_star"])), using=[], meta=dict(meta))
    d = tabs["dopri54"]
    c.run.oblige("dopri54.fsal", "post", z3.BoolVal(list(d["a"][-1]) + [Fraction(0)] == list(d["b"])), using=[], meta=dict(meta))
    # the tableau that runs (floats in the imported class) is the nearest-double image of the source rationals
    from beyond.propagators.keplernum import KeplerNum
    ok = True
    for method, t in tabs.items():
        rt = KeplerNum.BUTCHER[method]
        for key in ("b", "c", "b_star"):
            if key in t:
                ok = ok and all(float(x) == float(y) for x, y in zip(t[key], np.asarray(rt[key]).tolist()))
        for ra, rr in zip(t["a"], rt["a"]):
            ok = ok and all(float(x) == float(y) for x, y in zip(ra, np.asarray(rr).tolist()))
    c.run.oblige("runtime_equals_source", "post", z3.BoolVal(bool(ok)), using=[], meta=dict(meta))


# ---------------------------------------------------------------------------------------------
# one RK step = the tableau formula, for an arbitrary pure right-hand side
# ---------------------------------------------------------------------------------------------

def _f(t, y):
    return np.array([sym.uf(f"f{j}", t, *y) for j in range(6)], dtype=object)


def _accel_stub(self, orb):
    return _f(orb.date.t, list(np.asarray(orb)))


def _num(x):
    return sym.SReal(sym.rv(sym.to_fraction(float(x))))


@contract("C06", "step.fixed", funcs=[f"{KNC}._make_step", f"{KNC}.butcher"],
          assumptions=["callee contract: _accel(orb) is a pure function of (orb.date, orb coordinates) -- uninterpreted", "StateVector ADT (copy, arithmetic keeps metadata)"])
def _(c):
    """non-adaptive methods: y1 = y0 + h sum_i b_i k_i with k_i = f(t0 + c_i h, y0 + h sum_j a_ij k_j); date1 = date0 + h;
    the returned step is the requested one; the input state is not modified"""
    if not c.symbolic:
        return
    method = c.choice("method", ["euler", "rk4"])
    y0 = c.vec("y", 6)
    t0, h = c.real("t0"), c.real("h")
    w = c.world(stubs={f"{KNC}._accel": _accel_stub})
    user = SymStateVector(list(y0), date=SymDate(t0), form="cartesian", frame="EME2000", maneuvers=[])
    kn = w.obj(KNC, method=method, _orbit=user, tol=None, step=SymTimedelta(h))
    orb = SymStateVector(list(y0), date=SymDate(t0), form="cartesian", frame="EME2000")
    step, y1 = kn._make_step(orb, SymTimedelta(h))
    from beyond.propagators.keplernum import KeplerNum
    tab = KeplerNum.BUTCHER[method]
    b, cc = [_num(x) for x in np.asarray(tab["b"])], [_num(x) for x in np.asarray(tab["c"])]
    A = [[_num(x) for x in np.asarray(r)] for r in tab["a"]] if len(tab["a"]) else [[]]
    ks = []
    for i in range(len(b)):
        yi = list(y0)
        for j in range(min(i, len(A[i]) if i < len(A) else 0)):
            yi = [yi[k] + h * A[i][j] * ks[j][k] for k in range(6)]
        ks.append(_f(t0 + cc[i] * h, yi))
    want = [y0[k] + h * sum((b[i] * ks[i][k] for i in range(len(b))), 0) for k in range(6)]
    c.ensure("formula", c.all_eq(np.asarray(y1), np.array(want, dtype=object)))
    c.ensure("date", y1.date.t == t0 + h)
    c.ensure("step_returned", step.total_seconds() == h)
    c.ensure("input_untouched", sym.And(c.all_eq(np.asarray(orb), y0), orb.date.t == t0))


def _impulse_body(c):
    """an impulsive maneuver is added to the velocity at the end of exactly the step whose window (date, date + actual step] holds its
    date -- the window is that of the step actually taken, not of the propagator's nominal step"""
    if not c.symbolic:
        return
    from beyond.orbits.man import ImpulsiveMan
    y0 = c.vec("y", 6)
    t0, h, d = c.real("t0"), c.real("h", lo=0), c.real("d")
    hnom = c.real("h_nominal", lo=0)
    dv = c.vec("dv", 3)
    w = c.world(stubs={f"{KNC}._accel": _accel_stub})
    man = ImpulsiveMan(SymDate(d), dv)
    user = SymStateVector(list(y0), date=SymDate(t0), form="cartesian", frame="EME2000", maneuvers=[man])
    kn = w.obj(KNC, method="euler", _orbit=user, tol=None, step=SymTimedelta(hnom))
    orb = SymStateVector(list(y0), date=SymDate(t0), form="cartesian", frame="EME2000")
    step, y1 = kn._make_step(orb, SymTimedelta(h))
    k0 = _f(t0, list(y0))
    base = [y0[k] + h * k0[k] for k in range(6)]
    inside = sym.And(t0 < d, d <= t0 + h)
    for k in range(3):
        c.ensure(f"position.{k}", y1[k] == base[k])
        c.ensure(f"velocity.{k}", y1[3 + k] == sym.ite(inside, base[3 + k] + dv[k], base[3 + k]))


_IMP_ASSUME = ["callee contracts: _accel pure; ImpulsiveMan.check window (C17.man.once); ImpulsiveMan.dv (C17.man.dv)"]
contract("C06", "step.impulse", funcs=[f"{KNC}._make_step"], assumptions=_IMP_ASSUME)(_impulse_body)
contract("C17", "num.impulse_window", funcs=[f"{KNC}._make_step"], assumptions=_IMP_ASSUME)(_impulse_body)


@contract("C06", "step.adaptive", funcs=[f"{KNC}._make_step"],
          assumptions=["callee contract: _accel pure (uninterpreted)", "only the accept-at-first-try path is proved; step rejection/adaptation is exercised by the bounded stand-in"])
def _(c):
    """adaptive methods: error estimate = h sum (b_i - b*_i) k_i; accepted iff |err[:3]| <= tol, then y1 uses the higher
    order weights b; on rejection the step becomes min(step_max, h (tol / 2 err)^(1/(s-1)))"""
    if not c.symbolic:
        return
    method = c.choice("method", ["rkf54", "dopri54"])
    accept = "accepted"  # the rejected/retry branch (10 tries, nested min/root) is covered by the bounded stand-in only
    y0 = c.vec("y", 6)
    t0, h, tol = c.real("t0"), c.real("h", lo=0), c.real("tol", lo=0)
    hmax = c.real("hmax", lo=0)
    from beyond.propagators.keplernum import KeplerNum
    tab = KeplerNum.BUTCHER[method]
    b, bs, cc = ([_num(x) for x in np.asarray(tab[k])] for k in ("b", "b_star", "c"))
    # the code forms (b - b_star) in floating point before meeting symbolic values; S1 reads that float as a real
    dbs = [_num(x) for x in (np.asarray(tab["b"]) - np.asarray(tab["b_star"]))]
    A = [[_num(x) for x in np.asarray(r)] for r in tab["a"]]

    def stage(hh):
        # the Runge-Kutta formulas, written with numpy on the runtime tableau so that sums associate as in the code
        # (association is mathematically immaterial; it keeps the path condition on |err| syntactically decidable)
        aa, bb, bst, cv = tab["a"], np.asarray(tab["b"]), np.asarray(tab["b_star"]), np.asarray(tab["c"])
        y0a = np.array(list(y0), dtype=object)
        ks = [_f(t0, list(y0a))]
        for a_, c_ in zip(aa[1:], cv[1:]):
            yi = y0a + np.asarray(a_) @ ks * hh
            ks.append(_f(t0 + hh * float(c_), list(yi)))
        y1 = y0a + hh * bb @ ks
        err = (hh * (bb - bst) @ ks)[:3]
        return ks, list(err), list(y1)
    ks, err, y1w = stage(h)
    perr = sym.sqrt(err[0] * err[0] + err[1] * err[1] + err[2] * err[2])
    if accept == "accepted":
        c.require(perr <= tol, "accepted")
    else:
        c.require(perr > tol, "rejected")
    w = c.world(stubs={f"{KNC}._accel": _accel_stub})
    user = SymStateVector(list(y0), date=SymDate(t0), form="cartesian", frame="EME2000", maneuvers=[])
    kn = w.obj(KNC, method=method, _orbit=user, tol=tol, step=SymTimedelta(hmax))
    orb = SymStateVector(list(y0), date=SymDate(t0), form="cartesian", frame="EME2000")
    if accept == "accepted":
        step, y1 = kn._make_step(orb, SymTimedelta(h))
        c.ensure("accepted.formula", c.all_eq(np.asarray(y1), np.array(y1w, dtype=object)))
        c.ensure("accepted.step", step.total_seconds() == h)
        c.ensure("accepted.date", y1.date.t == t0 + h)
    else:
        # second try with the reduced step: require it to be accepted, then check which step was used
        expo = sym.Fraction(1, len(b) - 1)
        ratio = sym.power(tol / (2 * perr), expo)
        h2 = sym.ite(hmax < h * ratio, hmax, h * ratio)
        ks2, err2, y2w = stage(h2)
        perr2 = sym.sqrt(err2[0] * err2[0] + err2[1] * err2[1] + err2[2] * err2[2])
        c.require(perr2 <= tol, "second_try_accepted")
        step, y1 = kn._make_step(orb, SymTimedelta(h))
        c.ensure("rejected.new_step", step.total_seconds() == h2)
        c.ensure("rejected.date", y1.date.t == t0 + h2)
        c.ensure("rejected.formula", c.all_eq(np.asarray(y1), np.array(y2w, dtype=object)))


@contract("C06", "accel", funcs=[f"{KNC}._accel"],
          assumptions=["callee contracts: body.propagate(date) gives the body's state (re-expressed in the orbit's frame by the frame setter); ContinuousMan.check/accel (C17)"])
def _(c):
    """d/dt [r; v] = [v; sum_b mu_b (r_b - r)/|r_b - r|^3 + active continuous thrust]"""
    if not c.symbolic:
        return
    from beyond.orbits.man import ContinuousMan
    y = c.vec("y", 6)
    t = c.real("t")
    nb = c.choice("bodies", [1, 2])
    bodies, pos, mus = [], [], []
    for k in range(nb):
        p = c.vec(f"b{k}", 3)
        mu = c.real(f"mu{k}", lo=0)
        d2 = sum(((p[i] - y[i]) * (p[i] - y[i]) for i in range(3)), 0)
        c.require(d2 > 0, "not_at_body_centre")
        st = SymStateVector(list(p) + [0, 0, 0], date=SymDate(t), form="cartesian", frame="BODYFRAME")
        bodies.append(types.SimpleNamespace(propagate=(lambda d, st=st: st), µ=mu, mu=mu))
        pos.append(p)
        mus.append(mu)
    thrust = c.vec("a", 3)
    ms, mdur = c.real("ms"), c.real("mdur", lo=0)
    man = ContinuousMan(SymDate(ms), SymTimedelta(mdur), accel=thrust)
    user = SymStateVector(list(y), date=SymDate(0), form="cartesian", frame="EME2000", maneuvers=[man])
    w = c.world()
    kn = w.obj(KNC, bodies=bodies, _orbit=user)
    orb = SymStateVector(list(y), date=SymDate(t), form="cartesian", frame="EME2000")
    out = kn._accel(orb)
    c.ensure("kinematic", c.all_eq(out[:3], y[3:]))
    active = sym.And(ms <= t, t < ms + mdur)
    for i in range(3):
        g = 0
        for k in range(nb):
            d2 = sum(((pos[k][j] - y[j]) * (pos[k][j] - y[j]) for j in range(3)), 0)
            n = sym.sqrt(d2)
            g = g + mus[k] * (pos[k][i] - y[i]) / (n * n * n)
        c.ensure(f"newton.{i}", out[3 + i] == sym.ite(active, g + thrust[i], g), budget_ms=60000)
    c.ensure("input_untouched", c.all_eq(np.asarray(orb), y))


# ---------------------------------------------------------------------------------------------
# bounded stand-ins: observed order, adaptive error, invariants, independence from output step
# ---------------------------------------------------------------------------------------------

def _orbit(kind, method, step, tol=1e-3):
    from beyond.orbits import Orbit
    from beyond.dates import Date, timedelta
    from beyond.propagators.keplernum import KeplerNum
    from beyond.env.solarsystem import get_body
    from beyond.constants import Earth
    from contracts.c19_mission import _kep2cart
    a, e, i, O, w, nu = {"iss": (6.8e6, 0.001, 0.9, 1.0, 2.0, 0.5), "molniya": (2.66e7, 0.72, 1.1, 2.0, 4.7, 2.8), "gto": (2.45e7, 0.72, 0.1, 0.5, 3.0, 1.0)}[kind]
    r0, v0 = _kep2cart(a, e, i, O, w, nu, Earth.mu)
    d0 = Date(2018, 5, 4)
    prop = KeplerNum(timedelta(seconds=step), get_body("Earth"), method=method, tol=tol)
    orb = Orbit(list(r0) + list(v0), d0, "cartesian", "EME2000", prop)
    T = 2 * math.pi * math.sqrt(a ** 3 / Earth.mu)
    return orb, r0, v0, d0, T, Earth.mu


def _grid_order(tier, rng):
    """methods {euler, rk4} x ISS-like orbit x spans {0.25, 0.6 orbit} x step ladders {120,60,30,15} and {60,30,15,7.5} s"""
    for method in ("euler", "rk4"):
        for span in (0.25, 0.6):
            for ladder in (0, 1):
                yield {"method": 0 if method == "euler" else 1, "span": span, "ladder": ladder}


@contract("C06", "order.observed", funcs=[f"{KNC}._iter", f"{KNC}._make_step", f"{KNC}._accel"], grid=_grid_order, level="bounded")
def _(c):
    """bounded: halving the step divides the error against the independent two-body solution by 2^p within a
    factor 1.6 (euler p=1, rk4 p=4), for a point-mass Earth"""
    from beyond.dates import timedelta
    from contracts import twobody
    method = ["euler", "rk4"][c.integer("method")]
    p = 1 if method == "euler" else 4
    steps = [[120, 60, 30, 15], [60, 30, 15, 7.5]][c.integer("ladder")]
    errs = []
    for st in steps:
        orb, r0, v0, d0, T, mu = _orbit("iss", method, st)
        n = round(c.real("span") * T / 120) * 120  # a multiple of every step: no interpolation involved
        res = orb.propagate(d0 + timedelta(seconds=n))
        rr, vv = twobody.propagate(r0, v0, n, mu)
        errs.append(float(np.linalg.norm(np.asarray(res[:3], dtype=float) - rr)))
    ratios = [errs[k] / errs[k + 1] for k in range(len(errs) - 1) if errs[k + 1] > 1e-4]
    c.ensure("enough_resolution", len(ratios) >= 2)
    c.ensure("order", all(2 ** p / 1.6 <= r <= 2 ** p * 1.6 for r in ratios))
    c.ensure("converges", errs[-1] < errs[0])


def _grid_adapt(tier, rng):
    """methods {rkf54, dopri54} x orbits {iss, molniya, gto} x tol {1e-3, 1e-5} x requested step {60, 120} s x direction {forward, backward}"""
    for m in (0, 1):
        for o in (0, 1, 2):
            for tol in (1e-3, 1e-5):
                for st in (60.0, 120.0):
                    for back in (0, 1):
                        yield {"method": m, "orbit": o, "tol": tol, "step": st, "back": back}


@contract("C06", "adaptive.error", funcs=[f"{KNC}._make_step"], grid=_grid_adapt, level="bounded")
def _(c):
    """bounded: along 40 consecutive adaptive steps the local error of each accepted step (against the exact two-body
    flow from the step's own start state) stays below 5 x tol; the step never exceeds the requested one"""
    from contracts import twobody
    method = ["rkf54", "dopri54"][c.integer("method")]
    kind = ["iss", "molniya", "gto"][c.integer("orbit")]
    tol, st = c.real("tol"), c.real("step")
    orb, r0, v0, d0, T, mu = _orbit(kind, method, st, tol)
    prop = orb.propagator
    prop.orbit = orb
    y = prop.orbit
    worst, over = 0.0, False
    sgn = -1 if c.integer("back") else 1     # (backward targets are reached by stepping with the negated step)
    for _ in range(40):
        step, y1 = prop._make_step(y, sgn * prop.step)
        h = step.total_seconds()
        rr, vv = twobody.propagate(np.asarray(y[:3], dtype=float), np.asarray(y[3:], dtype=float), h, mu)
        worst = max(worst, float(np.linalg.norm(np.asarray(y1[:3], dtype=float) - rr)))
        over = over or sgn * h > st + 1e-9 or sgn * h <= 0
        y = y1
    c.ensure("local_error", worst <= 5 * tol)
    c.ensure("step_bounded", not over)


def _grid_inv(tier, rng):
    """methods {rk4@30s, rkf54, dopri54} x orbits {iss, molniya} x span 3 orbits forward"""
    for m in (0, 1, 2):
        for o in (0, 1):
            yield {"method": m, "orbit": o}


@contract("C06", "invariants", funcs=[f"{KNC}._iter"], grid=_grid_inv, level="bounded")
def _(c):
    """bounded: over 3 orbits energy and angular momentum drift stay below the bound implied by the global error
    (1e-7 relative), and the final state is within 100 m (rk4@30 s) / 20 m (adaptive, tol 1e-3... per step) of the two-body solution"""
    from beyond.dates import timedelta
    from contracts import twobody
    method, st = [("rk4", 30.0), ("rkf54", 60.0), ("dopri54", 60.0)][c.integer("method")]
    kind = ["iss", "molniya"][c.integer("orbit")]
    orb, r0, v0, d0, T, mu = _orbit(kind, method, st, 1e-4)
    n = round(3 * T / 120) * 120
    res = np.asarray(orb.propagate(d0 + timedelta(seconds=n)), dtype=float)
    E = lambda r, v: v @ v / 2 - mu / np.linalg.norm(r)
    c.ensure("energy", abs(E(res[:3], res[3:]) / E(r0, v0) - 1) < 1e-7)
    h0, h1 = np.cross(r0, v0), np.cross(res[:3], res[3:])
    c.ensure("angular_momentum", np.linalg.norm(h1 - h0) / np.linalg.norm(h0) < 1e-7)
    rr, vv = twobody.propagate(r0, v0, n, mu)
    c.ensure("global_error", np.linalg.norm(res[:3] - rr) < 100.0)


def _grid_split(tier, rng):
    """methods {rk4, dopri54} x orbit iss x target offsets {+-0.3, +-1.1, +-2.9 orbits, and off-grid +1234.567 s} x output steps {17 s, 60 s, 300 s}"""
    for m in (0, 1):
        for f in (-2.9, -1.1, -0.3, 0.3, 1.1, 2.9, "off"):
            for out in (17.0, 60.0, 300.0):
                yield {"method": m, "frac": f if f != "off" else 0.0, "off": 1 if f == "off" else 0, "out": out}


@contract("C06", "split_independence", funcs=[f"{KNC}._iter", "beyond.propagators.base:NumericalPropagator.propagate", "beyond.propagators.base:NumericalPropagator.iter"],
          grid=_grid_split, level="bounded")
def _(c):
    """bounded: the state returned for a date does not depend on the output step nor on propagate-vs-iterate
    (<= 2 cm: the property's "few millimetres" of interpolation error, observed up to 7 mm), forwards and backwards (backward targets reached by propagate)"""
    from beyond.dates import timedelta
    method = ["rk4", "dopri54"][c.integer("method")]
    orb, r0, v0, d0, T, mu = _orbit("iss", method, 60.0, 1e-4)
    dt = 1234.567 if c.integer("off") else round(c.real("frac") * T)
    target = d0 + timedelta(seconds=dt)
    direct = np.asarray(orb.propagate(target), dtype=float)
    again = np.asarray(orb.propagate(target), dtype=float)
    c.ensure("repeatable", bool(np.array_equal(direct, again)))
    if dt > 0:
        out = c.real("out")
        pts = list(orb.iter(stop=target, step=timedelta(seconds=out)))
        k = len(pts) - 1
        # (dates beyond an off-grid stop are C08's listed finding; here only: the iteration is not cut short)
        c.ensure("iteration_reaches_stop", (pts[-1].date - d0).total_seconds() >= math.floor(dt / out + 1e-9) * out - 1e-5)
        via = np.asarray(orb.propagate(pts[k].date), dtype=float)
        c.ensure("iter_vs_propagate", bool(np.linalg.norm(np.asarray(pts[k][:3], dtype=float) - via[:3]) <= 2e-2))
        mid = pts[len(pts) // 2]
        via2 = np.asarray(orb.propagate(mid.date), dtype=float)
        c.ensure("iter_vs_propagate.mid", bool(np.linalg.norm(np.asarray(mid[:3], dtype=float) - via2[:3]) <= 2e-2))
    c.ensure("initial_untouched", bool(np.array_equal(np.asarray(orb, dtype=float), np.array(list(r0) + list(v0))) and orb.date == d0))



def _grid_short(tier, rng):
    """methods {rk4, dopri54} (nominal step 60 s) x iteration spans of {0.5, 1, 2, 3, 5, 6.5} integration steps x output step {10 s, 25 s} or an explicit list of
    three dates inside the span"""
    for m in (0, 1):
        for k in (0.5, 1, 2, 3, 5, 6.5):
            for mode in (0, 1, 2):
                yield {"method": m, "k": k, "mode": mode}


@contract("C06", "short_spans", funcs=[f"{KNC}._iter", "beyond.propagators.base:NumericalPropagator.iter"], grid=_grid_short, level="bounded")
def _(c):
    """bounded: an iteration over a span shorter than the interpolation window (fewer than 8 integration steps) with an output step of its own, or over an explicit
    list of dates, is either refused (ValueError: too few points to interpolate -- the behaviour of the pinned tree, C08's listed finding) or yields, for every date,
    the state a direct propagation to that date returns (2 cm): never a state interpolated from too few points"""
    from beyond.dates import timedelta
    method = ["rk4", "dopri54"][c.integer("method")]
    orb, r0, v0, d0, T, mu = _orbit("iss", method, 60.0, 1e-4)
    span = c.real("k") * 60.0
    mode = c.integer("mode")
    try:
        if mode == 2:
            pts = list(orb.iter(dates=[d0 + timedelta(seconds=span * f) for f in (0.17, 0.5, 0.93)]))
        else:
            pts = list(orb.iter(stop=d0 + timedelta(seconds=span), step=timedelta(seconds=[10.0, 25.0][mode])))
    except ValueError as e:
        c.ensure("refused_or_same_as_propagate", "interpolate" in str(e))
        return
    worst = 0.0
    for p_ in pts:
        via = np.asarray(orb.propagate(p_.date), dtype=float)
        worst = max(worst, float(np.linalg.norm(np.asarray(p_[:3], dtype=float) - via[:3])))
    c.ensure("refused_or_same_as_propagate", worst <= 2e-2)

def _grid_near(tier, rng):
    """methods {rk4, rkf54, dopri54} (nominal step 60 s) x targets at k steps from the epoch, k in {+-1, +-2, +-3, +-6, +-7, +-8, +-0.5, +-1.5, +-6.25} (on and off the
    integration grid, inside and outside the 8-point interpolation window), forwards and backwards"""
    for m in range(3):
        for k in (1, 2, 3, 6, 7, 8, 0.5, 1.5, 6.25):
            for sgn in (1, -1):
                yield {"method": m, "k": k * sgn}


@contract("C06", "near_targets", funcs=[f"{KNC}._iter", "beyond.propagators.base:NumericalPropagator.propagate"], grid=_grid_near, level="bounded")
def _(c):
    """bounded: a target a few integration steps from the epoch (where the internal ephemeris is padded for the interpolation) is answered with the state *at that date*:
    the returned date is the requested one, the position agrees with the independent two-body solution within 1 m (point-mass Earth; the integration error over a few 60 s
    steps is millimetres), and iterating from that date starts with the same state"""
    from beyond.dates import timedelta
    from contracts import twobody
    method = ["rk4", "rkf54", "dopri54"][c.integer("method")]
    orb, r0, v0, d0, T, mu = _orbit("iss", method, 60.0, 1e-4)
    dt = c.real("k") * 60.0
    target = d0 + timedelta(seconds=dt)
    got = orb.propagate(target)
    c.ensure("date_is_the_requested_one", abs((got.date - target).total_seconds()) < 1e-6)
    rr, vv = twobody.propagate(r0, v0, dt, mu)
    c.ensure("state_at_that_date", bool(np.linalg.norm(np.asarray(got[:3], dtype=float) - rr) <= 1.0 and np.linalg.norm(np.asarray(got[3:], dtype=float) - vv) <= 1e-2))
    if dt > 0:
        first = next(iter(orb.iter(start=target, stop=target + timedelta(seconds=600), step=timedelta(seconds=60))))
        c.ensure("iteration_from_that_date_starts_there", abs((first.date - target).total_seconds()) < 1e-6
                 and bool(np.linalg.norm(np.asarray(first[:3], dtype=float) - np.asarray(got[:3], dtype=float)) <= 2e-2))


# ---------------------------------------------------------------------------------------------
# the tolerance is the orbit's: a copy of the orbit, and the orbit a propagation returns, integrate with it
# ---------------------------------------------------------------------------------------------

def _grid_tolkept(tier, rng):
    """adaptive methods {rkf54, dopri54} x tolerances {1e-6, 1e-9} (other than the default 1e-3) x orbits {iss, gto} x requested step {60, 120} s"""
    for m in (0, 1):
        for tol in (1e-6, 1e-9):
            for o in (0, 1):
                yield {"method": m, "tol": tol, "orbit": o, "step": (60.0, 120.0)[(m + o) % 2]}


@contract("C06", "tolerance_kept", funcs=[f"{KNC}.copy", f"{KNC}._make_step", "beyond.propagators.base:NumericalPropagator.propagate"], grid=_grid_tolkept, level="bounded")
def _(c):
    """bounded: with a tolerance other than the default, (i) a copy of the orbit propagates to exactly the state the orbit itself propagates to, (ii) the request split in two
    -- propagate to a third of the span, then propagate the RETURNED orbit to the end -- stays within the adaptive bound of the direct request (a small multiple of the
    tolerance per step: 5 x tol x number of steps, + 15 mm: two paths of a few hundred steps whose dates are held to the microsecond differ by millimetres), and (iii) the orbits handed back integrate with the tolerance given (each adaptive step of theirs within 5 x tol)"""
    from contracts import twobody
    from beyond.dates import timedelta
    method = ["rkf54", "dopri54"][c.integer("method")]
    kind = ["iss", "gto"][c.integer("orbit")]
    tol, st = c.real("tol"), c.real("step")
    orb, r0, v0, d0, T, mu = _orbit(kind, method, st, tol)
    span = 1.5 * T if kind == "iss" else 0.4 * T
    end = d0 + timedelta(seconds=span)
    direct = np.asarray(orb.propagate(end), dtype=float)
    cp = np.asarray(orb.copy().propagate(end), dtype=float)
    c.ensure("a_copy_propagates_to_the_same_state", bool(np.array_equal(cp, direct)))
    mid = orb.propagate(d0 + timedelta(seconds=span / 3))
    chained = np.asarray(mid.propagate(end), dtype=float)
    nsteps = span / st * 3      # (rejected steps shrink the step: allow three times the nominal count)
    c.ensure("split_request_within_the_adaptive_bound", bool(np.linalg.norm(chained[:3] - direct[:3]) <= 5 * tol * nsteps + 15e-3))
    # the returned orbit's own steps
    p2 = mid.propagator
    p2.orbit = mid
    y = p2.orbit
    worst = 0.0
    for _ in range(20):
        step, y1 = p2._make_step(y, p2.step)
        rr, vv = twobody.propagate(np.asarray(y[:3], dtype=float), np.asarray(y[3:], dtype=float), step.total_seconds(), mu)
        worst = max(worst, float(np.linalg.norm(np.asarray(y1[:3], dtype=float) - rr)))
        y = y1
    c.ensure("returned_orbit_steps_within_5_tol", worst <= 5 * tol)
