"""C05: Kepler and J2 analytical propagators (beyond/propagators/kepler.py, j2.py), Infos.n."""
import math
import types

import numpy as np

from pyvc.contract import contract
from pyvc import sym
from pyvc.adt import SymDate, SymTimedelta, SymStateVector
from contracts import twobody
from contracts.c19_mission import _kep2cart

KEP = "beyond.propagators.kepler"
J2M = "beyond.propagators.j2"
SV = "beyond.orbits.statevector"
F32, F34 = sym.Fraction(3, 2), sym.Fraction(3, 4)


class _Converted:
    """result of StateVector.copy(form='cartesian') under the ADT: the cartesian image of the mean elements;
    the elements it was converted from stay observable to the contract"""

    def __init__(self, src):
        self.elements = np.asarray(src).copy()
        self.date = src.date
        self.form = "cartesian"
        self.frame = src.frame


def _mean_orbit(c, el, t0, n):
    def conv(self, frame=None, form=None, same=None):
        return _Converted(self)
    # the instantaneous radius is some positive real unrelated to the elements as far as the rates are concerned
    infos = types.SimpleNamespace(n=n, r=c.real("r_inst", lo=0))
    return SymStateVector(list(el), date=SymDate(t0), form="keplerian_mean", frame="EME2000", infos=infos, __convert__=conv)


@contract("C05", "infos.n", funcs=[f"{SV}:Infos.n"])
def _(c):
    """mean motion n = sqrt(mu / |a|^3), for bound and unbound orbits"""
    if not c.symbolic:
        return
    mu, a = c.real("mu", lo=0), c.real("a")
    c.require(a != 0)
    w = c.world()
    body = types.SimpleNamespace(mu=mu)
    orb = types.SimpleNamespace(frame=types.SimpleNamespace(center=types.SimpleNamespace(body=body)))
    inf = w.obj(f"{SV}:Infos", orb=orb, _kep=types.SimpleNamespace(a=a))
    n = inf.n
    c.ensure("def", sym.And(n > 0, n * n * abs(a) * abs(a) * abs(a) == mu))


@contract("C05", "kepler", funcs=[f"{KEP}:Kepler.propagate", f"{KEP}:Kepler.orbit.fset", f"{KEP}:Kepler.orbit.fget"],
          assumptions=["StateVector ADT: copy() is a fresh equal state; copy(form=...) converts through Form.__call__ (C01 contracts)",
                       "callee contract: orbit.infos.n is the mean motion of the bound orbit (C05.infos.n)"])
def _(c):
    """a, e, i, node, perigee unchanged; M advanced by n*dt; result dated at the requested date; composition,
    inverse and periodicity follow; the bound orbit is not modified"""
    if not c.symbolic:
        return
    el = c.vec("el", 6)
    n = c.real("n", lo=0)
    t0, t1, t2 = c.real("t0"), c.real("t1"), c.real("t2")
    w = c.world()
    kp = w.obj(f"{KEP}:Kepler")
    user_orbit = _mean_orbit(c, el, t0, n)
    kp.orbit = user_orbit  # setter
    bound = object.__getattribute__(kp, "__dict__")["_orbit"]
    c.ensure("setter.copies", bool(bound is not user_orbit) and c.all_eq(np.asarray(bound), el))
    bound._data["infos"] = types.SimpleNamespace(n=n)
    bound._data["__convert__"] = user_orbit._data["__convert__"]
    res = kp.propagate(SymDate(t1))
    c.ensure("elements_kept", c.all_eq(res.elements[:5], el[:5]))
    c.ensure("mean_anomaly", res.elements[5] == el[5] + n * (t1 - t0))
    c.ensure("date", res.date.t == t1)
    c.ensure("form", res.form == "cartesian")
    c.ensure("bound_orbit_untouched", sym.And(c.all_eq(np.asarray(bound), el), bound.date.t == t0))
    # composition (re-binding goes through cartesian -> keplerian_mean, the identity on elements by C01's round trips)
    kp2 = w.obj(f"{KEP}:Kepler")
    mid = _mean_orbit(c, res.elements, t1, n)
    kp2.orbit = mid
    b2 = object.__getattribute__(kp2, "__dict__")["_orbit"]
    b2._data["infos"] = types.SimpleNamespace(n=n)
    b2._data["__convert__"] = user_orbit._data["__convert__"]
    res2 = kp2.propagate(SymDate(t2))
    direct = kp.propagate(SymDate(t2))
    c.ensure("compose", c.all_eq(res2.elements, direct.elements))
    back = kp2.propagate(SymDate(t0))
    c.ensure("inverse", c.all_eq(back.elements, el))
    # periodicity: dt = 2 pi / n
    c.run.trig_resolve = True
    per = kp.propagate(SymDate(t0 + 2 * c.pi / n))
    c.ensure("periodic", sym.And(sym.cos(per.elements[5]) == sym.cos(el[5]), sym.sin(per.elements[5]) == sym.sin(el[5])))
    # timedelta argument
    res3 = kp.propagate(SymDate(t0 + (t1 - t0)))
    c.ensure("deterministic", c.all_eq(res3.elements, res.elements))


@contract("C05", "j2", funcs=[f"{J2M}:J2.propagate", f"{J2M}:J2.orbit.fset"],
          assumptions=["StateVector ADT (copy / copy(form=)); callee contract infos.n",
                       "Earth constants mu, r, J2 arbitrary positive reals in the proof (so it holds for the library's)"])
def _(c):
    """a, e, i constant; node, perigee and mean anomaly drift linearly at the first-order secular J2 rates
    (Vallado 9-37..9-41); no node drift on a polar orbit; no perigee drift at the critical inclination"""
    if not c.symbolic:
        return
    a, e, i = c.real("a", lo=0), c.real("e", lo=0, hi=1, lo_strict=False), c.real("i")
    O, wp, M = c.real("raan"), c.real("argp"), c.real("M")
    n = c.real("n", lo=0)
    t0, t1 = c.real("t0"), c.real("t1")
    R, J2 = c.real("R", lo=0), c.real("J2", lo=0)
    earth = types.SimpleNamespace(mu=c.real("mu", lo=0), r=R, J2=J2)
    w = c.world(names={J2M: {"Earth": earth}})
    jp = w.obj(f"{J2M}:J2")
    el = np.array([a, e, i, O, wp, M], dtype=object)
    user = _mean_orbit(c, el, t0, n)
    jp.orbit = user
    bound = object.__getattribute__(jp, "__dict__")["_orbit"]
    bound._data["infos"] = types.SimpleNamespace(n=n, r=c.real("r_inst", lo=0))
    bound._data["__convert__"] = user._data["__convert__"]
    res = jp.propagate(SymDate(t1))
    dt = t1 - t0
    p = a * (1 - e * e)
    k = n * J2 * (R / p) * (R / p)
    si2 = sym.sin(i) * sym.sin(i)
    rate_O = -sym.SReal(sym.rv(F32)) * k * sym.cos(i)
    rate_w = sym.SReal(sym.rv(F34)) * k * (4 - 5 * si2)
    rate_M = n + sym.SReal(sym.rv(F34)) * k * sym.sqrt(1 - e * e) * (2 - 3 * si2)
    c.ensure("aei_kept", c.all_eq(res.elements[:3], el[:3]))
    mi = c.run.modinfo
    for idx, name, x0, rate in ((3, "node", O, rate_O), (4, "perigee", wp, rate_w), (5, "mean_anomaly", M, rate_M)):
        r_ = res.elements[idx]
        pre, mod_, _k = mi[str(r_.e)]
        c.ensure(f"{name}.linear_drift", sym.SReal(pre) == x0 + rate * dt, budget_ms=60000)
        c.ensure(f"{name}.reduced", sym.And(r_ >= 0, r_ < 2 * c.pi, sym.SReal(mod_) == 2 * c.pi))
    c.ensure("date", res.date.t == t1)
    c.ensure("bound_orbit_untouched", sym.And(c.all_eq(np.asarray(bound), el), bound.date.t == t0))
    # corollaries
    preO, preW = sym.SReal(mi[str(res.elements[3].e)][0]), sym.SReal(mi[str(res.elements[4].e)][0])
    c.ensure("polar.no_node_drift", sym.Implies(sym.cos(i) == 0, preO == O))
    c.ensure("critical.no_perigee_drift", sym.Implies(5 * si2 == 4, preW == wp))


def _grid_kep(tier, rng):
    """e in {1e-4,.01,.3,.7,.95} U {1.01,1.3,2,5,10} x dt in 17 values of +-30 d x 3 orientations x input form in
    {cartesian, keplerian, keplerian_mean, equinoctial (elliptic), spherical}; split dt = t1 + t2 with t1 = 0.37 dt"""
    dts = [-30, -11.3, -3, -1, -0.3, -0.05, -0.002, 0, 0.001, 0.04, 0.2, 0.9, 2.5, 7, 13.7, 21, 30]
    forms = ["cartesian", "keplerian", "keplerian_mean", "equinoctial", "spherical"]
    for e in (1e-4, 0.01, 0.3, 0.7, 0.95, 1.01, 1.3, 2.0, 5.0, 10.0):
        for k, d in enumerate(dts if tier != "quick" else dts[::2]):
            for o in range(3 if tier != "quick" else 2):
                yield {"e": e, "dt": d * 86400.0, "orient": o, "form": (k + o) % len(forms), "nu": [0.3, 2.5, -1.2][o], "label": (k + 2 * o) % 3}


@contract("C05", "kepler.vs_universal_variable", funcs=[f"{KEP}:Kepler.propagate"], grid=_grid_kep, level="bounded")
def _(c):
    """bounded: Kepler propagation of an orbit given in any element form agrees with an independent
    universal-variable two-body solution (1e-6 relative in position), forwards and backwards, and composes"""
    from beyond.orbits import Orbit
    from beyond.dates import Date
    from beyond.propagators.kepler import Kepler
    from beyond.constants import Earth
    from datetime import timedelta
    e, dt = c.real("e"), c.real("dt")
    forms = ["cartesian", "keplerian", "keplerian_mean", "equinoctial", "spherical"]
    form = forms[c.integer("form")]
    i, O, w = [(0.4, 1.0, 2.0), (1.7, 4.0, 0.3), (2.9, 0.2, 5.0)][c.integer("orient")]
    mu = Earth.mu
    rp = 7.0e6
    a = rp / (1 - e)
    nu = c.real("nu")
    if e > 1:
        nu = max(-0.8, min(0.8, nu)) * math.acos(-1 / e)
        if form == "equinoctial":
            form = "keplerian"
        # keep the hyperbolic excursion within what +-30 d can represent in floats
    r0, v0 = _kep2cart(a, e, i, O, w, nu, mu)
    d0 = Date(2018, 5, 4, 3, 2, 1)
    orb = Orbit(list(r0) + list(v0), d0, "cartesian", "EME2000", Kepler())
    orb.form = form
    # the requested date is handed over in the epoch's own scale, or relabelled TT / GPS (same instant: dt is the physically elapsed time)
    lab = [None, "TT", "GPS"][c.integer("label")]
    relab = (lambda d: d) if lab is None else (lambda d: d.change_scale(lab))
    res = orb.propagate(relab(d0 + timedelta(seconds=dt))).copy(form="cartesian")
    rr, vv = twobody.propagate(r0, v0, dt, mu)
    scale = max(np.linalg.norm(rr), np.linalg.norm(r0))
    c.ensure("position", bool(np.linalg.norm(np.asarray(res[:3], dtype=float) - rr) <= 1e-6 * scale))
    c.ensure("velocity", bool(np.linalg.norm(np.asarray(res[3:], dtype=float) - vv) <= 1e-6 * max(np.linalg.norm(vv), np.linalg.norm(v0))))
    # composition through a re-bound intermediate orbit
    t1 = 0.37 * dt
    mid = orb.propagate(d0 + timedelta(seconds=t1))
    mid_orb = Orbit(np.asarray(mid, dtype=float), mid.date, mid.form, mid.frame, Kepler())
    res2 = mid_orb.propagate(relab(d0 + timedelta(seconds=dt))).copy(form="cartesian")
    c.ensure("compose", bool(np.linalg.norm(np.asarray(res2[:3], dtype=float) - np.asarray(res[:3], dtype=float)) <= 1e-6 * scale))
    back = Orbit(np.asarray(res, dtype=float), res.date, "cartesian", res.frame, Kepler()).propagate(d0).copy(form="cartesian")
    c.ensure("inverse", bool(np.linalg.norm(np.asarray(back[:3], dtype=float) - r0) <= 1e-6 * scale))
    c.ensure("initial_untouched", bool(orb.form.name == form and orb.date == d0))
    # the same orbit object changed in place between two propagations (a burn): the second answer is for the state as it is now
    burn = Orbit(list(r0) + list(v0), d0, "cartesian", "EME2000", Kepler())
    burn.propagate(d0 + timedelta(seconds=dt))
    burn[3:] = np.asarray(v0) * 0.99
    rb, vb = twobody.propagate(r0, np.asarray(v0) * 0.99, dt, mu)
    resb = np.asarray(burn.propagate(d0 + timedelta(seconds=dt)).copy(form="cartesian"), dtype=float)
    c.ensure("after_an_in_place_change", bool(np.linalg.norm(resb[:3] - rb) <= 1e-6 * max(np.linalg.norm(rb), np.linalg.norm(r0))))
    if e < 1:
        kep0 = orb.copy(form="keplerian_mean")
        kep1 = res.copy(form="keplerian_mean")
        c.ensure("elements_kept", bool(np.allclose(np.asarray(kep0[:3], dtype=float), np.asarray(kep1[:3], dtype=float), rtol=1e-8)))
        # over hundreds of revolutions: the mean anomaly has advanced by n * dt (2e-9 rad: the unchanged code stays below 1e-9 over +-30 d)
        # and the position agrees with the independent solution to millimetres, not only to 1e-6
        n_ = math.sqrt(mu / float(kep0[0]) ** 3)
        dM = (float(kep1[5]) - float(kep0[5]) - n_ * dt + math.pi) % (2 * math.pi) - math.pi
        c.ensure("mean_anomaly_advanced_by_n_dt", bool(abs(dM) <= 2e-9))
        c.ensure("position_mm", bool(np.linalg.norm(np.asarray(res[:3], dtype=float) - rr) <= 2e-3 + 1e-10 * scale))


def _grid_j2(tier, rng):
    """a in {6.8e6, 7.2e6, 1.2e7, 2.66e7} x e in {1e-3, .05, .3, .7} x i in {0.2, 0.9, pi/2, critical, 1.7, 2.8} x dt in +-{0.01, 1, 17} d"""
    for a in (6.8e6, 7.2e6, 1.2e7, 2.66e7):
        for e in (1e-3, 0.05, 0.3, 0.7):
            if a * (1 - e) < 6.5e6:
                continue
            for i in (0.2, 0.9, math.pi / 2, math.asin(math.sqrt(0.8)), 1.7, 2.8):
                for d in (-17, -1, -0.01, 0.01, 1, 17):
                    yield {"a": a, "e": e, "i": i, "dt": d * 86400.0, "label": int(round(a / 1e5 + e * 1000 + d * 7)) % 3}


@contract("C05", "j2.rates_native", funcs=[f"{J2M}:J2.propagate"], grid=_grid_j2, level="bounded", rtol=1e-9, atol=1e-9)
def _(c):
    """bounded: on the real classes, J2 propagation keeps a, e, i and drifts node / perigee / mean anomaly by the
    secular rates times dt (mod 2 pi); polar: no node drift; critical inclination: no perigee drift"""
    from beyond.orbits import Orbit
    from beyond.dates import Date
    from beyond.propagators.j2 import J2
    from beyond.constants import Earth
    from datetime import timedelta
    a, e, i, dt = c.real("a"), c.real("e"), c.real("i"), c.real("dt")
    O, w, M = 1.1, 2.2, 3.3
    d0 = Date(2018, 5, 4)
    orb = Orbit([a, e, i, O, w, M], d0, "keplerian_mean", "EME2000", J2())
    lab = [None, "TT", "GPS"][c.integer("label")]   # the requested date in the epoch's own scale, or the same instant relabelled
    target = d0 + timedelta(seconds=dt)
    res = orb.propagate(target if lab is None else target.change_scale(lab)).copy(form="keplerian_mean")
    n = math.sqrt(Earth.mu / a ** 3)
    p = a * (1 - e * e)
    k = n * Earth.J2 * (Earth.r / p) ** 2
    exp = [O - 1.5 * k * math.cos(i) * dt, w + 0.75 * k * (4 - 5 * math.sin(i) ** 2) * dt,
           M + (n + 0.75 * k * math.sqrt(1 - e * e) * (2 - 3 * math.sin(i) ** 2)) * dt]
    got = np.asarray(res, dtype=float)
    c.ensure("aei_kept", bool(np.allclose(got[:3], [a, e, i], rtol=1e-9, atol=1e-12)))
    for idx, name in ((3, "node"), (4, "perigee"), (5, "mean_anomaly")):
        d = (got[idx] - exp[idx - 3]) % (2 * math.pi)
        c.ensure(name, bool(min(d, 2 * math.pi - d) < 1e-6))
    # the same orbit object made polar IN PLACE after a first propagation, and a second orbit handed to the propagator object the first one used: each drifts at
    # the rates of its own current elements (a polar orbit: no node drift)
    again = Orbit([a, e, i, O, w, M], d0, "keplerian_mean", "EME2000", J2())
    again.propagate(target)
    again.i = math.pi / 2
    g2 = np.asarray(again.propagate(target).copy(form="keplerian_mean"), dtype=float)
    dd = (g2[3] - O) % (2 * math.pi)
    c.ensure("in_place_change_then_polar.no_node_drift", bool(min(dd, 2 * math.pi - dd) < 1e-9 and abs(g2[2] - math.pi / 2) < 1e-12))
    shared = orb.propagator
    other = Orbit([a * 1.07, e, math.pi / 2, O, w, M], d0, "keplerian_mean", "EME2000", shared)
    g3 = np.asarray(other.propagate(target).copy(form="keplerian_mean"), dtype=float)
    dd = (g3[3] - O) % (2 * math.pi)
    c.ensure("second_orbit_same_propagator.no_node_drift", bool(min(dd, 2 * math.pi - dd) < 1e-9))
    if abs(i - math.pi / 2) < 1e-12:
        d = (got[3] - O) % (2 * math.pi)
        c.ensure("polar.no_node_drift", bool(min(d, 2 * math.pi - d) < 1e-9))
    if abs(math.sin(i) ** 2 - 0.8) < 1e-12:
        d = (got[4] - w) % (2 * math.pi)
        c.ensure("critical.no_perigee_drift", bool(min(d, 2 * math.pi - d) < 1e-7))
