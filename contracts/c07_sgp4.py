"""C07: SGP4 propagation (beyond/propagators/sgp4.py wrapper, sgp4beta.py native model)."""
import itertools
import math
import types

import numpy as np
import z3

from pyvc.contract import contract
from pyvc import sym
from pyvc.adt import SymDate
from contracts.c04_labels import LDate

S4 = "beyond.propagators.sgp4"


@contract("C07", "wrapper", funcs=[f"{S4}:Sgp4.propagate", f"{S4}:Sgp4.orbit.fset"],
          assumptions=["the reference sgp4 library (twoline2rv / propagate, WGS-72) is the definition of correct; only the plumbing around it is under proof",
                       "Date ADT with label-dependent formatting (C04); Tle.from_orbit text by C12"])
def _(c):
    """the wrapper returns 1000 x (position, velocity) of the reference library evaluated at the UTC calendar fields of the requested instant, dated at the
    requested date, in the orbit's frame (TEME) and cartesian form, without touching the bound orbit; the library record is built from the orbit's own TLE
    lines with the WGS-72 constants"""
    if not c.symbolic:
        return
    p, v = c.vec("p_km", 3), c.vec("v_kms", 3)
    t = c.real("t")
    made, fields = [], []
    w = c.world(names={S4: {"StateVector": lambda coord, **kw: made.append((coord, kw)) or types.SimpleNamespace(coord=coord, **kw)}})
    m = w.module(S4)
    m._finish()
    m.ns["float"] = lambda x: x.__pv_float__() if hasattr(x, "__pv_float__") else float(x)
    lib = types.SimpleNamespace(propagate=lambda *f: fields.append(f) or (tuple(p), tuple(v)))
    data = {"propagator": "SELF", "date": "EPOCH", "form": "tle", "frame": "TEME", "name": "SAT", "bstar": 1e-4}
    orbit = types.SimpleNamespace(_data=data, date=LDate(c.real("t_epoch"), 3))
    prop = w.obj(f"{S4}:Sgp4", tle=lib, _orbit=orbit)
    d = LDate(t, c.integer("label", lo=0, hi=5))
    res = prop.propagate(d)
    coord, kw = made[0]
    c.ensure("units", c.all_eq(np.array(coord, dtype=object), 1000 * np.concatenate([p, v])))
    c.ensure("metadata", bool(kw["date"] is d and kw["form"] == "cartesian" and kw["frame"] == "TEME" and "propagator" not in kw and kw["name"] == "SAT"))
    c.ensure("bound_orbit_untouched", bool(data == {"propagator": "SELF", "date": "EPOCH", "form": "tle", "frame": "TEME", "name": "SAT", "bstar": 1e-4}))
    utc = [sym.uf(f"obs_field{k}", t, 3) for k in range(6)]   # the fields of the instant labelled UTC (index 3 in the label table)
    c.ensure("utc_fields", c.all_eq(np.array(list(fields[0]), dtype=object), np.array(utc, dtype=object)))
    # setter
    calls = []
    for lines in (["NAME", "L1", "L2"], ["L1", "L2"]):
        tle = types.SimpleNamespace(text="\n".join(lines))
        w2 = c.world(names={S4: {"Tle": types.SimpleNamespace(from_orbit=lambda o: calls.append(("from_orbit", o)) or tle),
                                 "twoline2rv": lambda a, b, g: calls.append(("twoline2rv", a, b, g)) or "RECORD", "wgs72": "WGS72"}})
        p2 = w2.obj(f"{S4}:Sgp4")
        snap = types.SimpleNamespace(tag="SNAPSHOT")
        given = types.SimpleNamespace(tag="ORBIT", copy=lambda: snap)
        p2.orbit = given
        dd = object.__getattribute__(p2, "__dict__")
        # the propagator keeps a snapshot of the orbit it is bound to (the caller's object may be modified in place afterwards: the answers are a function of the orbit
        # as it was handed over, C08), and the library record is built from the TLE lines of that orbit
        c.ensure(f"setter.{len(lines)}lines", bool(dd["_orbit"] is snap and dd["tle"] == "RECORD" and calls[-1] == ("twoline2rv", "L1", "L2", "WGS72")
                                                   and calls[-2][0] == "from_orbit" and calls[-2][1] in (given, snap)))


def _tle_grid(tier, rng):
    """TLE grid: i in {0.1, 28, 51.6, 63.4, 98, 144} deg x e in {0, 1e-5, 1e-3, .1, .7} x n in {1, 2, 11, 14, 15.5, 16.4} rev/day x B* in {0, +-1e-5, 1e-3} (seeded subsets:
    quick 60, thorough 600) x t in {-30 d .. +30 d} 13 values; perigee above the surface"""
    incs = [0.1, 28.0, 51.6, 63.4, 98.0, 144.0]
    es = [0.0, 1e-5, 1e-3, 0.1, 0.7]
    ns = [1.0, 2.0, 11.0, 14.0, 15.5, 16.4]
    bs = [0.0, 1e-5, -1e-5, 1e-3]
    # a deterministic block first: every eccentricity regime of the near-Earth theory (exactly circular, below / at / above the thresholds 1e-6 and 1e-4 at which terms are
    # switched, ordinary, high) x drag {moderate, strong, negative} on two near-Earth orbits -- the seeded subset below rarely combined a tiny eccentricity with a strong drag
    for (i, n) in ((51.6, 15.5), (98.0, 14.2)):
        for e in (0.0, 5e-7, 1e-6, 1.1e-6, 1e-5, 8.12e-5, 1e-4, 1.1e-4, 1e-3, 0.01):
            for b in (1e-4, 1e-3, -5e-4):
                yield {"i": i, "e": e, "n": n, "bstar": b, "raan": 24.5 + 100 * e, "argp": 309.8, "M": 101.7 + 3000 * abs(b), "epoch": 2}
    # inclinations up to the retrograde equatorial limit (terms in 1 / (1 + cos i)) and down to the prograde one
    for i in (0.0, 0.0001, 0.01, 179.9, 179.99, 179.999, 180.0):   # (at 179.9999 deg the two float programs differ by 1.1 cm through the ill-conditioned term alone)
        for e in (7e-4, 0.02):
            yield {"i": i, "e": e, "n": 15.0, "bstar": 1e-4, "raan": 123.4, "argp": 33.3 + 50 * e, "M": 77.7, "epoch": 3}
    combos = [(i, e, n, b) for i in incs for e in es for n in ns for b in bs]
    rng.shuffle(combos)
    want = 60 if tier == "quick" else 600
    k = 0
    for (i, e, n, b) in combos:
        a = (3.986004418e14 / (n * 2 * math.pi / 86400) ** 2) ** (1 / 3)
        if a * (1 - e) < 6378136.3 + 120e3:
            continue
        k += 1
        if k > want:
            break
        yield {"i": i, "e": e, "n": n, "bstar": b, "raan": rng.uniform(0, 359.9), "argp": rng.uniform(0, 359.9), "M": rng.uniform(0, 359.9), "epoch": rng.randrange(8)}


def _mk_tle(a):
    from contracts.c12_tle import _compose
    d = {"cat": 25544, "desig": 1, "ndot": 0.0, "ndotdot": 0.0, "bstar": a["bstar"], "e": a["e"], "i": a["i"], "raan": a["raan"], "argp": a["argp"], "M": a["M"],
         "n": a["n"], "elnb": 999, "rev": 100, "epoch": a["epoch"], "name": 0}
    name, l1, l2 = _compose(d)
    return l1, l2


@contract("C07", "wrapper.native", funcs=[f"{S4}:Sgp4.propagate", f"{S4}:Sgp4.orbit.fset", "beyond.io.tle:Tle.from_orbit"], grid=_tle_grid, level="bounded")
def _(c):
    """bounded: propagating an orbit built from a TLE with the default propagator gives the state of the reference library called directly on the same two lines
    (metres, TEME) within |v| x 50 us, before and after epoch, near-Earth and deep-space"""
    from beyond.io.tle import Tle
    from beyond.dates import timedelta
    from sgp4.earth_gravity import wgs72
    from sgp4.io import twoline2rv
    a = {k: (c.real(k) if k not in ("epoch",) else c.integer(k)) for k in ("i", "e", "n", "bstar", "raan", "argp", "M", "epoch")}
    l1, l2 = _mk_tle(a)
    c.require(len(l1) == 69 and len(l2) == 69)
    orb = Tle(l1 + "\n" + l2).orbit()
    sat = twoline2rv(l1, l2, wgs72)
    ok = True
    worst = 0.0
    for days in (-30, -7.3, -1, -0.1, 0, 0.01, 0.5, 1, 3, 7.3, 14, 21, 30):
        date = orb.date + timedelta(days=days)
        got = np.asarray(orb.propagate(date), dtype=float)
        u = date.change_scale("UTC").datetime
        p, v = sat.propagate(u.year, u.month, u.day, u.hour, u.minute, u.second + u.microsecond * 1e-6)
        if sat.error:
            continue
        ref = np.array(list(p) + list(v)) * 1000
        worst = max(worst, np.linalg.norm(got[:3] - ref[:3]) - np.linalg.norm(ref[3:]) * 50e-6)
        ok = ok and bool(np.linalg.norm(got[:3] - ref[:3]) <= np.linalg.norm(ref[3:]) * 50e-6 + 1e-3) and bool(np.linalg.norm(got[3:] - ref[3:]) <= 1e-3)
        ok = ok and got.shape == (6,) and orb.frame.name == "TEME"
    c.ensure("equals_reference_library", ok)
    c.ensure("initial_orbit_untouched", orb.form.name == "tle")


@contract("C07", "native_model", funcs=["beyond.propagators.sgp4beta:Sgp4Beta.propagate", "beyond.propagators.sgp4beta:Sgp4Beta.orbit.fset"], grid=_tle_grid, level="bounded")
def _(c):
    """bounded: where the reference uses its full near-Earth model (period < 225 min, perigee >= 220 km) the native SGP4 implementation returns the reference state
    within 1 cm up to a week from epoch (10 cm at +-30 days), before and after epoch"""
    from beyond.io.tle import Tle
    from beyond.dates import timedelta
    from beyond.propagators.sgp4beta import Sgp4Beta
    from sgp4.earth_gravity import wgs72
    from sgp4.io import twoline2rv
    a = {k: (c.real(k) if k not in ("epoch",) else c.integer(k)) for k in ("i", "e", "n", "bstar", "raan", "argp", "M", "epoch")}
    period_min = 1440.0 / a["n"]
    sma = (3.986004418e14 / (a["n"] * 2 * math.pi / 86400) ** 2) ** (1 / 3)
    c.require(period_min < 225 and sma * (1 - a["e"]) >= 6378135.0 + 220e3 + 2e3)
    l1, l2 = _mk_tle(a)
    c.require(len(l1) == 69 and len(l2) == 69)
    orb = Tle(l1 + "\n" + l2).orbit()
    sat = twoline2rv(l1, l2, wgs72)
    nat = Sgp4Beta()
    nat.orbit = orb
    ok = True
    from sgp4.propagation import sgp4 as ref_sgp4
    for days in (-30, -7.3, -1, 0, 0.01, 1, 7.3, 30):
        date = orb.date + timedelta(days=days)
        # the reference is driven by minutes since epoch: its calendar interface carries a time-resolution error of tens of microseconds
        # (|v| x 50 us in the property), which would swamp the 1 cm comparison
        p, v = ref_sgp4(sat, days * 1440.0)
        if sat.error:
            continue
        got = np.asarray(nat.propagate(date), dtype=float)
        ref = np.array(list(p) + list(v)) * 1000
        # 1 cm within a week of epoch; at +-30 days, high-drag near-equatorial cases amplify rounding differences between the two
        # float programs up to 5 cm (observed: i = 0.1 deg, B* = 1e-3): 10 cm there
        lim = 0.01 if abs(days) <= 7.3 else 0.10
        ok = ok and bool(np.linalg.norm(got[:3] - ref[:3]) <= lim)
    c.ensure("native_equals_reference_1cm", ok)


def _grid_leap(tier, rng):
    """TLE epochs a few days before / after an inserted leap second (2008-12-27, 2009-01-03, 2012-06-18, 2015-07-03, 2016-12-31) x dates on either side of it
    (-10 d .. +12 d) x the label of the requested date {UTC, TAI, TT} x two orbits; real tai-utc.dat"""
    for ep in (8, 9, 10, 11, 4):
        for k, days in enumerate((-10.0, -3.2, 0.5, 4.7, 12.0)):
            for lab in range(3):
                i, n, e = ((51.6, 15.5, 1e-3), (98.0, 14.2, 0.01))[(k + lab) % 2]
                yield {"i": i, "e": e, "n": n, "bstar": 1e-4, "raan": 24.5, "argp": 309.8, "M": 101.7, "epoch": ep, "days": days, "label": lab}


@contract("C07", "across_a_leap_second", funcs=["beyond.propagators.sgp4beta:Sgp4Beta.propagate", f"{S4}:Sgp4.propagate"], grid=_grid_leap, level="bounded")
def _(c):
    """bounded: with the real table of leap seconds, a date on the other side of an inserted second from the epoch of the TLE -- given under any label -- gets the
    state the reference gives for the minutes elapsed between the two UTC calendar readings (the reference's own, leap-second-free, time argument): native model
    within 1 cm, default propagator within |v| x 50 us; the native model asked with the elapsed time instead of the date gives the same"""
    from beyond.io.tle import Tle
    from beyond.dates import timedelta
    from beyond.propagators.sgp4beta import Sgp4Beta
    from sgp4.earth_gravity import wgs72
    from sgp4.io import twoline2rv
    from sgp4.propagation import sgp4 as ref_sgp4
    from contracts.eopcfg import use_eop
    use_eop(real=True)
    a = {k: (c.real(k) if k not in ("epoch",) else c.integer(k)) for k in ("i", "e", "n", "bstar", "raan", "argp", "M", "epoch")}
    l1, l2 = _mk_tle(a)
    c.require(len(l1) == 69 and len(l2) == 69)
    orb = Tle(l1 + "\n" + l2).orbit()
    sat = twoline2rv(l1, l2, wgs72)
    days = c.real("days")
    lab = ["UTC", "TAI", "TT"][c.integer("label")]
    # the requested date: a UTC calendar reading `days` x 86400 s of calendar after the epoch's, relabelled (same instant)
    u0 = orb.date.change_scale("UTC").datetime
    from beyond.dates import Date
    date = Date(u0 + timedelta(days=days), scale="UTC").change_scale(lab)
    straddles = (date - orb.date).total_seconds() != days * 86400.0
    c.ensure("case_straddles_a_leap_second_or_is_a_control", straddles == (abs((date - orb.date).total_seconds() - days * 86400.0) > 0.5))
    p, v = ref_sgp4(sat, days * 1440.0)
    c.require(not sat.error)
    ref = np.array(list(p) + list(v)) * 1000
    nat = Sgp4Beta()
    nat.orbit = orb
    got = np.asarray(nat.propagate(date), dtype=float)
    c.ensure("native_by_date", bool(np.linalg.norm(got[:3] - ref[:3]) <= 0.01))
    nat2 = Sgp4Beta()
    nat2.orbit = orb
    got2 = np.asarray(nat2.propagate(timedelta(days=days)), dtype=float)
    c.ensure("native_by_elapsed_time", bool(np.linalg.norm(got2[:3] - ref[:3]) <= 0.01))
    got3 = np.asarray(orb.propagate(date), dtype=float)
    c.ensure("default_by_date", bool(np.linalg.norm(got3[:3] - ref[:3]) <= np.linalg.norm(ref[3:]) * 50e-6 + 1e-3))
