"""C18: solar-system bodies (beyond/env/jpl.py, beyond/env/solarsystem.py)."""
import itertools
import math
import types

import numpy as np
import z3

from pyvc.contract import contract
from pyvc import sym
from pyvc.adt import SymTimedelta
from contracts.c04_labels import LDate

JPL = "beyond.env.jpl"
SOL = "beyond.env.solarsystem"


@contract("C18", "jpl.propagate", funcs=[f"{JPL}:JplPropagator.propagate"],
          assumptions=["jplephem segments by assumed contract: pairs[(center, target)].compute_and_differentiate(jd_tdb) = (position km, velocity km/day) of target w.r.t. center",
                       "Date ADT (C03/C04)"])
def _(c):
    """the result is the target relative to the frame's centre (sign flipped when only the opposite segment exists), in metres and metres/second (km -> m, km/day -> m/s),
    evaluated at the TDB Julian date of the instant, tagged with the propagator's frame"""
    if not c.symbolic:
        return
    direction = c.choice("segment_available", ["frame.center -> object", "object -> frame.center"])
    fmt = c.choice("segment_returns", ["pos3_vel3", "pos6"])
    pos, vel = c.vec("pos_km", 3), c.vec("vel_km_per_day", 3)
    vel6 = c.vec("vel_km_s", 3)
    asked, made = [], []
    seg = types.SimpleNamespace(compute_and_differentiate=lambda jd: asked.append(jd) or ((pos, vel) if fmt == "pos3_vel3" else (np.concatenate([pos, vel6]), None)))
    OBJ, CEN = 499, 4
    pairs = {(CEN, OBJ): seg} if direction == "frame.center -> object" else {(OBJ, CEN): seg}
    frame = types.SimpleNamespace(center=types.SimpleNamespace(index=CEN), name="MarsBarycenter")

    def mk_orbit(coord, date, form, fr, prop):
        made.append((coord, date, form, fr, prop))
        return types.SimpleNamespace(date=date, frame=fr, form=form, coord=coord, propagator=prop)
    w = c.world(names={JPL: {"Bsp": lambda: types.SimpleNamespace(pairs=pairs), "Orbit": mk_orbit}})
    p = w.new(f"{JPL}:JplPropagator", types.SimpleNamespace(index=OBJ, name="Mars"), frame)   # through the real __init__
    t = c.real("t")
    lab = c.integer("label", lo=0, hi=5)
    res = p.propagate(LDate(t, lab))
    # every call gives a state of its own, computed from the segment: asking again (same instant) after the first result
    # has been handed out does not hand out that object once more
    res2 = p.propagate(LDate(t, lab))
    c.ensure("fresh_state_per_call", bool(res2 is not res and len(made) == 2))
    if len(made) == 2:
        c.ensure("same_state_again", c.all_eq(np.asarray(made[1][0]), np.asarray(made[0][0])))
    del asked[1:]
    coord, date, form, fr, prop = made[0]
    sign = 1 if direction == "frame.center -> object" else -1
    want_v = vel / 86400 if fmt == "pos3_vel3" else vel6
    c.ensure("position_m", c.all_eq(np.asarray(coord)[:3], sign * 1000 * pos))
    c.ensure("velocity_m_per_s", c.all_eq(np.asarray(coord)[3:], sign * 1000 * want_v))
    c.ensure("tdb_argument", bool(len(asked) == 1) and asked[0] == sym.uf("obs_jd", t, 2))   # label index 2 = TDB
    c.ensure("metadata", bool(form == "cartesian" and fr is frame and prop is p and date.label == "TDB") and date.t == t)


@contract("C18", "diff.central", funcs=[f"{SOL}:_DiffPropagator.propagate"], assumptions=["Date ADT; _propagate (the series) by purity"])
def _(c):
    """Sun/Moon velocity is the central difference of the series positions over +- the class's step; the position is the series value at the date"""
    if not c.symbolic:
        return
    t, h = c.real("t"), c.real("h", lo=0)
    P = lambda tt: np.array([sym.uf(f"series{k}", tt) for k in range(3)] + [0, 0, 0], dtype=object)
    cls = types.SimpleNamespace(_propagate=lambda d: P(d.t), _diff_step=SymTimedelta(h))
    w = c.world()
    res = w.fn(f"{SOL}:_DiffPropagator.propagate")(cls, LDate(t, 3))
    c.ensure("position", c.all_eq(res[:3], P(t)[:3]))
    c.ensure("velocity_central_difference", c.conj([res[3 + k] * (2 * h) == P(t + h)[k] - P(t - h)[k] for k in range(3)]))


def _cfg():
    from beyond.config import config
    from contracts.eopcfg import use_eop
    use_eop(real=True)
    config.update({"env": {"jpl": {"files": ["/repo/tests/data/jpl/de403_2000-2020.bsp", "/repo/tests/data/jpl/pck00010.tpc", "/repo/tests/data/jpl/gm_de431.tpc"]}}})


def _grid_series(tier, rng):
    """60 (quick: 20) dates spread over 2000-2020 x {Sun, Moon}"""
    n = 20 if tier == "quick" else 60
    for k in range(n):
        for b in (0, 1):
            yield {"mjd": 51600.0 + k * (7200.0 / n) + 0.37 * k, "body": b}


@contract("C18", "series.native", funcs=[f"{SOL}:SunPropagator._propagate", f"{SOL}:MoonPropagator._propagate", f"{SOL}:_DiffPropagator.propagate"], grid=_grid_series, level="bounded")
def _(c):
    """bounded: the analytical Sun and Moon agree with the DE403 kernel (Sun: 0.02 deg, 1e-4 in distance; Moon: 0.7 deg, 0.5 % in distance); their velocities equal the
    derivative of their positions (finite difference at 100 s, 2 % / 5 %)"""
    from beyond.dates import Date, timedelta
    from beyond.env.solarsystem import get_body
    from jplephem.spk import SPK
    _cfg()
    date = Date(c.real("mjd"))
    body = ["Sun", "Moon"][c.integer("body")]
    st = np.asarray(get_body(body).propagate(date).copy(frame="EME2000", form="cartesian"), dtype=float)
    k = SPK.open("/repo/tests/data/jpl/de403_2000-2020.bsp")
    try:
        jd = date.change_scale("TDB").jd
        emb_e = k[3, 399].compute(jd)
        if body == "Moon":
            ref = (k[3, 301].compute(jd) - emb_e) * 1000
        else:
            ref = (k[0, 10].compute(jd) - k[0, 3].compute(jd) - emb_e) * 1000
    finally:
        k.close()
    ang = math.degrees(math.acos(max(-1, min(1, st[:3] @ ref / np.linalg.norm(st[:3]) / np.linalg.norm(ref)))))
    drel = abs(np.linalg.norm(st[:3]) / np.linalg.norm(ref) - 1)
    lim_a, lim_d = (0.02, 1e-4) if body == "Sun" else (0.7, 5e-3)
    c.ensure("direction", ang <= lim_a)
    c.ensure("distance", drel <= lim_d)
    h = 100.0
    p1 = np.asarray(get_body(body).propagate(date + timedelta(seconds=h)).copy(frame="EME2000", form="cartesian"), dtype=float)
    p0 = np.asarray(get_body(body).propagate(date - timedelta(seconds=h)).copy(frame="EME2000", form="cartesian"), dtype=float)
    fd = (p1[:3] - p0[:3]) / (2 * h)
    c.ensure("velocity_is_derivative", np.linalg.norm(fd - st[3:]) <= (0.02 if body == "Sun" else 0.05) * np.linalg.norm(fd))


@contract("C18", "bsp.tables", funcs=[f"{JPL}:Bsp.pairs.fget", f"{JPL}:Bsp.segments.fget"],
          assumptions=["precedence between kernels that provide the same (centre, target) pair is the SPICE one: the kernel listed last is served"])
def _(c):
    """the table of (centre, target) pairs served is the union of the kernels' tables, a pair provided by several kernels being taken from the one listed LAST (the usual
    SPICE precedence: satellite kernels listed after the planetary one carry their own Sun / barycentre segments); `segments` lists every segment of every kernel, in order"""
    if not c.symbolic:
        return
    n = c.choice("files", [1, 2, 3])
    S = lambda k, name: types.SimpleNamespace(file=k, name=name)
    files = []
    for k in range(n):
        pairs = {(0, 3): S(k, "emb"), (3, 399): S(k, "earth")}
        if k != 1:
            pairs[(0, 4)] = S(k, "mars")
        if k == 2:
            pairs[(4, 499)] = S(k, "mars-planet")
        files.append(types.SimpleNamespace(pairs=pairs, segments=list(pairs.values())))
    w = c.world()
    bsp = w.obj(f"{JPL}:Bsp", _spk=files)
    table = bsp.pairs
    want = {}
    for k, f in enumerate(files):
        for key, seg in f.pairs.items():
            want[key] = seg
    c.ensure("union_of_the_kernels", bool(set(table.keys()) == set(want.keys())))
    c.ensure("last_listed_kernel_served", bool(all(table[key] is want[key] for key in want)))
    c.ensure("segments_in_order", bool([id(x) for x in bsp.segments] == [id(x) for f in files for x in f.segments]))


def _grid_kernels(tier, rng):
    """kernel lists {[2000-2005 excerpt of the kernel, complete kernel], [complete kernel, complete kernel]} x dates 2002 / 2011 / 2018 x pairs (Mars, Earth), (Moon, Sun),
    (JupiterBarycenter, Venus)"""
    for conf in (0, 1):
        for mjd in (52400.3, 55800.6, 58300.2):
            for pair in (0, 1, 2):
                yield {"conf": conf, "mjd": mjd, "pair": pair}


@contract("C18", "jpl.several_kernels", funcs=[f"{JPL}:Bsp.pairs.fget", f"{JPL}:JplPropagator.propagate", f"{JPL}:create_frames"], grid=_grid_kernels, level="bounded")
def _(c):
    """bounded: with several kernels configured, a date covered by the kernel listed last is served from it even when a kernel listed before it provides the same pairs over
    a shorter span: the vector equals the complete kernel's directly chained segments (1 mm)"""
    import shutil
    import tempfile
    from beyond.config import config
    from beyond.dates import Date
    from beyond.env import jpl
    from jplephem.spk import SPK
    from jplephem.excerpter import write_excerpt
    import logging
    logging.getLogger("beyond.frames.frames").setLevel(logging.ERROR)
    _cfg()
    full = "/repo/tests/data/jpl/de403_2000-2020.bsp"
    tmp = tempfile.mkdtemp(prefix="c18_kernels_")
    try:
        if c.integer("conf") == 0:
            short = tmp + "/excerpt_2000_2005.bsp"
            src = SPK.open(full)
            with open(short, "w+b") as fp:
                write_excerpt(src, fp, 2451544.5, 2453371.5, src.daf.summaries())
            src.close()
            files = [short, full]
        else:
            files = [full, full]
        config["env"]["jpl"]["files"] = files
        jpl._frame_cache.clear()
        jpl._propagator_cache.clear()
        jpl.Bsp._instance = None
        jpl.create_frames()
        date = Date(c.real("mjd"))
        a, b = [(499, 399), (301, 10), (5, 299)][c.integer("pair")]
        name = lambda i: jpl.target_names[i].title().replace(" ", "")
        try:
            got = np.asarray(jpl.get_orbit(name(a), date).copy(frame=name(b)), dtype=float)
        except Exception as e:
            c.ensure("served_from_the_kernel_listed_last", False)
            return
        k = SPK.open(full)
        try:
            jd = date.change_scale("TDB").jd
            parent = {t: cen for (cen, t) in [(s_.center, s_.target) for s_ in k.segments]}

            def wrt_ssb(i):
                p, v = np.zeros(3), np.zeros(3)
                while i != 0:
                    pp, vv = k[parent[i], i].compute_and_differentiate(jd)
                    p, v = p + pp, v + vv / 86400.0
                    i = parent[i]
                return p, v
            pa, va = wrt_ssb(a)
            pb, vb = wrt_ssb(b)
        finally:
            k.close()
        ref = np.concatenate([pa - pb, va - vb]) * 1000
        c.ensure("served_from_the_kernel_listed_last", bool(np.linalg.norm(got[:3] - ref[:3]) <= 1e-3 + 1e-14 * np.linalg.norm(ref[:3])))
    finally:
        for s_ in getattr(jpl.Bsp(), "_spk", []):
            try:
                s_.close()
            except Exception:
                pass
        jpl.Bsp._instance = None
        jpl._frame_cache.clear()
        jpl._propagator_cache.clear()
        shutil.rmtree(tmp, ignore_errors=True)


def parent_of(k, i):
    """centre of the kernel's segment whose target is body i"""
    return {s_.target: s_.center for s_ in k.segments}[i]


def wrt_ssb_later(i, jd):
    """body i with respect to the solar-system barycentre by chaining the kernel's segments (km, km/s)"""
    from jplephem.spk import SPK
    k = SPK.open("/repo/tests/data/jpl/de403_2000-2020.bsp")
    try:
        parent = {s_.target: s_.center for s_ in k.segments}
        p, v = np.zeros(3), np.zeros(3)
        while i != 0:
            pp, vv = k[parent[i], i].compute_and_differentiate(jd)
            p, v = p + pp, v + vv / 86400.0
            i = parent[i]
        return p, v
    finally:
        k.close()


def _one_hour():
    from datetime import timedelta
    return timedelta(hours=1)


def _grid_pairs(tier, rng):
    """every ordered pair of the 15 bodies of the kernel x 4 (quick) / 12 dates 2000-2020 x with / without the PCK constant files"""
    ids = [1, 2, 3, 4, 5, 6, 7, 8, 9, 10, 199, 299, 301, 399, 499]
    dates = [51700.3, 54000.7, 56300.1, 58500.9] if tier == "quick" else [51600.0 + 600.5 * k for k in range(12)]
    for i, a in enumerate(ids):
        for j, b in enumerate(ids):
            if a == b or (tier == "quick" and (i + j) % 3):
                continue
            for d in dates:
                yield {"a": a, "b": b, "mjd": d, "pck": (i + j) % 2}


@contract("C18", "jpl.native", funcs=[f"{JPL}:JplPropagator.propagate", f"{JPL}:create_frames", f"{JPL}:JplCenter.add_link", "beyond.frames.center:Center.convert_to"],
          grid=_grid_pairs, level="bounded")
def _(c):
    """bounded: for every ordered pair of bodies of the kernel, expressing body A in the frame of body B reproduces the vector obtained by chaining the kernel's segments
    directly (metres, metres/second, TDB argument), in either direction, with or without physical-constant files"""
    from beyond.config import config
    from beyond.dates import Date
    from beyond.env import jpl
    from jplephem.spk import SPK
    _cfg()
    if not c.integer("pck"):
        config["env"]["jpl"]["files"] = ["/repo/tests/data/jpl/de403_2000-2020.bsp"]
    import logging
    logging.getLogger("beyond.frames.frames").setLevel(logging.ERROR)
    jpl._frame_cache.clear()
    jpl._propagator_cache.clear()
    jpl.Bsp._instance = None
    if "_instance" in vars(jpl.Pck):
        del jpl.Pck._instance
    try:
        jpl.create_frames()
    except Exception as e:
        c.ensure("frames_created:" + repr(e)[:80], False)
        return
    date = Date(c.real("mjd"))
    a, b = c.integer("a"), c.integer("b")
    name = lambda i: jpl.target_names[i].title().replace(" ", "")
    got = np.asarray(jpl.get_orbit(name(a), date).copy(frame=name(b)), dtype=float)
    k = SPK.open("/repo/tests/data/jpl/de403_2000-2020.bsp")
    try:
        jd = date.change_scale("TDB").jd
        parent = {t: cen for (cen, t) in [(s.center, s.target) for s in k.segments]}

        def wrt_ssb(i):
            p, v = np.zeros(3), np.zeros(3)
            while i != 0:
                pp, vv = k[parent[i], i].compute_and_differentiate(jd)
                p, v = p + pp, v + vv / 86400.0
                i = parent[i]
            return p, v
        pa, va = wrt_ssb(a)
        pb, vb = wrt_ssb(b)
    finally:
        k.close()
    ref = np.concatenate([pa - pb, va - vb]) * 1000
    c.ensure("position_1mm", np.linalg.norm(got[:3] - ref[:3]) <= 1e-3 + 1e-15 * np.linalg.norm(ref[:3]) * 10)
    c.ensure("velocity", np.linalg.norm(got[3:] - ref[3:]) <= 1e-6 + 1e-12 * np.linalg.norm(ref[3:]))
    # the answer for a body at a date does not depend on what the caller did with an earlier answer
    first = jpl.get_orbit(name(a), date)
    before = np.array(first, dtype=float)
    first.frame = name(b)
    first[:3] += 1.0e6
    second = jpl.get_orbit(name(a), date)
    c.ensure("answers_are_independent", second is not first and second.frame.name == jpl.get_orbit(name(a), date + _one_hour()).frame.name
             and bool(np.array_equal(np.array(second, dtype=float), before)))
    got2 = np.asarray(jpl.get_orbit(name(a), date).copy(frame=name(b)), dtype=float)
    c.ensure("same_vector_again", bool(np.array_equal(got2, got)))
    # "in either direction": the propagator of the inverse of a stored segment (the centre of A's segment seen from A -- the case the code's own comment gives: the
    # Earth-Moon barycentre with respect to the Moon), built by the caller, returns minus the segment; and building / using it leaves the library's own chain as it was
    pa_ = parent[a]
    if pa_ != 0:
        inv = jpl.JplPropagator(jpl.get_frame(name(pa_)).center, jpl.get_frame(name(a)))
        iv = np.asarray(inv.propagate(date), dtype=float)
        kk = SPK.open("/repo/tests/data/jpl/de403_2000-2020.bsp")
        try:
            pp, vv = kk[pa_, a].compute_and_differentiate(jd)
        finally:
            kk.close()
        want_inv = -np.concatenate([np.asarray(pp), np.asarray(vv) / 86400.0]) * 1000
        c.ensure("inverse_segment_is_minus_the_segment", bool(np.linalg.norm(iv[:3] - want_inv[:3]) <= 1e-3 + 1e-14 * np.linalg.norm(want_inv[:3])
                                                              and np.linalg.norm(iv[3:] - want_inv[3:]) <= 1e-6 + 1e-12 * np.linalg.norm(want_inv[3:])))
        got3 = np.asarray(jpl.get_orbit(name(a), date).copy(frame=name(b)), dtype=float)
        par = np.asarray(jpl.get_orbit(name(pa_), date).copy(frame=name(b)), dtype=float) if pa_ != b else np.zeros(6)
        pp_, vp_ = wrt_ssb_later(pa_, jd)
        refp = np.concatenate([pp_ - pb, vp_ - vb]) * 1000
        c.ensure("chain_unchanged_by_a_propagator_built_by_the_caller", bool(np.array_equal(got3, got))
                 and bool(np.linalg.norm(par[:3] - refp[:3]) <= 1e-3 + 1e-14 * np.linalg.norm(refp[:3])))
    # an orbit of the body iterated over (start, stop, step) across the leap second of 2016-12-31 (UTC dates, real IERS tables): every yielded state is the segment
    # evaluated at the TDB reading of ITS date, i.e. what a direct request for that date returns
    from datetime import timedelta
    t0 = Date(2016, 12, 31, 23, 59, 40)
    o0 = jpl.get_orbit(name(a), t0)
    pts = list(o0.iter(stop=t0 + timedelta(seconds=60), step=timedelta(seconds=20)))
    ok_it = len(pts) == 4
    for p_ in pts:
        direct = np.asarray(jpl.get_orbit(name(a), p_.date), dtype=float)
        ok_it = ok_it and bool(np.linalg.norm(np.asarray(p_, dtype=float)[:3] - direct[:3]) <= 1e-3 + 1e-13 * np.linalg.norm(direct[:3]))
    c.ensure("iterated_states_are_for_their_dates", ok_it)
    # "for every date in the span of the kernel": instants a few seconds inside either end of the kernel's span, handed over as UTC dates (the span is in TDB: the UTC
    # reading of the first instants lies about a minute BEFORE the TDB number the span starts at)
    kk = SPK.open("/repo/tests/data/jpl/de403_2000-2020.bsp")
    try:
        seg = kk[parent_of(kk, a), a] if a != 0 else None
        jd0, jd1 = (seg.start_jd, seg.end_jd) if seg is not None else (None, None)
    finally:
        kk.close()
    if jd0 is not None:
        ok_edge = True
        # (... and the two end instants themselves: the span of a segment is a closed interval)
        for jd_tdb in (jd0 + 10.0 / 86400, jd0 + 50.0 / 86400, jd1 - 10.0 / 86400, jd0, jd1):
            d_utc = Date(jd_tdb - 2400000.5, scale="TDB")
            if jd_tdb not in (jd0, jd1):
                d_utc = d_utc.change_scale("UTC")
            try:
                g = np.asarray(jpl.get_orbit(name(a), d_utc), dtype=float)
            except Exception:
                ok_edge = False
                break
            kk = SPK.open("/repo/tests/data/jpl/de403_2000-2020.bsp")
            try:
                pp, vv = kk[parent_of(kk, a), a].compute_and_differentiate(d_utc.change_scale("TDB").jd)
            finally:
                kk.close()
            ok_edge = ok_edge and bool(np.linalg.norm(np.abs(g[:3]) - np.abs(np.asarray(pp) * 1000)) <= 1e-3 + 1e-13 * np.linalg.norm(pp) * 1000)
        c.ensure("served_up_to_the_ends_of_the_span", ok_edge)
