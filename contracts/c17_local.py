"""C17: local orbital frames (beyond/frames/local.py) and maneuvers (beyond/orbits/man.py)."""
import itertools
import math
import types

import numpy as np

from pyvc.contract import contract
from pyvc import sym
from pyvc.adt import SymDate, SymTimedelta, SymStateVector
from contracts.c02_matrix import det3, I3

L = "beyond.frames.local"
MAN = "beyond.orbits.man"


def cross(a, b):
    return np.array([a[1] * b[2] - a[2] * b[1], a[2] * b[0] - a[0] * b[2], a[0] * b[1] - a[1] * b[0]], dtype=object)


def dot(a, b):
    return a[0] * b[0] + a[1] * b[1] + a[2] * b[2]


def _grid_rv(tier, rng):
    """seeded random r (|r|~7e6), v (|v|~7e3) incl. near-radial, near-circular, retrograde and polar cases"""
    base = [([7e6, 0, 0], [0, 7.5e3, 0]), ([7e6, 0, 0], [10, 7.5e3, 1]), ([0, 0, 7e6], [7.5e3, 0, 0]),
            ([7e6, 1e3, -2e3], [7.4e3, 10, 5]), ([-6142438.668, 3492467.560, -25767.25680], [505.8479685, 942.7809215, 7435.922231]),
            ([7e6, 0, 0], [0, -7.5e3, 0]), ([1.5e11, 2e10, 1e9], [-3e3, 2.9e4, 10])]
    for r, v in base:
        yield {f"r{i}": r[i] for i in range(3)} | {f"v{i}": v[i] for i in range(3)} | {"frame": 0, "spelling": int(abs(v[1])) % 3} | {f"d{i}": [0.3, -1.2, 2.0][i] for i in range(3)}
    for k in range(20 if tier == "quick" else 300):
        d = {f"r{i}": rng.uniform(-1, 1) * 7e6 for i in range(3)}
        d.update({f"v{i}": rng.uniform(-1, 1) * 7e3 for i in range(3)})
        d.update({f"d{i}": rng.uniform(-3, 3) for i in range(3)})
        d["frame"] = k % 3
        d["spelling"] = (k // 3) % 3
        yield d


def _local_contract(name, first_of):
    @contract("C17", name, funcs=[f"{L}:to_{name}", f"{L}:_split"], grid=_grid_rv, rtol=1e-9, atol=1e-9)
    def _(c):
        f = c.fn(f"{L}:to_{name}")
        r, v = c.vec("r", 3), c.vec("v", 3)
        h = cross(r, v)
        c.require(sym.Or(h[0] != 0, h[1] != 0, h[2] != 0) if c.symbolic else bool(np.linalg.norm(h.astype(float)) > 0), "nondegenerate")
        m = f(np.concatenate([r, v]))
        c.ensure("shape", m.shape == (3, 3))
        c.ensure("orthonormal", c.all_eq(m @ m.T, I3))
        c.ensure("det", c.eq(det3(m), 1))
        first = first_of(r, v)
        # first row is the unit vector along r (resp. v): parallel, same sense, unit length
        c.ensure("first.parallel", c.all_eq(cross(m[0], first), np.zeros(3, dtype=object), scale=None if c.symbolic else float(np.linalg.norm(first.astype(float)))))
        c.ensure("first.sense", c.is_true(dot(m[0], first) > 0))
        c.ensure("third.parallel", c.all_eq(cross(m[2], h), np.zeros(3, dtype=object), scale=None if c.symbolic else float(np.linalg.norm(h.astype(float)))))
        c.ensure("third.sense", c.is_true(dot(m[2], h) > 0))
        c.ensure("second.completes", c.all_eq(m[1], cross(m[2], m[0])))
    return _


_local_contract("qsw", lambda r, v: r)
_local_contract("tnw", lambda r, v: v)


@contract("C17", "to_local", funcs=[f"{L}:to_local"], grid=_grid_rv, rtol=1e-9, atol=1e-9,
          assumptions=["callee contracts used: to_qsw / to_tnw (proved above), expand (C02)"])
def _(c):
    """to_local dispatches on the frame name (any case), expands to 6x6 block-diagonal, rejects unknown names"""
    r, v = c.vec("r", 3), c.vec("v", 3)
    x = np.concatenate([r, v])
    name = c.choice("frame", ["QSW", "tnw", "Qsw"])
    if c.symbolic:
        h = cross(r, v)
        c.require(sym.Or(h[0] != 0, h[1] != 0, h[2] != 0), "nondegenerate")
        Q, T = c.mat("Q", 3, 3), c.mat("T", 3, 3)
        w = c.world(stubs={f"{L}:to_qsw": lambda o: Q.copy(), f"{L}:to_tnw": lambda o: T.copy()})
        to_local = w.fn(f"{L}:to_local")
        want = Q if name.upper() == "QSW" else T
    else:
        import beyond.frames.local as loc
        to_local = loc.to_local
        want = (loc.to_qsw if name.upper() == "QSW" else loc.to_tnw)(np.array(x, dtype=float))
    m3 = to_local(name, x, expanded=False)
    c.ensure("dispatch", c.all_eq(m3, want))
    m6 = to_local(name, x)
    Z = np.zeros((3, 3), dtype=object)
    c.ensure("expanded", c.all_eq(m6, np.block([[want, Z], [Z, want]])))
    c.ensure("unknown_rejected", c.raises(ValueError, lambda: to_local("LVLH", x)))


def _man_contract(kind):
    cls = "ImpulsiveMan" if kind == "dv" else "ContinuousMan"

    @contract("C17", f"man.{kind}", funcs=[f"{MAN}:{cls}.{kind}"], grid=_grid_rv, rtol=1e-9, atol=1e-9,
              assumptions=["callee contract used: to_local(frame, orb, expanded=False) returns the local-frame rotation M (orthonormal) -- proved in C17.qsw/tnw/to_local",
                           "StateVector ADT: copy(form='cartesian') of a cartesian state is an equal state"])
    def _(c):
        """the increment has exactly the stated components along the maneuver's axes and the stated magnitude"""
        r, v = c.vec("r", 3), c.vec("v", 3)
        d = c.vec("d", 3)
        tag = c.choice("frame", ["QSW", "TNW", None])
        # the tag as the caller spells it (the documented spellings are upper case; the constructors accept any case)
        spelled = tag if tag is None else c.choice("spelling", [tag, tag.lower(), tag.capitalize()])
        if c.symbolic:
            M = c.mat("M", 3, 3)
            c.require(c.all_eq(M @ M.T, I3), "callee.post.orthonormal")
            calls = []

            def stub(frame, orb, expanded=True):
                calls.append((frame, expanded, list(np.asarray(orb))))
                return M.copy()
            w = c.world(stubs={f"{L}:to_local": stub})
            orb = SymStateVector(list(r) + list(v), date=SymDate(0), form="cartesian", frame=None)
            if kind == "dv":
                man = w.new(f"{MAN}:ImpulsiveMan", SymDate(0), d, frame=spelled)     # through the real constructor
                out = man.dv(orb)
            else:
                man = w.new(f"{MAN}:ContinuousMan", SymDate(0), SymTimedelta(c.real("duration", lo=0)), accel=d, frame=spelled)
                out = man.accel(orb)
            if tag is None:
                c.ensure("inertial.unchanged", c.all_eq(out, d))
            else:
                c.ensure("callee.args", bool(len(calls) == 1 and calls[0][0] == tag and calls[0][1] is False) and c.all_eq(np.array(calls[0][2], dtype=object), np.concatenate([r, v])))
                c.ensure("components", c.all_eq(M @ out, d))
            c.ensure("magnitude", dot(out, out) == dot(d, d))
            c.ensure("orbit_untouched", c.all_eq(np.asarray(orb), np.concatenate([r, v])))
        else:
            import beyond.frames.local as loc
            import beyond.frames.frames as fr
            from beyond.orbits import StateVector
            from beyond.orbits.man import ImpulsiveMan, ContinuousMan
            from beyond.dates import Date
            from datetime import timedelta
            x = np.concatenate([r, v]).astype(float)
            c.require(np.linalg.norm(np.cross(x[:3], x[3:])) > 0)
            orb = StateVector(x, Date(58000), "cartesian", fr.EME2000)
            man = ImpulsiveMan(Date(58000), d, frame=spelled) if kind == "dv" else ContinuousMan(Date(58000), timedelta(seconds=10), accel=d, frame=spelled)
            out = man.dv(orb) if kind == "dv" else man.accel(orb)
            if tag is None:
                c.ensure("inertial.unchanged", c.all_eq(out, d))
            else:
                M = loc.to_local(tag, x, expanded=False)
                c.ensure("components", c.all_eq(M @ out, d))
            c.ensure("magnitude", c.eq(dot(out, out), dot(d, d)))
            c.ensure("orbit_untouched", c.all_eq(np.asarray(orb, dtype=float), x))
    return _


_man_contract("dv")
_man_contract("accel")


def _grid_cont(tier, rng):
    """date_pos in {start, median, stop} x dv-given / accel-given x durations {0.5, 60, 3600.25} s x 3 seeded vectors"""
    for pos in range(3):
        for given in (0, 1):
            for dur in (0.5, 60.0, 3600.25):
                for k in range(3):
                    d = {"pos": pos, "given": given, "dur": dur, "t": 1234.5}
                    d.update({f"u{i}": rng.uniform(-2, 2) for i in range(3)})
                    yield d


@contract("C17", "man.continuous_init", funcs=[f"{MAN}:ContinuousMan.__init__", f"{MAN}:ContinuousMan.check"], grid=_grid_cont, rtol=1e-9, atol=1e-6)
def _(c):
    """accel*duration = dv; stop-start = duration; start/median/stop placed as date_pos says; check() is [start, stop)"""
    pos = c.choice("pos", ["start", "median", "stop"])
    given = c.choice("given", ["dv", "accel"])
    dur = c.real("dur", lo=0)
    t = c.real("t")
    u = c.vec("u", 3)
    x = c.real("x") if c.symbolic else None
    if c.symbolic:
        w = c.world()
        man = w.new(f"{MAN}:ContinuousMan", SymDate(t), SymTimedelta(dur), date_pos=pos.upper() if pos == "median" else pos, **{given: list(u)})
        start, stop, median = man.start.t, man.stop.t, man.median.t
        acc, dv = man._accel, man._dv
        inside = man.check(SymDate(x))
        c.ensure("check.window", sym.And(sym.Implies(inside, sym.And(x >= start, x < stop)), sym.Implies(sym.And(x >= start, x < stop), inside)))
    else:
        from beyond.orbits.man import ContinuousMan
        from beyond.dates import Date
        from datetime import timedelta
        d0 = Date(58000)
        man = ContinuousMan(d0 + timedelta(seconds=t), timedelta(seconds=dur), date_pos=pos, **{given: list(u)})
        start, stop, median = [(z - d0).total_seconds() for z in (man.start, man.stop, man.median)]
        acc, dv = man._accel, man._dv
        c.ensure("check.window", man.check(man.start) and not man.check(man.stop) and man.check(man.median))
    c.ensure("duration", c.eq(stop - start, dur))
    c.ensure("median", c.eq(median - start, dur / 2))
    anchor = {"start": start, "median": median, "stop": stop}[pos]
    c.ensure("anchor", c.eq(anchor, t))
    c.ensure("dv_accel", c.all_eq(acc * dur, dv))
    c.ensure("given_kept", c.all_eq(dv if given == "dv" else acc, u))
    c.ensure("both_rejected", c.raises(ValueError, lambda: (c.world().new(f"{MAN}:ContinuousMan", SymDate(t), SymTimedelta(dur), dv=[1, 0, 0], accel=[1, 0, 0]) if c.symbolic else __import__("beyond.orbits.man", fromlist=["x"]).ContinuousMan(man.date, man.duration, dv=[1, 0, 0], accel=[1, 0, 0]))))


@contract("C17", "man.once", funcs=[f"{MAN}:ImpulsiveMan.check"])
def _(c):
    """windows (t_k, t_k+h] of a fixed-step march t_k = t0 + k h are disjoint and cover (t0, t0+K h]:
    an impulse strictly inside the span fires in exactly one step, no later than one step after its date"""
    if not c.symbolic:
        return
    w = c.world()
    t0, h, d = c.real("t0"), c.real("h", lo=0), c.real("d")
    k, j = c.integer("k"), c.integer("j")
    man = w.obj(f"{MAN}:ImpulsiveMan", date=SymDate(d))
    step = SymTimedelta(h)
    fk = man.check(SymDate(t0 + k * h), step)
    fj = man.check(SymDate(t0 + j * h), step)
    c.ensure("window.def", sym.And(sym.Implies(fk, sym.And(t0 + k * h < d, d <= t0 + k * h + h)), sym.Implies(sym.And(t0 + k * h < d, d <= t0 + k * h + h), fk)))
    c.ensure("disjoint", sym.Implies(sym.And(fk, fj), k == j))
    c.ensure("no_later_than_one_step", sym.Implies(fk, sym.And(t0 + (k + 1) * h >= d, t0 + (k + 1) * h - d < h)))
    # coverage: the step index  k* = ceil((d-t0)/h) - 1  fires; u = (d-t0)/h
    u = c.real("u")
    c.require(u * h == d - t0)
    K = c.integer("K", lo=1)
    c.require(sym.And(u > 0, u <= K))
    kk = c.integer("kstar")
    c.require(sym.And(kk < u, u <= kk + 1), "kstar=ceil(u)-1")
    fs = man.check(SymDate(t0 + kk * h), step)
    c.ensure("covered", sym.And(fs, kk >= 0, kk < K))


# ---------------------------------------------------------------------------------------------
# bounded: maneuvers in a numerical propagation take effect exactly once, with the stated delta-v
# ---------------------------------------------------------------------------------------------

def _grid_nummans(tier, rng):
    """methods {rk4@30 s, dopri54@60 s, dopri54@300 s, rkf54@120 s} x frame tags {TNW, QSW, inertial} x maneuver dates {on the grid, off the grid}
    x order of the maneuvers in the orbit's list {by date, latest first, neither}"""
    for m in range(4):
        for tag in range(3):
            for on in (0, 1):
                yield {"method": m, "tag": tag, "ongrid": on, "order": (m + tag + on) % 3}


@contract("C17", "num.maneuvers_native", funcs=["beyond.propagators.keplernum:KeplerNum._make_step", f"{MAN}:ImpulsiveMan.dv", f"{MAN}:ImpulsiveMan.check"],
          grid=_grid_nummans, level="bounded")
def _(c):
    """bounded: a numerical propagation through three impulsive maneuvers ends where an independent piecewise two-body solution with the
    stated delta-v (projected on independently computed axes) applied exactly once at each date ends (tolerance: integration error + one step
    of late application); adaptive and fixed-step methods"""
    from beyond.orbits import Orbit
    from beyond.dates import Date, timedelta
    from beyond.propagators.keplernum import KeplerNum
    from beyond.env.solarsystem import get_body
    from beyond.orbits.man import ImpulsiveMan
    from beyond.constants import Earth
    from contracts import twobody
    from contracts.c19_mission import _kep2cart
    method, st = [("rk4", 30.0), ("dopri54", 60.0), ("dopri54", 300.0), ("rkf54", 120.0)][c.integer("method")]
    tag = ["TNW", "QSW", None][c.integer("tag")]
    mu = Earth.mu
    r0, v0 = _kep2cart(7.0e6, 0.01, 0.9, 1.0, 2.0, 0.5, mu)
    d0 = Date(2018, 5, 4)
    offs = [600.0, 1500.0, 2400.0] if c.integer("ongrid") else [613.7, 1511.3, 2437.9]
    dvs = [np.array([1.5, 0.0, 0.0]), np.array([0.0, -2.0, 0.5]), np.array([-0.7, 0.3, 1.1])]
    mans = [ImpulsiveMan(d0 + timedelta(seconds=t), dv, frame=tag) for t, dv in zip(offs, dvs)]
    orb = Orbit(list(r0) + list(v0), d0, "cartesian", "EME2000", KeplerNum(timedelta(seconds=st), get_body("Earth"), method=method))
    # the list an orbit carries is in whatever order the maneuvers were appended (a correction burn added afterwards comes last)
    orb.maneuvers = [mans[j] for j in ([0, 1, 2], [2, 1, 0], [1, 2, 0])[c.integer("order")]]
    end = 3600.0
    res = np.asarray(orb.propagate(d0 + timedelta(seconds=end)), dtype=float)

    def axes(r, v):
        if tag is None:
            return np.identity(3)
        h = np.cross(r, v)
        w_ = h / np.linalg.norm(h)
        if tag == "QSW":
            q = r / np.linalg.norm(r)
            return np.array([q, np.cross(w_, q), w_])
        t_ = v / np.linalg.norm(v)
        return np.array([t_, np.cross(w_, t_), w_])
    r, v, t = np.array(r0), np.array(v0), 0.0
    for off, dv in zip(offs, dvs):
        r, v = twobody.propagate(r, v, off - t, mu)
        v = v + axes(r, v).T @ dv
        t = off
    r, v = twobody.propagate(r, v, end - t, mu)
    # a late application by up to one step displaces by |dv| * step at most; integration error is well below that
    tol = 3 * 2.3 * st + 30.0
    c.ensure("final_position", bool(np.linalg.norm(res[:3] - r) <= tol))
    # a late application also turns the local axes by n*step: |dv| n step per maneuver, plus the gravity difference over the delay
    c.ensure("final_velocity", bool(np.linalg.norm(res[3:] - v) <= 0.1 + 3 * 2.3 * 1.2e-3 * st * 2))


# ---------------------------------------------------------------------------------------------
# maneuvers given as increments of semi-major axis, inclination, node
# ---------------------------------------------------------------------------------------------

def _orb_standin(mu, a, i, v):
    return types.SimpleNamespace(frame=types.SimpleNamespace(center=types.SimpleNamespace(body=types.SimpleNamespace(mu=mu))),
                                 infos=types.SimpleNamespace(kep=types.SimpleNamespace(a=a, i=i), v=v))


@contract("C17", "dkep2dv", funcs=[f"{MAN}:dkep2dv", f"{MAN}:dkep2aol"], level="proof",
          assumptions=["first-order theory (Gauss equations, near-circular orbit): d a = 2 a^2 v dv_T / mu; a rotation of the velocity by the small angle delta about the radius, at argument of "
                       "latitude u, changes the inclination by delta cos u and the node by delta sin u / sin i -- the contract pins the code to these closed forms, their "
                       "first-order validity is exercised by the bounded C17.dkep.native",
                       ])
def _(c):
    """proved: dkep2dv returns, in TNW, the vector that turns the velocity by delta = sqrt(di^2 + (dOmega sin i)^2) about the radius and changes its magnitude by
    mu da / (2 v a^2): the new velocity (v + dv_T, dv_W) is v_f (cos delta, sin delta), no N part, |dv|^2 = v^2 + v_f^2 - 2 v v_f cos(delta) -- for every request, zero
    included; dkep2aol returns the argument of latitude u with delta cos u = di and delta sin u = dOmega sin i"""
    if not c.symbolic:
        return
    mu, a, v = c.real("mu", lo=0), c.real("a", lo=0), c.real("v", lo=0)
    i = c.real("i")
    da, di, dO = c.real("da"), c.real("di"), c.real("dOmega")
    c.require(sym.And(mu > 0, a > 0, v > 0))
    w = c.world()
    orb = _orb_standin(mu, a, i, v)
    # the angle of the plane rotation: never negative, its square is the first-order spherical-triangle relation
    si = sym.sin(i)
    dv_a = mu * da / (2 * v * a * a)
    vf = v + dv_a
    c.require(vf > 0, "the requested change of semi-major axis does not reverse the velocity")
    out = w.fn(f"{MAN}:dkep2dv")(orb, da=da, di=di, dOmega=dO)
    delta = sym.sqrt(di ** 2 + dO ** 2 * sym.sin(i) ** 2)
    cd, sd = sym.cos(delta), sym.sin(delta)
    c.ensure("no_component_along_N", out[1] == 0)
    c.ensure("new_velocity_makes_the_angle_delta", sym.And(v + out[0] == vf * cd, out[2] == vf * sd))
    c.ensure("new_speed_is_v_final", (v + out[0]) * (v + out[0]) + out[2] * out[2] == vf * vf, budget_ms=60000)
    c.ensure("triangle_closed", out[0] * out[0] + out[2] * out[2] == v * v + vf * vf - 2 * v * vf * cd, budget_ms=60000)
    c.require(sym.Or(di != 0, dO * sym.sin(i) != 0), "a plane change is asked")
    u = w.fn(f"{MAN}:dkep2aol")(orb, di, dO)
    c.ensure("aol.inclination_part", delta * sym.cos(u) == di, budget_ms=60000)
    c.ensure("aol.node_part", delta * sym.sin(u) == dO * sym.sin(i), budget_ms=60000)


def _grid_dkep(tier, rng):
    """inclinations {20, 51.6, 98, 120 deg} x eccentricity {0.0005, 0.01} x requests: da in {10 m, 1 km, 50 km}, di in {1e-6, 1e-4, 5e-3}, dOmega in {1e-6, 1e-4, 5e-3}, and
    combined (di, dOmega) of either sign -- impulsive and continuous (60 s) forms"""
    reqs = [(10.0, 0, 0), (1.0e3, 0, 0), (5.0e4, 0, 0), (-1.0e3, 0, 0), (0, 1e-6, 0), (0, 1e-4, 0), (0, 5e-3, 0), (0, -1e-4, 0), (0, 0, 1e-6), (0, 0, 1e-4), (0, 0, 5e-3), (0, 0, -1e-4),
            (0, 1e-4, 2e-4), (0, -2e-4, 1e-4), (0, 1e-4, -1e-4), (500.0, 1e-4, 1e-4)]
    for inc in (20.0, 51.6, 98.0, 120.0):
        for e in (0.0005, 0.01):
            for k, (da, di, dO) in enumerate(reqs):
                yield {"inc": inc, "e": e, "da": da, "di": di, "dO": dO, "cont": (k + int(inc)) % 2}


@contract("C17", "dkep.native", funcs=[f"{MAN}:KeplerianImpulsiveMan.dv", f"{MAN}:KeplerianContinuousMan.accel", f"{MAN}:dkep2dv", f"{MAN}:dkep2aol", f"{L}:to_tnw"],
          grid=_grid_dkep, level="bounded")
def _(c):
    """bounded: the delta-v of a maneuver given as (da, di, dOmega), applied at the argument of latitude dkep2aol names (anywhere for a pure da), is finite and changes the
    osculating semi-major axis, inclination and node (computed from the vector definitions by independent code) by the requested amounts to first order: relative error
    below 2 % + the second-order terms, the other two elements moving by less than 2 % of the equivalent request"""
    from beyond.orbits import StateVector
    from beyond.dates import Date, timedelta
    from beyond.orbits.man import KeplerianImpulsiveMan, KeplerianContinuousMan, dkep2aol
    from beyond.constants import Earth
    from contracts import twobody
    from contracts.c19_mission import _kep2cart
    mu = Earth.mu
    inc, e = math.radians(c.real("inc")), c.real("e")
    da, di, dO = c.real("da"), c.real("di"), c.real("dO")
    a0, O0, w0 = 7.1e6, 1.0, 0.4
    d0 = Date(2018, 5, 4)
    probe = StateVector(list(np.concatenate(_kep2cart(a0, e, inc, O0, w0, 0.3, mu))), d0, "cartesian", "EME2000")
    u = float(dkep2aol(probe, di, dO)) if (di or dO) else 1.3
    r0, v0 = _kep2cart(a0, e, inc, O0, w0, (u - w0) % (2 * math.pi), mu)
    sv = StateVector(list(r0) + list(v0), d0, "cartesian", "EME2000")
    if c.integer("cont"):
        man = KeplerianContinuousMan(d0, timedelta(seconds=60), da=da, di=di, dOmega=dO)
        dv = np.asarray(man.accel(sv), dtype=float) * 60.0
    else:
        dv = np.asarray(KeplerianImpulsiveMan(d0, da=da, di=di, dOmega=dO).dv(sv), dtype=float)
    c.ensure("finite", bool(np.all(np.isfinite(dv))))
    a1, e1, i1, O1, w1, nu1 = twobody.elements(r0, v0 + dv, mu)
    a_, e_, i_, O_, w_, nu_ = twobody.elements(r0, v0, mu)
    got = (a1 - a_, i1 - i_, (O1 - O_ + math.pi) % (2 * math.pi) - math.pi)
    # sizes in velocity units, to compare the three requests with each other
    vn = float(np.linalg.norm(v0))
    size = (abs(da) * mu / (2 * vn * a_ ** 2), abs(di) * vn, abs(dO) * math.sin(inc) * vn)
    total = max(sum(size), 1e-12)
    unit = (mu / (2 * vn * a_ ** 2), vn, math.sin(inc) * vn)
    ok = True
    for want, g, un in zip((da, di, dO), got, unit):
        err = abs(g - want) * un
        # first order: relative 2 % of the whole request, plus second-order terms (total^2 / v) and the eccentricity's share
        ok = ok and err <= 0.02 * total + 3 * total ** 2 / vn + 2.5 * e * total
    c.ensure("increments_realised_to_first_order", ok)


# ---------------------------------------------------------------------------------------------
# frames attached to an orbit
# ---------------------------------------------------------------------------------------------

ORI = "beyond.frames.orient"


@contract("C17", "lof", funcs=[f"{ORI}:LocalOrbitalOrientation.__init__", f"{ORI}:LocalOrbitalOrientation._to_parent"], level="proof",
          assumptions=["callee contracts: to_local(kind, state) (C17.to_local / qsw / tnw: the proper rotation parent axes -> local axes of that state); state.propagate(date) returns the "
                       "state at `date`; state.copy(form, frame) is the same state in that form and frame (C01, C02)"])
def _(c):
    """proved: a local orbital orientation publishes its provider as <name>_to_<parent orientation> and links itself to the parent's orientation only; the provider returns the
    transpose of to_local(kind, s) -- i.e. the rotation local -> parent -- for s the attached state *at the requested date* (propagated when it can be, as given otherwise)
    expressed in cartesian form in the parent frame, and no rotation rate"""
    if not c.symbolic:
        return
    log = []
    M = np.array([[c.real(f"m{i}{j}") for j in range(3)] for i in range(3)], dtype=object)
    moving = bool(c.boolean("attached_state_can_be_propagated"))
    kind = c.choice("kind", ["QSW", "TNW"])

    class State:
        def __init__(self, tag):
            self.tag = tag

        def copy(self, form=None, frame=None):
            log.append(("copy", self.tag, form, frame))
            return State((self.tag, form, frame))
    attached = State("attached")
    if moving:
        attached.propagate = lambda d: log.append(("propagate", d)) or State(("at", d))

    def to_local(kind_, sv, expanded=True):
        log.append(("to_local", kind_, sv.tag, expanded))
        return M
    links = []

    class POrient:
        name = "PARENT"

        def __add__(self, other):
            links.append(other)
            return self
    parent = types.SimpleNamespace(orientation=POrient(), name="PARENT_FRAME")   # (a frame's name need not be its orientation's: body-centred frames keep EME2000 axes)
    w = c.world(names={ORI: {"local": types.SimpleNamespace(to_local=to_local)}})
    lof = w.new(f"{ORI}:LocalOrbitalOrientation", "LOF", attached, kind, parent)
    c.ensure("linked_to_the_parent_orientation_only", len(links) == 1 and links[0] is lof)
    import beyond.frames.orient as real_orient
    c.ensure("provider_published_under_the_parent_orientation_name", callable(getattr(real_orient.Orientation, "LOF_to_PARENT", None)))
    date = object()
    m, rate = lof._to_parent(date)
    c.ensure("no_rate", rate is None)
    c.ensure("is_the_transpose_of_to_local", c.all_eq(np.asarray(m, dtype=object), M.T))
    src = ("at", date) if moving else "attached"
    c.ensure("state_at_the_requested_date_in_the_parent_frame", [x for x in log if x[0] != "propagate"] == [("copy", src, "cartesian", parent), ("to_local", kind, (src, "cartesian", parent), False)]
             and ([x for x in log if x[0] == "propagate"] == ([("propagate", date)] if moving else [])))


_PARENTS = {}


def _grid_oframe(tier, rng):
    """reference orbits {LEO inclined, Molniya} x axes {QSW, TNW, inertial} x reference given as {state vector, Kepler orbit, ephemeris} x held in {cartesian, keplerian} form x
    dates {epoch, +1000 s, -2500 s} x 3 seeded probe states"""
    for o in (0, 1):
        for ax in (0, 1, 2):
            for mv in (0, 1, 2):
                for dt in (0.0, 1000.0, -2500.0):
                    if not mv and dt:
                        continue
                    for form in (0, 1):
                        yield {"orbit": o, "axes": ax, "moving": mv, "dt": dt, "seed": o * 7 + ax, "form": form, "parent": 0}
    # local frames whose parent is a body-centred frame (its name is not the name of its orientation)
    for ax in (0, 1):
        for mv in (0, 1):
            yield {"orbit": 2, "axes": ax, "moving": mv, "dt": 500.0 * mv, "seed": 40 + ax, "form": 0, "parent": 1}
    # a reference orbit given in TEME whose propagator (numerical, point-mass Earth) delivers its states in another frame (EME2000)
    for ax in (0, 1, 2):
        for dt in (0.0, 1000.0):
            yield {"orbit": 0, "axes": ax, "moving": 3, "dt": dt, "seed": 60 + ax, "form": 0, "parent": 0}
    # a reference orbit made from a TLE (mean elements, SGP4): the origin is where SGP4 puts it -- at the very epoch of the TLE as well, where the stored mean elements
    # are NOT the state
    for ax in (0, 1, 2):
        for dt in (0.0, 1000.0, -0.001):
            yield {"orbit": 0, "axes": ax, "moving": 4, "dt": dt, "seed": 70 + ax, "form": 0, "parent": 0}


@contract("C17", "orbit_frame.native", funcs=["beyond.frames.frames:orbit2frame", f"{ORI}:LocalOrbitalOrientation._to_parent", "beyond.frames.center:Center._to_parent", f"{L}:to_local"],
          grid=_grid_oframe, level="bounded")
def _(c):
    """bounded: a frame attached to an orbit places that orbit at its origin at every date (the propagated orbit when it has a propagator; at rest there when the axes are
    inertial), converts any other state to and from its parent frame without loss (1e-6 m, 1e-9 m/s), and its axes are the radial / velocity direction, the angular momentum
    and their completion of the orbit at that date"""
    from beyond.orbits import Orbit, StateVector
    from beyond.dates import Date, timedelta
    from beyond.propagators.kepler import Kepler
    from beyond.frames.frames import orbit2frame
    from beyond.constants import Earth
    from contracts.c19_mission import _kep2cart
    a, e, i, O, w_, nu = [(6.9e6, 0.002, 0.9, 1.0, 2.0, 0.5), (2.66e7, 0.72, 1.1, 2.0, 4.7, 2.8), (2.0e6, 0.01, 1.2, 0.3, 1.0, 2.0)][c.integer("orbit")]
    pframe, mu_ = "EME2000", Earth.mu
    if c.integer("parent"):
        from beyond.env import solarsystem
        from beyond.constants import Moon
        if "moon" not in _PARENTS:
            _PARENTS["moon"] = solarsystem.get_frame("Moon")
        pframe, mu_ = _PARENTS["moon"], Moon.mu
    r0, v0 = _kep2cart(a, e, i, O, w_, nu, mu_)
    d0 = Date(2018, 5, 4, 3, 2, 1)
    axes = [("QSW"), ("TNW"), None][c.integer("axes")]
    x0 = list(r0) + list(v0)
    form = ["cartesian", "keplerian"][c.integer("form")]
    if c.integer("moving") == 3:
        from beyond.propagators.keplernum import KeplerNum
        from beyond.env.solarsystem import get_body
        pframe = "TEME"
        ref = Orbit(x0, d0, "cartesian", "TEME", KeplerNum(timedelta(seconds=60), get_body("Earth")))   # (propagates, and answers, in EME2000)
    elif c.integer("moving") == 4:
        from beyond.io.tle import Tle
        from contracts.c08_iteration import TLE_TXT
        pframe = "TEME"
        ref = Tle(TLE_TXT).orbit()
        d0 = ref.date
        form = "tle"
    else:
        ref = Orbit(x0, d0, "cartesian", pframe, Kepler()) if c.integer("moving") else StateVector(x0, d0, "cartesian", pframe)
    ref.form = form
    if c.integer("moving") == 2:
        # an ephemeris (held in that form) of the same orbit
        from beyond.orbits import Ephem
        ref = Ephem([ref.propagate(d0 + timedelta(seconds=-3000.0 + 100.0 * k)).copy(form=form) for k in range(51)])
    kwp = {"parent": pframe} if c.integer("parent") else {}
    fr = orbit2frame(f"OF{c.integer('orbit')}{c.integer('axes')}{c.integer('moving')}{int(c.real('dt'))}{c.integer('form')}", ref, orientation=axes, exists_warning=False, **kwp)
    date = d0 + timedelta(seconds=c.real("dt"))
    at = (ref.propagate(date) if c.integer("moving") else ref).copy(form="cartesian")  # (a state at the origin has no keplerian elements: observed in cartesian form)
    if c.integer("moving") == 3:
        at = at.copy(frame=pframe)
    here = np.asarray(at.copy(frame=fr), dtype=float)
    c.ensure("orbit_at_the_origin", bool(np.linalg.norm(here[:3]) <= 1e-6))
    if axes is None:
        c.ensure("orbit_at_rest_in_its_frame", bool(np.linalg.norm(here[3:]) <= 1e-9))
    rng = np.random.default_rng(c.integer("seed"))
    r, v = np.asarray(at, dtype=float)[:3], np.asarray(at, dtype=float)[3:]
    h = np.cross(r, v)
    first = (r if axes == "QSW" else v) if axes else np.array([1.0, 0, 0])
    ok_rt = ok_axes = True
    for k in range(3):
        probe = StateVector(list(r + rng.normal(size=3) * 2.0e3) + list(v + rng.normal(size=3) * 2.0), date, "cartesian", pframe)
        there = probe.copy(frame=fr)
        back = np.asarray(there.copy(frame=pframe), dtype=float)
        ok_rt = ok_rt and bool(np.linalg.norm(back[:3] - np.asarray(probe, dtype=float)[:3]) <= 1e-6 and np.linalg.norm(back[3:] - np.asarray(probe, dtype=float)[3:]) <= 1e-9)
        if axes:
            d = np.asarray(probe, dtype=float)[:3] - r
            u1 = first / np.linalg.norm(first)
            u3 = h / np.linalg.norm(h)
            u2 = np.cross(u3, u1)
            want = np.array([d @ u1, d @ u2, d @ u3])
            ok_axes = ok_axes and bool(np.linalg.norm(np.asarray(there, dtype=float)[:3] - want) <= 1e-6)
    c.ensure("round_trip_without_loss", ok_rt)
    c.ensure("axes_are_those_of_the_orbit_at_that_date", ok_axes)


def _grid_forms_man(tier, rng):
    """maneuver kinds {impulsive, continuous, keplerian impulsive, keplerian continuous} x axes {TNW, QSW, inertial} x the form the state is handed over in {cartesian,
    keplerian, keplerian_mean, spherical, equinoctial} x 2 orbits"""
    for kind in range(4):
        for tag in range(3):
            for form in range(5):
                for o in range(2):
                    if kind >= 2 and tag:
                        continue
                    yield {"kind": kind, "tag": tag, "form": form, "orbit": o}


@contract("C17", "man.any_form", funcs=[f"{MAN}:ImpulsiveMan.dv", f"{MAN}:ContinuousMan.accel", f"{MAN}:KeplerianImpulsiveMan.dv", f"{MAN}:KeplerianContinuousMan.accel"],
          grid=_grid_forms_man, level="bounded")
def _(c):
    """bounded: the delta-v / acceleration a maneuver contributes is a property of the state, not of the element form it is handed over in: the same vector (1e-9 relative)
    for the cartesian, keplerian, mean, spherical and equinoctial views of one state, along independently computed T/N/W or Q/S/W axes with exactly the stated components"""
    from beyond.orbits import StateVector
    from beyond.dates import Date, timedelta
    from beyond.orbits.man import ImpulsiveMan, ContinuousMan, KeplerianImpulsiveMan, KeplerianContinuousMan
    from beyond.constants import Earth
    from contracts.c19_mission import _kep2cart
    a, e, i, O, w_, nu = [(7.0e6, 0.1, 0.9, 1.0, 2.0, 0.5), (2.66e7, 0.72, 1.1, 2.0, 4.7, 2.8)][c.integer("orbit")]
    r0, v0 = _kep2cart(a, e, i, O, w_, nu, Earth.mu)
    d0 = Date(2018, 5, 4)
    cart = StateVector(list(r0) + list(v0), d0, "cartesian", "EME2000")
    form = ["cartesian", "keplerian", "keplerian_mean", "spherical", "equinoctial"][c.integer("form")]
    view = cart.copy(form=form)
    tag = ["TNW", "QSW", None][c.integer("tag")]
    comp = np.array([0.7, -0.2, 0.4])
    kind = c.integer("kind")
    if kind == 0:
        f = lambda s: np.asarray(ImpulsiveMan(d0, comp, frame=tag).dv(s), dtype=float)
    elif kind == 1:
        f = lambda s: np.asarray(ContinuousMan(d0, timedelta(seconds=10), accel=comp, frame=tag).accel(s), dtype=float)
    elif kind == 2:
        f = lambda s: np.asarray(KeplerianImpulsiveMan(d0, da=500.0, di=1e-4, dOmega=-2e-4).dv(s), dtype=float)
    else:
        f = lambda s: np.asarray(KeplerianContinuousMan(d0, timedelta(seconds=10), da=500.0, di=1e-4, dOmega=-2e-4).accel(s), dtype=float)
    ref, got = f(cart), f(view)
    c.ensure("same_for_every_form_of_the_state", bool(np.linalg.norm(got - ref) <= 1e-9 * np.linalg.norm(ref)))
    # one maneuver object asked for several states (a maneuver plan shared by two spacecraft, a re-propagation): each answer is the one a fresh object gives for that state
    other = StateVector(list(_kep2cart(1.2e7, 0.05, 0.4, 3.0, 1.0, 4.0, Earth.mu)[0]) + list(_kep2cart(1.2e7, 0.05, 0.4, 3.0, 1.0, 4.0, Earth.mu)[1]), d0, "cartesian", "EME2000")
    mk = [lambda: ImpulsiveMan(d0, comp, frame=tag), lambda: ContinuousMan(d0, timedelta(seconds=10), accel=comp, frame=tag),
          lambda: KeplerianImpulsiveMan(d0, da=500.0, di=1e-4, dOmega=-2e-4), lambda: KeplerianContinuousMan(d0, timedelta(seconds=10), da=500.0, di=1e-4, dOmega=-2e-4)][kind]
    ask = (lambda m, s_: np.asarray(m.dv(s_), dtype=float)) if kind in (0, 2) else (lambda m, s_: np.asarray(m.accel(s_), dtype=float))
    shared = mk()
    first, second, again = ask(shared, cart), ask(shared, other), ask(shared, cart)
    fresh_second = ask(mk(), other)
    c.ensure("one_object_many_states", bool(np.linalg.norm(second - fresh_second) <= 1e-12 * np.linalg.norm(fresh_second) and np.linalg.norm(again - first) <= 1e-12 * np.linalg.norm(first)
                                            and np.linalg.norm(first - ref) <= 1e-12 * np.linalg.norm(ref)))
    if kind < 2:
        r, v = np.asarray(r0), np.asarray(v0)
        h = np.cross(r, v)
        u3 = h / np.linalg.norm(h)
        if tag == "TNW":
            u1 = v / np.linalg.norm(v)
        elif tag == "QSW":
            u1 = r / np.linalg.norm(r)
        if tag:
            u2 = np.cross(u3, u1)
            want = comp[0] * u1 + comp[1] * u2 + comp[2] * u3
        else:
            want = comp
        c.ensure("stated_components_along_the_axes", bool(np.linalg.norm(got - want) <= 1e-9 * np.linalg.norm(want)))
