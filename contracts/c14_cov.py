"""C14: covariance frame changes (beyond/orbits/cov.py, StateVector.frame setter)."""
import itertools
import types

import numpy as np
import z3

from pyvc.contract import contract
from pyvc import sym, amat
from pyvc.amat import AMat, ABase
from pyvc.adt import SymDate

COV = "beyond.orbits.cov"
SV = "beyond.orbits.statevector"
LOCALS = ("QSW", "TNW")

REAL_FRAMES = ["EME2000", "MOD", "TOD", "TEME", "GCRF", "CIRF", "G50", "ITRF", "PEF", "TIRF"]
INERTIAL = REAL_FRAMES[:7]


class _Orient:
    """abstract orientation of an abstract frame: convert_to returns the abstract rotation R(a,b)"""

    def __init__(self, fz):
        self.fz = fz

    def convert_to(self, date, other):
        return AMat.R(self.fz, other.fz)


class _Frame:
    def __init__(self, name):
        self.name = name
        self.fz = name
        self.orientation = _Orient(self.fz)

    def __repr__(self):
        return self.name


class _OrbStub:
    """private state copy held by the covariance: what matters is the frame its numbers are expressed in"""

    def __init__(self, frame, sid):
        self.frame, self.sid, self.date, self.cov = frame, sid, SymDate(0), None
        self.form = "cartesian"

    @property
    def state(self):
        return amat.state(self.sid, self.frame.fz)

    def copy(self, frame=None, form=None, same=None):
        o = _OrbStub(self.frame if frame is None else frame, self.sid)
        return o


def _mk_cov(c, frames, f0, attach):
    """a Cov stand-in (shadow of the real class) expressed in f0, attached to a state given in `attach`"""
    amat.install_axioms(c.run)
    C0 = AMat.gen("C0", symmetric=True)
    sid = "orbit"

    def to_local(kind, orb, expanded=True):
        if not expanded:
            raise sym.EngineLimit("3x3 local matrix requested by Cov")
        return AMat.L(kind, orb.state)
    w = c.world(stubs={"beyond.frames.local:to_local": to_local},
                names={COV: {"get_frame": lambda name: frames[name]}})
    w.np.identity = lambda n: AMat.I()
    cov = w.obj(f"{COV}:Cov")
    d = object.__getattribute__(cov, "__dict__")
    d["_data"] = {"frame": f0, "orb": _OrbStub(attach, sid)}
    d["_orb_frame"] = attach
    d["base"] = ABase(C0)
    return w, cov, C0, sid


def _expected(C0, f0, target, attach, sid):
    """R C R^T for the rotation from the axes C0 is given in onto the target axes; QSW/TNW are
    defined by the state expressed in the frame it was attached in (the property's wording)"""
    def lmat(kind):
        return AMat.L(kind, amat.state(sid, attach.fz))
    # current axes -> attachment frame
    if f0 in LOCALS:
        m1 = lmat(f0).T
    else:
        m1 = AMat.R(f0.fz, attach.fz)
    if target in LOCALS:
        m2 = lmat(target)
    else:
        m2 = AMat.R(attach.fz, target.fz)
    M = m2 @ m1
    return M @ C0 @ M.T


STATES = [[7e6 * 0.6, 7e6 * 0.5, 7e6 * 0.62, -4.5e3, 5.5e3, 1.2e3], [4.2164e7, 0.0, 1.0e5, -10.0, 3.0746e3, 5.0], [-1.2e7, 1.9e7, 8.0e6, -2.9e3, -2.1e3, 2.4e3],
          [6.9e6 * 0.1, -6.9e6 * 0.7, 6.9e6 * 0.7, 6.4e3, 2.2e3, 3.4e3],
          [7e6 * 0.6, 7e6 * 0.5, 7e6 * 0.62, -5.5e3, -3.5e3, 2.2e3]]      # (the last one on the inbound half of an eccentric orbit: r.v < 0)


def _real_setup(start, f0name, seed, state=0):
    import numpy as np
    from beyond.orbits import StateVector
    from beyond.orbits.cov import Cov
    from beyond.dates import Date
    from beyond.frames.frames import get_frame
    rng = np.random.default_rng(seed)
    A = rng.normal(size=(6, 6)) * np.array([1e3] * 3 + [1] * 3)
    C = A @ A.T
    sv = StateVector(STATES[state % len(STATES)], Date(2015, 3, 4, 5, 6, 7), "cartesian", get_frame(start))
    return sv, C


def _direct(sv, C, f0name, target):
    """independent R C R^T: rotations taken from Orientation.convert_to / to_local on the ORIGINAL state"""
    from beyond.frames.local import to_local
    from beyond.frames.frames import get_frame
    def lm(kind):
        return to_local(kind, np.asarray(sv, dtype=float))
    if f0name in LOCALS:
        m1 = lm(f0name).T
    else:
        m1 = get_frame(f0name).orientation.convert_to(sv.date, sv.frame.orientation)
    if target in LOCALS:
        m2 = lm(target)
    else:
        m2 = sv.frame.orientation.convert_to(sv.date, get_frame(target).orientation)
    M = m2 @ m1
    return M @ C @ M.T


CONC_TARGETS = ["<start>", "ITRF", "TOD", "QSW", "TNW", "EME2000", "MOD", "TEME", "GCRF", "CIRF", "G50", "PEF", "TIRF"]


def _grid_seq(tier, rng):
    """start frame in the non-rotating frames x all sequences of length 1..2 (quick: 3 start frames; thorough: all 7
    and length 3, plus 300 seeded sequences of length 4-5) over the 10 built-in frames + QSW/TNW, 1 seeded PSD matrix;
    initial covariance frame in {state frame, ITRF, QSW}; in a third of the cases each, the covariance is replaced on the way by a copy of itself / by the covariance
    of a copy of its state, and in half of those the next hop is made through copy(frame=...) instead of the setter"""
    nt = len(CONC_TARGETS)
    maxlen = 2 if tier == "quick" else 3
    starts = range(len(INERTIAL)) if tier != "quick" else (0, 3, 4)
    for si in starts:
        for f0 in (0, 1, 2):
            for n in range(1, maxlen + 1):
                if f0 and n > 2:
                    continue
                for j, seq in enumerate(itertools.product(range(1, nt), repeat=n)):
                    # (copy: after one of the steps the covariance is replaced by a copy of itself, or by the covariance of a copy of its state: 0 = never)
                    yield {"start": si, "len": n - 1, "f0": f0, **{f"t{i}": seq[i] for i in range(n)}, "seed": 1, "copy": (j + si + f0) % 3, "copy_at": (j // 3) % n}
    if tier != "quick":
        for k in range(300):
            n = rng.choice([4, 5])
            yield {"start": rng.randrange(len(INERTIAL)), "len": n - 1, "f0": 0, **{f"t{i}": rng.randrange(nt) for i in range(n)}, "seed": k, "copy": rng.randrange(3), "copy_at": rng.randrange(n)}


@contract("C14", "setter", funcs=[f"{COV}:Cov.frame.fset", f"{COV}:Cov.frame.fget"], grid=_grid_seq, rtol=1e-9, atol=1e-12,
          assumptions=["abstract rotation group (pyvc.amat rewrite rules): justified by C02 (frame rotations compose) and C17 (QSW/TNW orthogonal)",
                       "callee contracts used: to_local(kind, state) = L(kind, state expressed in the state's frame); Orientation.convert_to(date, o) = R(self, o)",
                       "trusted linear algebra: M C M^T is PSD when C is; similarity by an orthogonal 3x3 block preserves the position-block spectrum"])
def _(c):
    """after any sequence of `cov.frame = T` the matrix is R C R^T for the rotation from the original axes onto the
    last target's axes (QSW/TNW defined by the state in its attachment frame) -- whole matrix, path independent"""
    if c.symbolic:
        frames = {n: _Frame(n) for n in ("A", "B", "Cc")}
        A, B, Cc = frames["A"], frames["B"], frames["Cc"]
        targets = [A, B, Cc, "QSW", "TNW"]
        n = c.choice("len", [1, 2, 3])
        f0 = c.choice("f0", [A, B, "QSW"])
        if n == 3 and f0 is not A:
            raise sym.PathEnd("covered by shorter sequences")
        seq = [c.choice(f"t{i}", targets) for i in range(n)]
        w, cov, C0, sid = _mk_cov(c, frames, f0, A)
        for t in seq:
            cov.frame = t
        final = seq[-1]
        got = object.__getattribute__(cov, "__dict__")["base"].val
        c.ensure("frame", bool(cov.frame is final or cov.frame == final))
        want = _expected(C0, f0, final, A, sid)
        c.ensure_nf("view", got, want)
        # symmetric if C0 is (C0 is declared a symmetric generator)
        c.ensure_nf("symmetric", got.T, got)
    else:
        from beyond.orbits.cov import Cov
        from beyond.frames.frames import get_frame
        start = INERTIAL[c.integer("start") % len(INERTIAL)]
        targets = [start if t == "<start>" else t for t in CONC_TARGETS]
        n = c.choice("len", [1, 2, 3, 4, 5])
        f0name = c.choice("f0", [start, "ITRF", "QSW"])
        seq = [c.choice(f"t{i}", targets) for i in range(n)]
        sv, C = _real_setup(start, start, c.integer("seed"), state=(0, 4, 2)[(c.integer("copy") + c.integer("len")) % 3])
        # a second object first: ANOTHER state carrying the very same matrix in the same frame goes to the same targets before this one does (each covariance is rotated
        # onto the local axes of its OWN state: nothing may be remembered from one object to the next)
        sv_b, _ = _real_setup(start, start, c.integer("seed"), state=(1, 3, 4)[c.integer("copy_at") % 3])
        cov_b = Cov(sv_b, C, f0name if f0name in LOCALS else get_frame(f0name))
        for t in seq:
            cov_b.frame = t
        want_b = _direct(sv_b, C, f0name, seq[-1])
        scale_b = np.sqrt(np.abs(np.outer(np.diag(want_b), np.diag(want_b)))) + 1e-30
        c.ensure("view.other_state_first", bool(np.all(np.abs(np.asarray(cov_b, dtype=float) - want_b) <= 1e-7 * scale_b)))
        cov = Cov(sv, C, f0name if f0name in LOCALS else get_frame(f0name))
        how, at = c.integer("copy"), c.integer("copy_at")
        for j, t in enumerate(seq):
            if how and j == at + 1 and (at + j) % 2:
                # this hop is made by asking for a converted copy instead of converting in place
                cov = cov.copy(frame=t)
            else:
                cov.frame = t
            if how and j == at and j < len(seq) - 1:
                # a copy made on the way stands for the original from then on
                if how == 1:
                    cov = cov.copy()
                else:
                    holder = sv.copy()
                    holder._data["cov"] = cov
                    cov = holder.copy().cov
        want = _direct(sv, C, f0name, seq[-1])
        got = np.asarray(cov, dtype=float)
        scale = np.sqrt(np.abs(np.outer(np.diag(want), np.diag(want)))) + 1e-30
        c.ensure("view", bool(np.all(np.abs(got - want) <= 1e-7 * scale)))
        c.ensure("symmetric", bool(np.allclose(got, got.T, rtol=1e-9, atol=0)))
        if f0name not in LOCALS and seq[-1] not in LOCALS or True:
            ev0, ev1 = np.linalg.eigvalsh(C[:3, :3]), np.linalg.eigvalsh(got[:3, :3])
            c.ensure("position_spectrum", bool(np.allclose(ev0, ev1, rtol=1e-6)))
        c.ensure("psd", bool(np.linalg.eigvalsh((got + got.T) / 2).min() >= -1e-9 * abs(np.linalg.eigvalsh(C).max())))
        cov.frame = f0name if f0name in LOCALS else get_frame(f0name)
        back = np.asarray(cov, dtype=float)
        sc0 = np.sqrt(np.outer(np.diag(C), np.diag(C))) + 1e-30
        c.ensure("back", bool(np.all(np.abs(back - C) <= 1e-7 * sc0)))


def _grid_moved(tier, rng):
    """start frame in 3 non-rotating frames x the frame the STATE is moved to first {ITRF, PEF, TIRF, TOD, GCRF} (in place or through a converted copy) x final target of the
    covariance {QSW, TNW, start, ITRF, MOD} x 2 states"""
    for si in (0, 3, 4):
        for mv in range(5):
            for how in (0, 1):
                for tg in range(5):
                    yield {"start": si, "moved_to": mv, "how": how, "target": tg, "state": (si + mv + tg) % 2}


@contract("C14", "state_moved_first", funcs=[f"{SV}:StateVector.frame.fset", f"{COV}:Cov.frame.fset", f"{COV}:Cov.orb.fset", f"{COV}:Cov.__new__"], grid=_grid_moved, level="bounded")
def _(c):
    """bounded: a covariance expressed in its state's (inertial) frame follows the state when the STATE is moved to another frame -- Earth-fixed ones included -- and when it
    is then expressed in QSW / TNW (or any other frame) the result is still R C R^T for the rotation from the original axes, QSW / TNW being defined by the INERTIAL position
    and velocity the covariance was attached with; going back restores the original matrix"""
    from beyond.orbits.cov import Cov
    from beyond.frames.frames import get_frame
    start = INERTIAL[c.integer("start") % len(INERTIAL)]
    sv, C = _real_setup(start, start, 1, state=c.integer("state"))
    sv0 = sv.copy()
    sv.cov = Cov(sv, C, get_frame(start))
    moved_to = ["ITRF", "PEF", "TIRF", "TOD", "GCRF"][c.integer("moved_to")]
    if c.integer("how") == 0:
        sv.frame = moved_to
        holder = sv
    else:
        holder = sv.copy(frame=moved_to)
    want_follow = _direct(sv0, C, start, moved_to)
    got_follow = np.asarray(holder.cov, dtype=float)
    sc = np.sqrt(np.abs(np.outer(np.diag(want_follow), np.diag(want_follow)))) + 1e-30
    c.ensure("follows_the_state", bool(str(holder.cov.frame) == moved_to and np.all(np.abs(got_follow - want_follow) <= 1e-7 * sc)))
    # ... and when the state is moved a SECOND time (a third, back): the covariance that has followed once follows again
    chain = holder.copy()
    hops = [h for h in (["MOD", "ITRF", "TOD", "GCRF", "PEF"][c.integer("target")], start) if h != str(chain.frame)]
    ok_again = True
    for hop in hops:
        chain.frame = hop
        want_h = _direct(sv0, C, start, hop)
        got_h = np.asarray(chain.cov, dtype=float)
        sc_h = np.sqrt(np.abs(np.outer(np.diag(want_h), np.diag(want_h)))) + 1e-30
        ok_again = ok_again and bool(str(chain.cov.frame) == hop and np.all(np.abs(got_h - want_h) <= 1e-7 * sc_h))
    c.ensure("follows_the_state_again", ok_again)
    target = ["QSW", "TNW", start, "ITRF", "MOD"][c.integer("target")]
    holder.cov.frame = target
    want = _direct(sv0, C, start, target)
    got = np.asarray(holder.cov, dtype=float)
    sc = np.sqrt(np.abs(np.outer(np.diag(want), np.diag(want)))) + 1e-30
    c.ensure("then_expressed_elsewhere", bool(np.all(np.abs(got - want) <= 1e-7 * sc)))
    holder.cov.frame = start
    back = np.asarray(holder.cov, dtype=float)
    sc0 = np.sqrt(np.outer(np.diag(C), np.diag(C))) + 1e-30
    c.ensure("back", bool(np.all(np.abs(back - C) <= 1e-7 * sc0)))


@contract("C14", "setter.by_name", funcs=[f"{COV}:Cov.frame.fset"])
def _(c):
    """a frame given by name is resolved through get_frame; QSW/TNW names are kept as local frames"""
    if not c.symbolic:
        return
    frames = {n: _Frame(n) for n in ("A", "B")}
    t = c.choice("t", ["B", "QSW", "A"])
    w, cov, C0, sid = _mk_cov(c, frames, frames["A"], frames["A"])
    cov.frame = t
    final = t if t in LOCALS else frames[t]
    c.ensure("frame", bool(cov.frame == final))
    c.ensure_nf("view", object.__getattribute__(cov, "__dict__")["base"].val, _expected(C0, frames["A"], final, frames["A"], sid))


@contract("C14", "drag", funcs=[f"{SV}:StateVector.frame.fset"], grid=None,
          assumptions=["Frame.transform and the form setter by contract (C02 / C01): stubbed; only the covariance-drag logic is under proof here"])
def _(c):
    """a covariance expressed in its state's frame follows the state when the state changes frame; others stay"""
    if not c.symbolic:
        return
    A, B, D = _Frame("A"), _Frame("B"), _Frame("D")
    covframe = c.choice("covframe", [A, D, "QSW", None])
    calls = []

    class CovStub:
        def __init__(self, frame):
            self._f = frame

        @property
        def frame(self):
            return self._f

        @frame.setter
        def frame(self, f):
            calls.append(f)
            self._f = f
    A.transform = lambda orb, new: (calls.append(("transform", new)) or "NEWCOORD")
    forms = []
    w = c.world(stubs={f"{SV}:StateVector.form.fset": lambda self, f: forms.append(f),
                       f"{SV}:StateVector.form.fget": lambda self: "keplerian"},
                names={SV: {"get_frame": lambda n: {"A": A, "B": B, "D": D}[n]}})
    sv = w.obj(f"{SV}:StateVector")
    d = object.__getattribute__(sv, "__dict__")
    base = types.SimpleNamespace(stores=[], setfield=lambda v, dtype=None: base.stores.append(v))
    cov = CovStub(covframe) if covframe is not None else None
    d["_data"] = {"frame": A, "form": "keplerian", "cov": cov}
    d["base"] = base
    w.fn(f"{SV}:StateVector.frame.fset")(sv, "B")
    c.ensure("frame_changed", bool(d["_data"]["frame"] is B and base.stores == ["NEWCOORD"]))
    c.ensure("form_restored", bool(forms == ["cartesian", "keplerian"]))
    cov_calls = [x for x in calls if not isinstance(x, tuple)]
    if covframe is A:
        c.ensure("dragged", bool(cov_calls == [B]))
    else:
        c.ensure("not_dragged", bool(cov_calls == []))
