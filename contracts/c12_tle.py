"""C12: TLE text (beyond/io/tle.py)."""
import ast
import itertools
import math
import re
import string
import types

import numpy as np
import z3

from pyvc.contract import contract
from pyvc import sym, loader

TLE = "beyond.io.tle"

# field of the writer's template  <->  attribute filled by the parser from a fixed-column slice
FIELD_OF = {  # parser attribute -> (line, writer field)
    "norad_id": (1, "norad_id"), "cospar_id": (1, "cospar_id"), "year": (1, "date"), "epoch": (1, "day"), "ndot": (1, "ndot"),
    "ndotdot": (1, "ndotdot"), "bstar": (1, "bstar"), "element_nb": (1, "elnb"),
    "i": (2, "i"), "Ω": (2, "Ω"), "e": (2, "e"), "ω": (2, "ω"), "M": (2, "M"), "n": (2, "n"), "revolutions": (2, "revolutions"),
}


def _templates():
    """the two str.format templates of Tle.from_orbit, from the source AST"""
    node = loader.find_def(TLE, "Tle.from_orbit")
    out = {}
    for st in ast.walk(node):
        if isinstance(st, ast.Assign) and isinstance(st.targets[0], ast.Name) and st.targets[0].id in ("line1", "line2"):
            call = st.value
            if isinstance(call, ast.Call) and isinstance(call.func, ast.Attribute) and call.func.attr == "format" and isinstance(call.func.value, ast.Constant):
                out[st.targets[0].id] = call.func.value.value
    return out


def _width(spec):
    """minimal width of a replacement field from its format spec (None = unconstrained)"""
    if spec == "%y":
        return 2
    m = re.fullmatch(r"(?:(.)?([<>^=]))?([+\- ])?(0)?(\d+)?(?:\.(\d+))?([a-zA-Z%])?", spec)
    if not m or not m.group(5):
        return None
    return int(m.group(5))


def _layout(template):
    """field name -> (start column, end column), literal characters at their columns"""
    col, fields, literals = 0, {}, {}
    for lit, name, spec, conv in string.Formatter().parse(template):
        for ch in lit:
            literals[col] = ch
            col += 1
        if name is not None:
            w = _width(spec or "")
            if w is None:
                # `{e}` in line 2: rendered by "{:.7f}".format(e)[2:]  -> 7 characters for 0 <= e < 1
                w = {"e": 7}.get(name)
            fields[name] = (col, col + w)
            col += w
    return fields, literals, col


def _parser_slices():
    """attribute -> (line variable, a, b) for every fixed-column read in Tle.__init__"""
    node = loader.find_def(TLE, "Tle.__init__")
    out = {}
    for st in ast.walk(node):
        if not isinstance(st, (ast.Assign, ast.AugAssign)):
            continue
        tgt = st.targets[0] if isinstance(st, ast.Assign) else st.target
        name = tgt.attr if isinstance(tgt, ast.Attribute) else (tgt.id if isinstance(tgt, ast.Name) else None)
        for sub in ast.walk(st.value):
            if isinstance(sub, ast.Subscript) and isinstance(sub.value, ast.Name) and sub.value.id in ("first", "second") and isinstance(sub.slice, ast.Slice):
                a, b = sub.slice.lower.value, sub.slice.upper.value
                out.setdefault(name, []).append((sub.value.id, a, b))
    return out


@contract("C12", "layout", funcs=[f"{TLE}:Tle.from_orbit (format templates)", f"{TLE}:Tle.__init__ (column slices)"])
def _(c):
    """every field is written at exactly the columns where the parser reads it (and where the TLE standard puts it); both lines
    are 68 characters + check digit when every field fits its width"""
    if not c.symbolic:
        return
    meta = {"decided_by": "exact-integer"}
    tpl = _templates()
    lay = {1: _layout(tpl["line1"]), 2: _layout(tpl["line2"])}
    slices = _parser_slices()
    c.run.oblige("templates_found", "post", z3.BoolVal(set(tpl) == {"line1", "line2"}), using=[], meta=dict(meta))
    for k in (1, 2):
        c.run.oblige(f"line{k}.length68", "post", z3.BoolVal(lay[k][2] == 68), using=[], meta=dict(meta, got=lay[k][2]))
        c.run.oblige(f"line{k}.number", "post", z3.BoolVal(lay[k][1].get(0) == str(k) and lay[k][1].get(1) == " "), using=[], meta=dict(meta))
    # the standard's columns (1-based in the format description, module docstring of tle.py / CelesTrak)
    STANDARD = {(1, "norad_id"): (3, 7), (1, "cospar_id"): (10, 17), (1, "date"): (19, 20), (1, "day"): (21, 32), (1, "ndot"): (34, 43),
                (1, "ndotdot"): (45, 52), (1, "bstar"): (54, 61), (1, "elnb"): (65, 68),
                (2, "norad_id"): (3, 7), (2, "i"): (9, 16), (2, "Ω"): (18, 25), (2, "e"): (27, 33), (2, "ω"): (35, 42), (2, "M"): (44, 51),
                (2, "n"): (53, 63), (2, "revolutions"): (64, 68)}
    for (k, f), (lo, hi) in STANDARD.items():
        got = lay[k][0].get(f)
        c.run.oblige(f"writer.standard_columns.line{k}.{f}", "post", z3.BoolVal(got == (lo - 1, hi)), using=[], meta=dict(meta, got=str(got), want=str((lo - 1, hi))))
    var = {1: "first", 2: "second"}
    node = loader.find_def(TLE, "Tle.__init__")
    all_reads = {"first": set(), "second": set()}
    for sub in ast.walk(node):
        if isinstance(sub, ast.Subscript) and isinstance(sub.value, ast.Name) and sub.value.id in all_reads:
            if isinstance(sub.slice, ast.Slice):
                all_reads[sub.value.id].add((sub.slice.lower.value, sub.slice.upper.value))
            elif isinstance(sub.slice, ast.Constant):
                all_reads[sub.value.id].add((sub.slice.value, sub.slice.value + 1))
    for k in (1, 2):
        for f, cols in lay[k][0].items():
            if (k, f) == (2, "norad_id"):
                continue  # the catalogue number is read from line 1 only
            touching = [r for r in all_reads[var[k]] if r[0] < cols[1] and r[1] > cols[0]]
            inside = all(cols[0] <= a and b <= cols[1] for a, b in touching)
            covered = set()
            for a, b in touching:
                covered |= set(range(a, b))
            ok = bool(touching) and inside and covered == set(range(cols[0], cols[1]))
            c.run.oblige(f"parser_reads_exactly_the_written_columns.line{k}.{f}", "post", z3.BoolVal(ok), using=[],
                         meta=dict(meta, parser=str(sorted(touching)), writer=str(cols)))
    for attr, (k, f) in FIELD_OF.items():
        if attr in ("cospar_id", "year", "epoch"):
            continue
        cols = lay[k][0][f]
        reads = [(a, b) for (v, a, b) in slices.get(attr, []) if v == var[k]]
        c.run.oblige(f"attribute_from_its_field.{attr}", "post", z3.BoolVal(reads == [(cols[0], cols[1])]), using=[], meta=dict(meta, parser=str(reads), writer=str(cols)))
    # (column 8 of line 1 holds the one-character classification: the orbit's own, as read from first[7] -- it used to be the literal U, which lost C / S)
    c.run.oblige("classification_column", "post", z3.BoolVal(lay[1][0].get("classification") == (7, 8)), using=[], meta=dict(meta))
    c.run.oblige("ephemeris_type_column", "post", z3.BoolVal(lay[1][1].get(62) == "0" and ("first", 62, 63) in slices.get("type", [])), using=[], meta=dict(meta))


BASES = [
    ("ISS (ZARYA)", "1 25544U 98067A   08264.51782528 -.00002182  00000-0 -11606-4 0  2927", "2 25544  51.6416 247.4627 0006703 130.5360 325.0288 15.72125391563537"),
    ("", "1 00005U 58002B   00179.78495062  .00000023  00000-0  28098-4 0  4753", "2 00005  34.2682 348.7242 1859667 331.7664  19.3264 10.82419157413667"),
    ("MOLNIYA 1-93", "1 28163U 04005A   17046.53283463 -.00000153  00000-0 -44016-3 0  9990", "2 28163  63.1962  12.2330 7190327 271.5279  13.1012  2.00612643 95233"),
]


def _grid_checksum(tier, rng):
    """3 base lines x every one of the 68 positions x every character of the TLE alphabet (digits, A-Z, space, '+', '-', '.')"""
    for b in range(3):
        for line in (1, 2):
            for pos in range(0, 68, 1 if tier != "quick" else 1):
                yield {"base": b, "line": line, "pos": pos}


@contract("C12", "checksum", funcs=[f"{TLE}:Tle._checksum"], grid=_grid_checksum, level="finite")
def _(c):
    """finite (exhaustive per position and character): the checksum is (sum of digits + number of '-') mod 10: replacing the character at any
    position changes it by the difference of the characters' weights, so changing one digit into another always changes it"""
    from beyond.io.tle import Tle
    line = BASES[c.integer("base")][c.integer("line")]
    pos = c.integer("pos")
    w = lambda ch: int(ch) if ch.isdigit() else (1 if ch == "-" else 0)
    base = Tle._checksum(line)
    ok, ok_digit = True, True
    for ch in string.digits + string.ascii_uppercase + " +-.":
        mut = line[:pos] + ch + line[pos + 1:]
        got = Tle._checksum(mut)
        ok = ok and (got - base) % 10 == (w(ch) - w(line[pos])) % 10
        if ch.isdigit() and line[pos].isdigit() and ch != line[pos]:
            ok_digit = ok_digit and got != base
    c.ensure("weights_additive", ok)
    c.ensure("single_digit_change_detected", ok_digit)
    c.ensure("check_digit_ignored", Tle._checksum(line[:68] + "0") == Tle._checksum(line[:68] + "7"))
    c.ensure("spec_value", base == sum(w(ch) for ch in line[:68]) % 10 and str(base) == line[68])


def _fields_grid(tier, rng):
    """catalogue numbers {0, 1, 5, 25544, 99999} x designator {empty, 98067A, 58002B, 20001ABC} x ndot {0, +-2.3e-6, +-1.2345e-3} x ndotdot/B* in
    {0, +-1.1606e-5, 9.9999e-1 x 10^k for k in -9..0} x e in {0, 1e-7, .1234567, .9999999} x angles {0, 0.0001, 180, 359.9999} x n in {0.5, 2.00612643,
    16.4} x element numbers {0, 9, 999, 9999} x rev {0, 7, 99999} x epochs 1957..2056 incl. day 366 -- seeded combinations (quick 300, thorough 5000)"""
    n = 300 if tier == "quick" else 5000
    cats = [0, 1, 5, 25544, 99999]
    desig = ["", "98067A", "58002B", "20001ABC", "57001A", "56999ZZZ"]
    ndots = [0.0, 2.3e-6, -2.3e-6, 1.2345e-3, -1.2345e-3, 0.99999999e-1]
    drag = [0.0, 1.1606e-5, -1.1606e-5] + [s * 9.9999e-1 * 10 ** k for k in range(-9, 1) for s in (1, -1)] + [1.0e-5, 3.4473e-4]
    es = [0.0, 1e-7, 0.1234567, 0.9999999, 0.0006703]
    angs = [0.0, 0.0001, 51.6416, 180.0, 359.9999]
    ns = [0.5, 2.00612643, 15.72125391, 16.4]
    elnbs = [0, 9, 292, 999, 1000, 9999]
    revs = [0, 7, 56353, 99999]
    epochs = [(1957, 277.5), (1999, 365.99999999), (2000, 1.0), (2000, 366.5), (2016, 366.25), (2017, 46.53283463), (2056, 366.0), (2024, 60.00000001)]
    for k in range(n):
        yield {"cat": rng.choice(cats), "desig": rng.randrange(len(desig)), "ndot": rng.choice(ndots), "ndotdot": rng.choice(drag), "bstar": rng.choice(drag),
               "e": rng.choice(es), "i": rng.choice(angs[:4]), "raan": rng.choice(angs), "argp": rng.choice(angs), "M": rng.choice(angs), "n": rng.choice(ns),
               "elnb": rng.choice(elnbs), "rev": rng.choice(revs), "epoch": rng.randrange(len(epochs)), "name": k % 8, "cls": (0, 0, 0, 0, 1, 0, 0, 2, 0, 0)[k % 10], "zero": int(k % 7 == 3)}


def _compose(a):
    """build TLE text from field values, independently of beyond (standard fixed columns)"""
    desig = ["", "98067A", "58002B", "20001ABC", "57001A", "56999ZZZ"][a["desig"]]
    # (the entries after the eighth are epochs a few days from an inserted leap second: used by C07)
    year, day = [(1957, 277.5), (1999, 365.99999999), (2000, 1.0), (2000, 366.5), (2016, 366.25), (2017, 46.53283463), (2056, 366.0), (2024, 60.00000001),
                 (2008, 362.5), (2015, 184.25), (2012, 170.0), (2009, 3.75)][a["epoch"]]

    def assumed(x):
        if x == 0:
            # the two spellings of a zero term found in distributed element sets
            return " 00000+0" if a.get("zero") else " 00000-0"
        s = f"{abs(x):.4e}"
        mant, exp = s.split("e")
        return ("-" if x < 0 else " ") + mant.replace(".", "") + f"{int(exp) + 1:+d}"
    ndot = f"{a['ndot']: .8f}".replace("0.", ".", 1)
    cls = "UCS"[int(a.get("cls", 0))]     # classification: unclassified, classified, secret
    l1 = f"1 {a['cat']:05d}{cls} {desig:<8} {year % 100:02d}{day:012.8f} {ndot:>10} {assumed(a['ndotdot']):>8} {assumed(a['bstar']):>8} 0 {a['elnb']:>4}"
    l2 = f"2 {a['cat']:05d} {a['i']:8.4f} {a['raan']:8.4f} {a['e']:.7f}"[:26] + f"{a['e']:.7f}"[2:] + f" {a['argp']:8.4f} {a['M']:8.4f} {a['n']:11.8f}{a['rev']:>5}"
    w = lambda ch: int(ch) if ch.isdigit() else (1 if ch == "-" else 0)
    l1 += str(sum(w(ch) for ch in l1) % 10)
    l2 += str(sum(w(ch) for ch in l2) % 10)
    # (names that begin with the digit 0, with blanks inside, with the "0 " line number of the three-line format in front, or that look like an element line)
    name = ["", "ISS (ZARYA)", "0 OBJECT A", "007 SAT", "0 007 SAT", "0-G LAB", "OBJECT  B 0", "0 0"][a["name"]]
    return name, l1, l2


@contract("C12", "roundtrip", funcs=[f"{TLE}:Tle.__init__", f"{TLE}:Tle.from_orbit", f"{TLE}:Tle.orbit", f"{TLE}:_float", f"{TLE}:_unfloat", f"{TLE}:Tle._check_validity"],
          grid=_fields_grid, level="bounded")
def _(c):
    """bounded: a well-formed TLE (composed independently, standard columns) parses to its field values (printed precision, epoch 1e-8 day);
    writing the parsed orbit back gives the identical two lines (and name line), each 69 characters with a correct check digit"""
    from beyond.io.tle import Tle
    a = {k: c.real(k) if k in ("ndot", "ndotdot", "bstar", "e", "i", "raan", "argp", "M", "n") else c.integer(k) for k in
         ("cat", "desig", "ndot", "ndotdot", "bstar", "e", "i", "raan", "argp", "M", "n", "elnb", "rev", "epoch", "name", "cls", "zero")}
    name, l1, l2 = _compose(a)
    c.require(len(l1) == 69 and len(l2) == 69)
    text = (name + "\n" if name else "") + l1 + "\n" + l2
    t = Tle(text)
    c.ensure("norad", t.norad_id == a["cat"])
    c.ensure("element_number", t.element_nb == a["elnb"])
    c.ensure("revolutions", t.revolutions == a["rev"])
    c.ensure("elements", abs(math.degrees(t.i) - a["i"]) < 5e-5 and abs(math.degrees(t.Ω) - a["raan"]) < 5e-5 and abs(t.e - a["e"]) < 5e-8
             and abs(math.degrees(t.ω) - a["argp"]) < 5e-5 and abs(math.degrees(t.M) - a["M"]) < 5e-5 and abs(t.n * 86400 / (2 * math.pi) - a["n"]) < 5e-9)
    rel = lambda x, y: abs(x - y) <= 1e-4 * abs(y) + 1e-12
    c.ensure("drag_terms", rel(t.ndot / 2, a["ndot"]) and rel(t.ndotdot / 6, a["ndotdot"]) and rel(t.bstar, a["bstar"]))
    year, day = [(1957, 277.5), (1999, 365.99999999), (2000, 1.0), (2000, 366.5), (2016, 366.25), (2017, 46.53283463), (2056, 366.0), (2024, 60.00000001)][a["epoch"]]
    from datetime import datetime, timedelta
    want = datetime(year, 1, 1) + timedelta(days=day - 1)
    c.ensure("epoch_1e-8_day", abs((t.epoch.datetime - want).total_seconds()) <= 1e-8 * 86400 + 1e-6 and t.epoch.scale.name == "UTC")
    out = Tle.from_orbit(t.orbit())
    lines = str(out).splitlines()
    c.ensure("rewritten_identical", lines[-2:] == [l1, l2])
    exp_name = name[2:] if name.startswith("0 ") else name
    c.ensure("name_line", (lines[0] == exp_name) if name else len(lines) == 2)
    c.ensure("length69", all(len(x) == 69 for x in lines[-2:]))


def _grid_corrupt(tier, rng):
    """3 base TLEs x every one of the 2 x 69 positions: single-digit corruption (each other digit), plus line-length (+-1 char) and line-number corruptions"""
    for b in range(3):
        for line in (1, 2):
            for pos in range(69):
                yield {"base": b, "line": line, "pos": pos}


@contract("C12", "corruption", funcs=[f"{TLE}:Tle._check_validity", f"{TLE}:Tle.from_string"], grid=_grid_corrupt, level="finite")
def _(c):
    """finite: replacing any single digit of a valid TLE by any other digit is rejected (TleParseError); so are a wrong length and a wrong line
    number; from_string yields exactly the valid entries of a multi-TLE text"""
    from beyond.io.tle import Tle, TleParseError
    name, l1, l2 = BASES[c.integer("base")]
    lines = [l1, l2]
    k, pos = c.integer("line") - 1, c.integer("pos")
    ch = lines[k][pos]
    c.ensure("base_valid", Tle(l1 + "\n" + l2).norad_id > 0)
    ok = True
    if ch.isdigit() and pos != 0:
        for d in string.digits:
            if d == ch:
                continue
            bad = list(lines)
            bad[k] = bad[k][:pos] + d + bad[k][pos + 1:]
            ok = ok and c.raises(TleParseError, lambda: Tle("\n".join(bad)))
    c.ensure("single_digit_corruption_rejected", ok)
    if pos == 0:
        for bad_first in ("3", "2" if k == 0 else "1"):
            bad = list(lines)
            bad[k] = bad_first + bad[k][1:]
            c.ensure("line_number_rejected", c.raises(TleParseError, lambda: Tle("\n".join(bad))))
        bad = list(lines)
        bad[k] = bad[k][:40] + bad[k][41:]
        c.ensure("short_line_rejected", c.raises(TleParseError, lambda: Tle("\n".join(bad))))
        bad = list(lines)
        bad[k] = bad[k][:40] + "0" + bad[k][40:]
        c.ensure("long_line_rejected", c.raises(TleParseError, lambda: Tle("\n".join(bad))))
        bad = list(lines)
        bad[k] = bad[k] + "5"
        c.ensure("trailing_character_rejected", c.raises(TleParseError, lambda: Tle("\n".join(bad))))
        # multi-TLE text: 3 valid entries (with / without name), one corrupted entry, comments and blank lines
        text = "# comment\n" + "\n".join(f"{n}\n{a}\n{b}" if n else f"{a}\n{b}" for n, a, b in BASES) + "\n\n" + l1[:30] + "9" + l1[31:] + "\n" + l2 + "\n"
        got = list(Tle.from_string(text, error="ignore"))
        c.ensure("multi_exactly_valid", [t.norad_id for t in got] == [25544, 5, 28163] and [t.name for t in got] == ["ISS (ZARYA)", "", "MOLNIYA 1-93"])
        c.ensure("multi_raise", c.raises(TleParseError, lambda: list(Tle.from_string(text, error="raise"))))


ENTRY_KINDS = ["valid", "valid_named", "valid_named_0", "bad_checksum", "bad_checksum_named", "bad_length", "comment", "blank", "orphan_line1", "orphan_line1_named"]


def _grid_multi(tier, rng):
    """every text made of 1..3 (quick) / 1..4 (thorough) items drawn from {valid 2-line entry, valid entry with a name line, with a '0 ' name line, entry with a corrupted
    checksum (with / without name line), entry with a short line, comment line, blank line, an entry cut short after its first line (with / without name line)}: exhaustive"""
    n = len(ENTRY_KINDS)
    for L in (1, 2, 3) if tier == "quick" else (1, 2, 3, 4):
        for seq in itertools.product(range(n), repeat=L):
            yield {"len": L, **{f"k{i}": seq[i] for i in range(L)}}


@contract("C12", "multi", funcs=[f"{TLE}:Tle.from_string"], grid=_grid_multi, level="bounded")
def _(c):
    """bounded (exhaustive up to the stated length): from_string yields exactly the valid entries of a multi-TLE text, in order, each with its own name (none when it has no
    name line), wherever the rejected entries, comments, blank and stray lines stand; with error='raise' it raises at the first rejected entry after yielding those before"""
    from beyond.io.tle import Tle, TleParseError
    L = c.integer("len")
    lines, want = [], []
    first_bad = None
    for j in range(L):
        kind = ENTRY_KINDS[c.integer(f"k{j}")]
        name, l1, l2 = BASES[j % 3]
        name = name or f"SAT {j}"
        if kind == "comment":
            lines.append("# a comment")
        elif kind == "blank":
            lines.append("")
        elif kind.startswith("orphan_line1"):
            # an entry cut short: its first line (with or without a name line), no second line -- a stray line, not an entry
            if kind.endswith("named"):
                lines.append(name)
            lines.append(l1)
        else:
            if kind.endswith("named"):
                lines.append(name)
            elif kind.endswith("named_0"):
                lines.append("0 " + name)
            a = l1
            if kind.startswith("bad_checksum"):
                a = l1[:30] + ("9" if l1[30] != "9" else "8") + l1[31:]
            elif kind == "bad_length":
                a = l1[:40] + l1[41:]
            lines += [a, l2]
            if kind.startswith("valid"):
                want.append((int(l1[2:7]), name if "named" in kind else ""))
            elif first_bad is None:
                first_bad = len(want)
    text = "\n".join(lines) + "\n"
    got = [(t.norad_id, t.name) for t in Tle.from_string(text, error="ignore")]
    c.ensure("exactly_the_valid_entries", got == want)
    gen = Tle.from_string(text, error="raise")
    seen, raised = [], False
    try:
        for t in gen:
            seen.append((t.norad_id, t.name))
    except TleParseError:
        raised = True
    c.ensure("raise_mode_stops_at_the_first_rejected", raised == (first_bad is not None) and seen == (want if first_bad is None else want[:first_bad]))
