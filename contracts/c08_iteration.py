"""C08: propagation / iteration contract and independence from call history."""
import itertools
import math
import types

import numpy as np
import z3

from pyvc.contract import contract, LoopSpec
from pyvc import sym
from pyvc.adt import SymDateUs, SymTimedeltaUs, TimedState

BASE = "beyond.propagators.base"
ORB = "beyond.orbits.orbit"
EPH = "beyond.orbits.ephem"


class _DateStub:
    """stands for the Date class in base.py: range() by contract (C03.range / C03.range.iter)"""

    def __init__(self, log, dates):
        self.log, self.dates = log, dates

    def range(self, start, stop, step, inclusive=False):
        self.log.append((start, stop, step, inclusive))
        return list(self.dates)


def _iter_contract(cls):
    @contract("C08", f"_iter.{cls}", funcs=[f"{BASE}:{cls}._iter"] if cls == "AnalyticalPropagator" else [f"{BASE}:{cls}.iter"],
              assumptions=["callee contract: Date.range(start, stop, step, inclusive=True) yields start + k*step up to and including stop (C03.range, C03.range.iter)",
                           "callee contract: propagate(date) returns the state dated `date`"])
    def _(c):
        """_iter yields exactly propagate(d) for each date of the explicit list, or of Date.range(start, stop, step, inclusive=True), in order"""
        if not c.symbolic:
            return
        mode = c.choice("mode", ["range", "dates"])
        ds = [SymDateUs(c.integer(f"d{k}")) for k in range(3)]
        log, calls = [], []
        start, stop, step = SymDateUs(c.integer("start")), SymDateUs(c.integer("stop")), SymTimedeltaUs(c.integer("step"))
        w = c.world(names={BASE: {"Date": _DateStub(log, ds)}})
        pr = w.obj(f"{BASE}:AnalyticalPropagator")
        object.__getattribute__(pr, "__dict__")["propagate"] = lambda d: calls.append(d) or TimedState(d, "p")
        if mode == "dates":
            out = list(pr._iter(dates=list(ds)))
            c.ensure("range_not_used", bool(log == []))
        else:
            out = list(pr._iter(start=start, stop=stop, step=step))
            c.ensure("range_arguments", bool(len(log) == 1 and log[0][0] is start and log[0][1] is stop and log[0][2] is step and log[0][3] is True))
        c.ensure("one_state_per_date_in_order", bool(len(out) == 3 and all(o.date is d for o, d in zip(out, ds)) and calls == ds))
    return _


_iter_contract("AnalyticalPropagator")


def _iter_kwargs_contract(cls):
    @contract("C08", f"iter.{cls}", funcs=[f"{BASE}:{cls}.iter"],
              assumptions=["Date ADT on integer microseconds", "callee: _iter receives the normalised (start, stop, step)"])
    def _(c):
        """iter(): start defaults to the orbit's date, a timedelta stop is relative to start, a backward range flips a positive step,
        a missing stop is an error, an explicit `dates` is passed through untouched"""
        if not c.symbolic:
            return
        epoch = SymDateUs(c.integer("epoch"))
        start_given = c.choice("start_given", [False, True])
        stop_kind = c.choice("stop_kind", ["date", "timedelta", "missing"])
        a, b, S = c.integer("start"), c.integer("stop"), c.integer("step")
        c.require(S != 0)
        seen = {}

        def _iter(self, **kw):
            seen.update(kw)
            return iter(())
        stubs = {f"{BASE}:{cls}._iter": _iter}
        if cls == "AnalyticalPropagator":
            stubs[f"beyond.propagators.listeners:Speaker.clear_listeners"] = lambda *a_, **k_: None
        w = c.world(stubs=stubs, names={BASE: {"timedelta": __import__("pyvc.adt", fromlist=["x"]).sym_timedelta}})
        pr = w.obj(f"{BASE}:{cls}", orbit=types.SimpleNamespace(date=epoch), step=SymTimedeltaUs(S))
        object.__getattribute__(pr, "__dict__")["_iter"] = lambda **kw: _iter(pr, **kw)
        kw = {"step": SymTimedeltaUs(S)}
        if start_given:
            kw["start"] = SymDateUs(a)
        if stop_kind == "date":
            kw["stop"] = SymDateUs(b)
        elif stop_kind == "timedelta":
            kw["stop"] = SymTimedeltaUs(b)
        if stop_kind == "missing":
            c.ensure("missing_stop_rejected", c.raises(ValueError, lambda: list(pr.iter(**kw))))
            return
        list(pr.iter(**kw))
        s0 = a if start_given else epoch.us
        e0 = b if stop_kind == "date" else s0 + b
        c.ensure("start", seen["start"].us == s0)
        c.ensure("stop", seen["stop"].us == e0)
        want_step = sym.ite(sym.And(s0 > e0, S > 0), -S, S)
        c.ensure("step_direction", seen["step"].us == want_step)
    return _


_iter_kwargs_contract("AnalyticalPropagator")
_iter_kwargs_contract("NumericalPropagator")


@contract("C08", "orbit.rebind", funcs=[f"{ORB}:Orbit.propagate", f"{ORB}:Orbit.iter"],
          assumptions=["callee contract: the propagator's orbit setter stores its own copy (C05/C16 setter clauses)"])
def _(c):
    """Orbit.propagate / iter bind the propagator to this orbit unless it already is bound to it, then delegate; they write nothing else"""
    if not c.symbolic:
        return
    from beyond.propagators.base import Propagator
    bound_to_self = c.choice("already_bound", [False, True, "other"])
    log = []

    class P(Propagator):
        def __init__(self):
            self._o = None

        @property
        def orbit(self):
            return self._o

        @orbit.setter
        def orbit(self, v):
            log.append(("bind", v))
            self._o = v

        def propagate(self, d):
            log.append(("propagate", d))
            return "STATE"

        def iter(self, **kw):
            log.append(("iter", kw))
            return "ITER"
    p = P()
    w = c.world()
    o = w.obj(f"{ORB}:Orbit", _data={"propagator": p})
    if bound_to_self is True:
        p._o = o
    elif bound_to_self == "other":
        p._o = types.SimpleNamespace(name="another orbit bound earlier")
        bound_to_self = False
    res = o.propagate("DATE")
    c.ensure("delegates", bool(res == "STATE" and log[-1] == ("propagate", "DATE")))
    c.ensure("binds_iff_needed", bool(([x for x in log if x[0] == "bind"] == ([] if bound_to_self else [("bind", o)]))))
    c.ensure("iter_delegates", bool(o.iter(stop=1) == "ITER" and log[-1] == ("iter", {"stop": 1})))
    c.ensure("writes_nothing_else", bool(set(object.__getattribute__(o, "__dict__")["_data"].keys()) == {"propagator"}))


def _ephem_iter_spec(a, S):
    def inv(env):
        g = env["ghost"]
        return [("on_grid", env["date"].us == a + g["k"] * S), ("k_nonneg", g["k"] >= 0)]

    def havoc(env, names):
        env["ghost"]["k"] = sym.SInt(sym.cur().fresh("k", "int"))
        out = {"date": env["date"].__pv_havoc__("date")}
        return out

    def ghost_step(env):
        env["ghost"]["k"] = env["ghost"]["k"] + 1
    return LoopSpec(inv, havoc=havoc, ghost_step=ghost_step)


@contract("C08", "ephem.iter.step", funcs=[f"{EPH}:Ephem.iter"],
          assumptions=["callee contracts: propagate(date) -> state dated `date`; listen() (C10)", "Date ADT on integer microseconds"])
def _(c):
    """Ephem.iter(start, stop, step): the k-th sample is propagate(start + k*step), only dates <= stop are produced, a request beyond
    the ephemeris is refused when strict"""
    if not c.symbolic:
        return
    lo, hi = c.integer("eph_start"), c.integer("eph_stop")
    c.require(lo <= hi)
    a, b, S = c.integer("start"), c.integer("stop"), c.integer("step")
    c.require(S > 0)
    w = c.world(loops={f"{EPH}:Ephem.iter#3": _ephem_iter_spec(a, S)},
                stubs={f"{EPH}:Ephem.start.fget": lambda self: SymDateUs(lo), f"{EPH}:Ephem.stop.fget": lambda self: SymDateUs(hi),
                       "beyond.propagators.listeners:Speaker.clear_listeners": lambda *x, **k: None,
                       "beyond.propagators.listeners:Speaker.listen": lambda self, orb, ls: []},
                names={EPH: {"timedelta": __import__("pyvc.adt", fromlist=["x"]).sym_timedelta}})
    w.rt.ghost["k"] = 0
    eph = w.obj(f"{EPH}:Ephem", _orbits=[])
    object.__getattribute__(eph, "__dict__")["propagate"] = lambda d: TimedState(d, "p")
    g = eph.iter(start=SymDateUs(a), stop=SymDateUs(b), step=SymTimedeltaUs(S))
    try:
        v = next(g)
    except StopIteration:
        k = w.rt.ghost["k"]
        c.ensure("stops_only_beyond_stop", a + k * S > b)
        return
    except ValueError:
        c.ensure("refused_only_outside", sym.Or(a < lo, b > hi))
        return
    k = w.rt.ghost["k"]
    c.ensure("inside_ephemeris", sym.And(a >= lo, b <= hi))
    c.ensure("sample_on_grid", v.date.us == a + k * S)
    c.ensure("sample_not_beyond_stop", v.date.us <= b)
    try:
        next(g)
    except StopIteration:
        pass


# ---------------------------------------------------------------------------------------------
# bounded stand-ins on the real propagators
# ---------------------------------------------------------------------------------------------

TLE_TXT = """ISS (ZARYA)
1 25544U 98067A   18124.55610684  .00001524  00000-0  30197-4 0  9997
2 25544  51.6421 236.2139 0003381  47.8509  47.6767 15.54198229111731"""


def _make(prop, epoch=None):
    from beyond.orbits import Orbit
    from beyond.dates import Date, timedelta
    from beyond.io.tle import Tle
    from beyond.constants import Earth
    from contracts.c19_mission import _kep2cart
    if prop == "sgp4":
        orb = Tle(TLE_TXT).orbit()
        return orb, orb.date
    r0, v0 = _kep2cart(6.8e6, 0.001, 0.9, 1.0, 2.0, 0.5, Earth.mu)
    d0 = Date(2018, 5, 4, 13, 20, 47) if epoch is None else epoch
    if prop in ("kepler", "j2", "none"):
        from beyond.propagators.kepler import Kepler
        from beyond.propagators.j2 import J2
        from beyond.propagators.none import NonePropagator
        p = {"kepler": Kepler, "j2": J2, "none": NonePropagator}[prop]()
        return Orbit(list(r0) + list(v0), d0, "cartesian", "EME2000", p), d0
    if prop.startswith("num"):
        from beyond.propagators.keplernum import KeplerNum
        from beyond.env.solarsystem import get_body
        p = KeplerNum(timedelta(seconds=60), get_body("Earth"), method=prop[4:])
        return Orbit(list(r0) + list(v0), d0, "cartesian", "EME2000", p), d0
    if prop == "ephem":
        from beyond.propagators.kepler import Kepler
        o = Orbit(list(r0) + list(v0), d0, "cartesian", "EME2000", Kepler())
        return o.ephem(start=d0 - timedelta(seconds=4000), stop=d0 + timedelta(seconds=4000), step=timedelta(seconds=50)), d0
    if prop == "cw":
        from beyond.propagators.cw import ClohessyWiltshire
        import beyond.frames.frames as fr
        from beyond.orbits.man import ImpulsiveMan
        p = ClohessyWiltshire(6.8e6)
        o = Orbit([-600.0, -1500.0, 10.0, 0.1, 1.5 * p.n * 600, 0.0], d0, "cartesian", fr.Hill, p)
        # a burn dated exactly at the epoch ("burn now") and a later one
        o.maneuvers = [ImpulsiveMan(d0, [0.0, 0.05, 0.0]), ImpulsiveMan(d0 + timedelta(seconds=1000), [0.01, -0.02, 0.0])]
        return o, d0
    raise ValueError(prop)


PROPS = ["sgp4", "kepler", "j2", "none", "num_rk4", "num_euler", "num_dopri54", "num_rkf54", "cw", "ephem"]


def _grid_iter(tier, rng):
    """propagators {sgp4, kepler, j2, none, numerical x 4 methods, cw, ephemeris} x start {before, at, after epoch} x span sign {forward, backward}
    x (span, step) in {(600,100), (650,100) non-dividing, (180,60) and (30,10) shorter than the interpolation order, (615,100) and (615,30) stop off grid,
    (1,0.1), (0.6,0.2), (0.7,0.1): steps that are no binary fraction of a second, dividing the span}"""
    for p in range(len(PROPS)):
        for st in (-500.0, 0.0, 700.0):
            for sgn in (1, -1):
                for span, step in ((600.0, 100.0), (650.0, 100.0), (180.0, 60.0), (30.0, 10.0), (615.0, 100.0), (615.0, 30.0), (1.0, 0.1), (0.6, 0.2), (0.7, 0.1)):
                    yield {"prop": p, "start": st, "sign": sgn, "span": span, "step": step}


@contract("C08", "iter.native", funcs=[f"{BASE}:AnalyticalPropagator.iter", f"{BASE}:NumericalPropagator.iter", "beyond.propagators.keplernum:KeplerNum._iter",
                                       f"{EPH}:Ephem.iter", f"{ORB}:Orbit.iter"], grid=_grid_iter, level="bounded")
def _(c):
    """bounded: iterating (start, stop, step) yields exactly start + k*step for k = 0..floor(span/step), in order, none beyond stop, forwards and
    backwards; each yielded state equals a direct propagate() to its date (1 cm; interpolating propagators: 2 cm); the initial orbit is not modified"""
    from beyond.dates import timedelta
    prop = PROPS[c.integer("prop")]
    src, d0 = _make(prop)
    if prop == "none":
        c.require(c.real("start") == 0.0 and c.real("span") == 30.0 and c.integer("sign") == 1)
    sgn = c.integer("sign")
    start = d0 + timedelta(seconds=c.real("start"))
    stop = start + timedelta(seconds=sgn * c.real("span"))
    step = timedelta(seconds=c.real("step"))
    before = np.asarray(src, dtype=float).copy() if prop != "ephem" else None
    if prop == "none":
        pts = list(src.iter(start=start, stop=start, step=step))
        c.ensure("none_single", len(pts) == 1)
        return
    pts = [p for p in src.iter(start=start, stop=stop, step=step)]
    n = int(math.floor(c.real("span") / c.real("step") + 1e-9))
    want = [start + timedelta(seconds=sgn * k * c.real("step")) for k in range(n + 1)]
    c.ensure("count", len(pts) == len(want))
    c.ensure("dates_exact_in_order", len(pts) == len(want) and all(abs((p.date - w_).total_seconds()) < 2e-6 for p, w_ in zip(pts, want)))
    c.ensure("none_beyond_stop", all((p.date <= stop) if sgn > 0 else (p.date >= stop) for p in pts))
    # numerical propagators integrate iterate() and propagate() along different paths when the start is not the epoch:
    # the two differ by the integrator's own truncation error (rk4 @ 60 s: ~1e-4 m/s^2 * t^2), not by a logic error
    tol = 0.01
    if prop == "ephem":
        tol = 0.02
    elif prop.startswith("num"):
        tol = 0.02 if c.real("start") == 0.0 and sgn > 0 else (0.5 if prop != "num_euler" else 5e4)
    if prop == "num_euler":
        tol = 1e9  # Euler at 60 s is not accurate enough for a path comparison to mean anything
    ok = True
    for p in pts[:: max(1, len(pts) // 4)] + pts[-1:]:
        direct = src.propagate(p.date)
        ok = ok and bool(np.linalg.norm(np.asarray(direct.copy(form="cartesian")[:3], dtype=float) - np.asarray(p.copy(form="cartesian")[:3], dtype=float)) <= tol)
    c.ensure("equals_direct_propagation", ok)
    if before is not None:
        c.ensure("initial_orbit_untouched", bool(np.array_equal(np.asarray(src, dtype=float), before) and src.date == d0))


def _grid_dates(tier, rng):
    """every propagator x an explicit list of 4 dates (unevenly spaced, one repeated epoch), the same as a Date.range, and lists that are not in ascending order
    (descending; arbitrary order) spanning more than the numerical propagators' interpolation window; a list of one date; a list of no date"""
    for p in range(len(PROPS)):
        for kind in (0, 1, 2, 3, 4, 5):
            yield {"prop": p, "kind": kind}


@contract("C08", "dates.native", funcs=[f"{BASE}:AnalyticalPropagator._iter", "beyond.propagators.keplernum:KeplerNum._iter", f"{EPH}:Ephem.iter"], grid=_grid_dates, level="bounded")
def _(c):
    """bounded: iterating over an explicit list of dates (or a Date.range object) yields exactly those dates, in order"""
    from beyond.dates import Date, timedelta
    prop = PROPS[c.integer("prop")]
    c.require(prop != "none")
    src, d0 = _make(prop)
    kind = c.integer("kind")
    if kind in (0, 2, 3, 4, 5):
        secs = {0: (0.0, 130.0, 700.5, 1900.0), 2: (1900.0, 1210.0, 700.5, 130.0, 0.0), 3: (700.5, 0.0, 1900.0, 130.0, 1210.0), 4: (700.5,), 5: ()}[kind]
        dates = [d0 + timedelta(seconds=s) for s in secs]
        pts = list(src.iter(dates=dates))
        if kind != 0:
            # the i-th state is the state AT the i-th requested date
            tol = 0.05 if prop.startswith("num") else 1e-3
            c.ensure("each_state_is_for_its_date", len(pts) == len(dates) and all(
                bool(np.linalg.norm(np.asarray(src.propagate(d).copy(form="cartesian")[:3], dtype=float) - np.asarray(p.copy(form="cartesian")[:3], dtype=float)) <= tol)
                for p, d in zip(pts, dates)))
    else:
        dates = list(Date.range(d0 + timedelta(seconds=100), d0 + timedelta(seconds=900), timedelta(seconds=200), inclusive=True))
        pts = list(src.iter(dates=Date.range(d0 + timedelta(seconds=100), d0 + timedelta(seconds=900), timedelta(seconds=200), inclusive=True)))
    c.ensure("exactly_those_dates", len(pts) == len(dates) and all(abs((p.date - d).total_seconds()) < 2e-6 for p, d in zip(pts, dates)))



def _grid_target(tier, rng):
    """every propagator x the way the target is given {a Date, a timedelta from the epoch} x epochs {2018-05-04, one minute before the leap second of 2016-12-31 (real IERS
    tables: the target lies beyond it)}"""
    for p in range(len(PROPS)):
        for how in (0, 1):
            for ep in (0, 1):
                yield {"prop": p, "how": how, "epoch": ep}


@contract("C08", "target.native", funcs=[f"{BASE}:AnalyticalPropagator.propagate", "beyond.propagators.none:NonePropagator.propagate", "beyond.propagators.cw:ClohessyWiltshire._propagate",
                                          "beyond.propagators.kepler:Kepler.propagate", "beyond.propagators.j2:J2.propagate"], grid=_grid_target, level="bounded")
def _(c):
    """bounded: a propagation returns a state dated at the requested date -- a Date, the requested instant -- whether the target is given as a Date or as a duration from
    the epoch, also when a leap second lies between the epoch and the target; both ways of giving the target lead to the same state"""
    from beyond.dates import Date, timedelta
    from contracts.eopcfg import use_eop
    prop = PROPS[c.integer("prop")]
    ep = c.integer("epoch")
    c.require(not (ep and prop in ("sgp4", "ephem")) and prop != "ephem")   # (an ephemeris has no epoch a duration could be counted from)
    use_eop(real=bool(ep))
    try:
        src, d0 = _make(prop, Date(2016, 12, 31, 23, 59, 0) if ep else None)
        dur = timedelta(seconds=120)
        # the requested date: the epoch plus 120 s on the epoch's own clock (the library's date arithmetic, C03: across a leap second a UTC clock shows 120 s
        # for 121 s elapsed)
        want = d0 + dur
        got = src.propagate(dur) if c.integer("how") else src.propagate(want)
        c.ensure("dated_at_the_requested_instant", isinstance(got.date, Date) and abs((got.date - want).total_seconds()) <= 2e-6)
        other = src.propagate(want) if c.integer("how") else src.propagate(dur)
        same = isinstance(other.date, Date) and bool(np.allclose(np.asarray(got.copy(form="cartesian"), dtype=float), np.asarray(other.copy(form="cartesian"), dtype=float), rtol=1e-9, atol=1e-6))
        c.ensure("date_or_duration_same_state", same)
    finally:
        use_eop(real=False) if False else None

def _grid_hist(tier, rng):
    """every propagator x every ordering of up to 3 prior calls drawn from {propagate(d1), propagate(d2 before epoch), full iteration, iteration with a
    node listener}, then the probed call; compared with the same probed call on fresh objects"""
    ops = list(itertools.permutations(range(4), 2)) + [(k,) for k in range(4)] + [(0, 2, 1), (3, 3, 0)]
    for p in range(len(PROPS)):
        for h in range(len(ops)):
            yield {"prop": p, "hist": h}


@contract("C08", "history.native", funcs=[f"{ORB}:Orbit.propagate", f"{BASE}:AnalyticalPropagator.iter", "beyond.propagators.listeners:Speaker.clear_listeners"],
          grid=_grid_hist, level="bounded")
def _(c):
    """bounded: results do not depend on the order or number of earlier calls on the same orbit / propagator / listener objects (bit-identical
    to a fresh object), and the initial orbit object is never modified"""
    from beyond.dates import timedelta
    from beyond.propagators.listeners import NodeListener
    prop = PROPS[c.integer("prop")]
    c.require(prop not in ("none",))
    ops = list(itertools.permutations(range(4), 2)) + [(k,) for k in range(4)] + [(0, 2, 1), (3, 3, 0)]
    hist = ops[c.integer("hist")]
    src, d0 = _make(prop)
    fresh, _ = _make(prop)
    lis = NodeListener()
    hill = prop == "cw"

    def do(obj, k, listener):
        if k == 0:
            obj.propagate(d0 + timedelta(seconds=1234.5))
        elif k == 1:
            obj.propagate(d0 - timedelta(seconds=777))
        elif k == 2:
            list(obj.iter(start=d0, stop=d0 + timedelta(seconds=900), step=timedelta(seconds=300)))
        elif not hill:
            list(obj.iter(start=d0, stop=d0 + timedelta(seconds=3000), step=timedelta(seconds=300), listeners=[listener]))
    before = np.asarray(src, dtype=float).copy() if prop != "ephem" else None
    for k in hist:
        do(src, k, lis)
    probe = lambda obj, l: ([np.asarray(obj.propagate(d0 + timedelta(seconds=2000.25)), dtype=float).tobytes()] +
                            [(np.asarray(p, dtype=float).tobytes(), p.event.info if p.event else None)
                             for p in obj.iter(start=d0, stop=d0 + timedelta(seconds=3000), step=timedelta(seconds=600), **({} if hill else {"listeners": [l]}))])
    c.ensure("same_as_fresh", probe(src, lis) == probe(fresh, NodeListener()))
    if not hill:
        # the same listener again, over an explicit list of dates that starts on the other side of the node from where the previous pass ended
        by_dates = lambda obj, l: [(p.date._d, round(p.date._s, 6), p.event.info if p.event else None)
                                   for p in obj.iter(dates=[d0 + timedelta(seconds=200.0 + 100 * k) for k in range(6)], listeners=[l])]
        c.ensure("same_as_fresh.dates_driven", by_dates(src, lis) == by_dates(fresh, NodeListener()))
    if prop not in ("ephem",):
        # the propagator object used directly, several times, and shared with a second orbit
        p = src.propagator
        p.orbit = src
        d1, d2 = d0 + timedelta(seconds=1500.5), d0 + timedelta(seconds=-250.0)
        a = np.asarray(p.propagate(d1), dtype=float).tobytes()
        p.propagate(d2)
        c.ensure("propagator_reuse", a == np.asarray(p.propagate(d1), dtype=float).tobytes())
        other, _ = _make(prop)
        other[0] = float(other[0]) * (1 + 1e-3)
        other.propagator = p
        other.propagate(d1)
        c.ensure("shared_propagator_rebinds", np.asarray(src.propagate(d1), dtype=float).tobytes() == a)
        if True:
            # a clearly different second orbit through the SAME propagator object, after the first: its answer is the one a fresh orbit with a fresh propagator gives
            def changed(o):
                if prop == "sgp4":
                    o[5] = float(o[5]) * 1.001       # (mean elements: the mean motion)
                    o[2] = float(o[2]) * 1.5         # and the eccentricity
                    return o
                o[:3] = np.asarray(o[:3], dtype=float) * 1.15
                o[3:] = np.asarray(o[3:], dtype=float) * 0.97
                return o
            second, _ = _make(prop)
            second = changed(second)
            second.propagator = p
            ref2, _ = _make(prop)
            ref2 = changed(ref2)
            tol = 0.05 if prop.startswith("num") else 1e-6
            close = lambda x, y: bool(np.linalg.norm(np.asarray(x.copy(form="cartesian"), dtype=float)[:3] - np.asarray(y.copy(form="cartesian"), dtype=float)[:3]) <= tol)
            c.ensure("second_orbit_through_a_used_propagator", close(second.propagate(d1), ref2.propagate(d1)))
            # the same orbit object changed in place between two propagations: the second answer is for the state as it is now
            third, _ = _make(prop)
            third.propagate(d1)
            third = changed(third)
            c.ensure("orbit_changed_in_place_between_calls", close(third.propagate(d1), ref2.propagate(d1)))
            steps = [np.asarray(x.copy(form="cartesian"), dtype=float)[:3] for x in third.iter(start=d0, stop=d0 + timedelta(seconds=1200), step=timedelta(seconds=600))]
            want = [np.asarray(ref2.propagate(d0 + timedelta(seconds=600 * k)).copy(form="cartesian"), dtype=float)[:3] for k in range(3)]
            c.ensure("orbit_changed_in_place_between_calls.iter", len(steps) == 3 and all(np.linalg.norm(x - y) <= max(tol, 0.05 if prop.startswith("num") else tol) for x, y in zip(steps, want)))
    if prop != "ephem":
        # one propagator object serving two orbits, the second one used while an iteration of the first is under way: the iteration goes on with ITS orbit
        pa, _ = _make(prop)
        pb, _ = _make(prop)
        pb[0] = float(pb[0]) * (1.0 + 2e-3)
        pb.propagator = pa.propagator
        kw3 = dict(start=d0, stop=d0 + timedelta(seconds=900), step=timedelta(seconds=300))
        alone3 = [np.asarray(x.copy(form="cartesian"), dtype=float)[:3] for x in _make(prop)[0].iter(**kw3)]
        got3 = []
        for k_, x in enumerate(pa.iter(**kw3)):
            got3.append(np.asarray(x.copy(form="cartesian"), dtype=float)[:3])
            if k_ == 1:
                pb.propagate(d0 + timedelta(seconds=50))
        c.ensure("shared_propagator_used_during_an_iteration", len(got3) == len(alone3) and all(np.linalg.norm(x - y) <= (0.05 if prop.startswith("num") else 1e-6) for x, y in zip(got3, alone3)))
    # two iterations over the same object under way at the same time (consumed alternately): each yields what it yields alone
    kw2 = dict(start=d0, stop=d0 + timedelta(seconds=600), step=timedelta(seconds=120))
    alone = [(p.date._d, round(p.date._s, 6)) for p in src.iter(**kw2)]
    both = [((a.date._d, round(a.date._s, 6)), (b.date._d, round(b.date._s, 6))) for a, b in zip(src.iter(**kw2), src.iter(**kw2))]
    ok_il = [x for x, _ in both] == alone and [y for _, y in both] == alone
    if prop == "ephem":
        alone = [(p.date._d, round(p.date._s, 6)) for p in src.iter()]
        both = [((a.date._d, round(a.date._s, 6)), (b.date._d, round(b.date._s, 6))) for a, b in zip(src.iter(), src.iter())]
        ok_il = ok_il and len(alone) == len(src) and [x for x, _ in both] == alone and [y for _, y in both] == alone
    c.ensure("two_iterations_at_the_same_time", ok_il)
    if before is not None:
        c.ensure("initial_orbit_untouched", bool(np.array_equal(np.asarray(src, dtype=float), before) and src.date == d0))


# ---------------------------------------------------------------------------------------------
# listeners along an iteration: reset first, events before the sample that closes their interval
# ---------------------------------------------------------------------------------------------

class _Sample:
    """a recorded / interpolated state of which only the date and the identity matter"""

    def __init__(self, date, tag, parent=None):
        self.date, self.tag, self.parent, self.event = date, tag, parent, None

    def copy(self):
        return _Sample(self.date, self.tag, parent=self)

    def __repr__(self):
        return f"<sample {self.tag}>"


def listener_stream(c, pid, who):
    """runs the real Ephem.iter / AnalyticalPropagator.iter with recorder listeners and returns (log, output, samples, L): shared by C08 (reset) and C10 (ordering)"""
    log = []
    L = [object()]
    ev = {}

    def listen(self, orb, listeners):
        log.append(("listen", orb, listeners))
        n = c.choice(f"events_at_{len([x for x in log if x[0] == 'listen'])}", [0, 1, 2])
        ev[id(orb)] = [("event", orb, j) for j in range(n)]
        return list(ev[id(orb)])
    stubs = {"beyond.propagators.listeners:Speaker.clear_listeners": lambda self, listeners: log.append(("clear", listeners)),
             "beyond.propagators.listeners:Speaker.listen": listen}
    us = [0, 60, 120]
    if who == "ephem":
        mode = c.choice("mode", ["dates", "own_step", "other_step"])
        w = c.world(stubs=stubs, names={EPH: {"timedelta": __import__("pyvc.adt", fromlist=["x"]).sym_timedelta}})
        recorded = [_Sample(SymDateUs(t), f"rec{t}") for t in us]
        eph = w.obj(f"{EPH}:Ephem", _orbits=list(recorded))
        made = []

        def propagate(d):
            made.append(_Sample(d, f"interp{len(made)}"))
            return made[-1]
        object.__getattribute__(eph, "__dict__")["propagate"] = propagate
        if mode == "dates":
            out = list(eph.iter(dates=[SymDateUs(t) for t in us], listeners=L))
            samples = made
        elif mode == "own_step":
            out = list(eph.iter(listeners=L))
            samples = recorded
        else:
            out = list(eph.iter(start=SymDateUs(0), stop=SymDateUs(120), step=SymTimedeltaUs(60), listeners=L))
            samples = made
    else:
        mode = c.choice("mode", ["dates", "range"])
        made = []
        w = c.world(stubs=stubs, names={BASE: {"Date": _DateStub([], [SymDateUs(t) for t in us]), "timedelta": __import__("pyvc.adt", fromlist=["x"]).sym_timedelta}})
        prop = w.obj(f"{BASE}:AnalyticalPropagator", orbit=_Sample(SymDateUs(0), "bound"))

        def propagate(d):
            made.append(_Sample(d, f"prop{len(made)}"))
            return made[-1]
        object.__getattribute__(prop, "__dict__")["propagate"] = propagate
        if mode == "dates":
            out = list(prop.iter(dates=[SymDateUs(t) for t in us], listeners=L))
        else:
            out = list(prop.iter(start=SymDateUs(0), stop=SymDateUs(120), step=SymTimedeltaUs(60), listeners=L))
        samples = made
    return log, out, samples, L, ev, mode


def _listeners_contract(who, funcs):
    @contract("C08", f"listeners.{who}", funcs=funcs, level="proof",
              assumptions=["listen() / clear_listeners() abstracted as recorders (their own contracts: C10.check, C10.clear)", "propagate(date) returns a state dated `date`"])
    def _(c):
        """proved: whichever way the iteration is driven (explicit dates, the ephemeris' own step, another step / a date range), the listeners given to it are reset exactly
        once, before the first sample is examined, and every sample is shown to the listeners exactly once, in order -- so nothing a listener remembers from an earlier
        iteration can reach this one"""
        if not c.symbolic:
            return
        log, out, samples, L, ev, mode = listener_stream(c, "C08", who)
        c.ensure("three_samples", len(samples) == 3)
        c.ensure("reset_first_and_once", len(log) > 0 and log[0][0] == "clear" and log[0][1] is L and sum(1 for x in log if x[0] == "clear") == 1)
        listened = [x[1] for x in log if x[0] == "listen"]
        c.ensure("each_sample_listened_once_in_order", len(listened) == 3 and all(a is b for a, b in zip(listened, samples)) and all(x[2] is L for x in log if x[0] == "listen"))
    return _


_listeners_contract("ephem", [f"{EPH}:Ephem.iter"])
_listeners_contract("analytical", [f"{BASE}:AnalyticalPropagator.iter"])


# ---------------------------------------------------------------------------------------------
# a copy of a propagator is the same propagator (an orbit's copy, and every orbit propagate() / iter() return, integrate as the orbit itself does)
# ---------------------------------------------------------------------------------------------

class _Opaque:
    """an argument the code under contract can only hand on (compared by identity)"""

    def __init__(self, tag, **attrs):
        self.tag = tag
        self.__dict__.update(attrs)

    def __repr__(self):
        return f"<{self.tag}>"


def _copy_contract(pid, label, ref, build):
    @contract(pid, f"propagator_copy.{label}", funcs=[f"{ref}.copy", f"{ref}.__init__"], level="proof",
              assumptions=["arguments that the constructor only stores are opaque objects compared by identity (frames, bodies, lists of bodies); numbers (tolerance, "
                           "semi-major axis, steps) are symbolic reals"])
    def _(c):
        """proved: copy() builds, through the class's own constructor, an object every attribute of which equals the original's -- every setting given to the constructor
        (step, bodies, method, frame, tolerance; semi-major axis; central / alternate bodies, steps; body, frame) is handed on, none is left to its default"""
        if not c.symbolic:
            return
        w = c.world()
        orig = build(c, w)
        cp = orig.copy()
        da = {k: v for k, v in object.__getattribute__(orig, "__dict__").items() if not k.startswith("_pv")}
        db = {k: v for k, v in object.__getattribute__(cp, "__dict__").items() if not k.startswith("_pv")}
        c.ensure("a_new_object_of_the_same_class", bool(cp is not orig and cp.__class__.__pv_real__ is orig.__class__.__pv_real__))
        c.ensure("same_attributes", bool(set(da) == set(db)))
        for k in sorted(da):
            a, b = da[k], db.get(k)
            if isinstance(a, (sym.SReal, sym.SInt)) or isinstance(b, (sym.SReal, sym.SInt)):
                c.ensure(f"attribute.{k}", a == b)
            elif hasattr(a, "s") and hasattr(b, "s") and not isinstance(a, _Opaque):   # symbolic timedelta
                c.ensure(f"attribute.{k}", a.s == b.s)
            elif isinstance(a, list):
                c.ensure(f"attribute.{k}", bool(isinstance(b, list) and len(a) == len(b) and all(x is y for x, y in zip(a, b))))
            else:
                c.ensure(f"attribute.{k}", bool(a is b or (isinstance(a, (str, int, float, type(None))) and a == b)))
    return _


def _build_keplernum(c, w):
    from pyvc.adt import SymTimedelta
    method = c.choice("method", ["rk4", "euler", "dopri54", "rkf54"])
    return w.new("beyond.propagators.keplernum:KeplerNum", SymTimedelta(c.real("step")), [_Opaque("body1"), _Opaque("body2")], method=method, frame=_Opaque("frame"),
                 tol=c.real("tol", lo=0))


def _build_cw(c, w):
    # (the constructor accepts a frame of the Hill kind only: a real one, of either orientation)
    from beyond.frames.frames import HillFrame
    import beyond.frames.frames as fr
    saved = fr.dynamic.get("Hill")
    frame = HillFrame(c.choice("orientation", ["QSW", "TNW"]))
    fr.dynamic["Hill"] = saved
    return w.new("beyond.propagators.cw:ClohessyWiltshire", c.real("sma", lo=1), frame=frame)


def _build_soi_num(c, w):
    from pyvc.adt import SymTimedelta
    method = c.choice("method", ["rk4", "dopri54"])
    return w.new("beyond.propagators.soi:SoINumerical", SymTimedelta(c.real("central_step")), SymTimedelta(c.real("alt_step")), _Opaque("central", name="Earth"),
                 [_Opaque("alt1", name="Moon"), _Opaque("alt2", name="Sun")], method=method, frame=_Opaque("frame"))


def _build_soi_ana(c, w):
    return w.new("beyond.propagators.soi:SoIAnalytical", _Opaque("central", name="Earth"), [_Opaque("alt1", name="Moon")], frame=_Opaque("frame"))


def _build_jpl(c, w):
    return w.new("beyond.env.jpl:JplPropagator", _Opaque("obj", name="Mars"), _Opaque("frame"))


_copy_contract("C06", "KeplerNum", "beyond.propagators.keplernum:KeplerNum", _build_keplernum)
_copy_contract("C08", "KeplerNum", "beyond.propagators.keplernum:KeplerNum", _build_keplernum)
_copy_contract("C08", "ClohessyWiltshire", "beyond.propagators.cw:ClohessyWiltshire", _build_cw)
_copy_contract("C08", "SoINumerical", "beyond.propagators.soi:SoINumerical", _build_soi_num)
_copy_contract("C08", "SoIAnalytical", "beyond.propagators.soi:SoIAnalytical", _build_soi_ana)
_copy_contract("C08", "JplPropagator", "beyond.env.jpl:JplPropagator", _build_jpl)
