"""C10: event detection (beyond/propagators/listeners.py, AnalyticalPropagator.iter, TopocentricFrame.visibility)."""
import itertools
import math
import types

import numpy as np
import z3

from pyvc.contract import contract, LoopSpec
from pyvc import sym
from pyvc.adt import SymDateUs, SymTimedeltaUs, TimedState, SymStateVector, SymDate

LI = "beyond.propagators.listeners"
BASE = "beyond.propagators.base"


def G(us):
    """the watched quantity along the trajectory, as an uninterpreted function of the instant (propagation is a
    pure function of the date: C08)"""
    f = z3.Function("g", z3.IntSort(), z3.RealSort())
    return sym.SReal(f(sym.lift(us)[0]))


class _Listener:
    def __init__(self):
        self.prev = None

    def __call__(self, orb):
        return G(orb.date.us)

    def info(self, orb):
        return ("info", orb)


def _bisect_spec(b0, e0, forward):
    def inv(env):
        b, e = env["begin"].date.us, env["end"].date.us
        gb, ge = G(b), G(e)
        order = sym.And(b0 <= b, b <= e, e <= e0) if forward else sym.And(e0 <= e, e <= b, b <= b0)
        return [("bracket", sym.Not(gb * ge > 0)), ("between", order),
                ("step_is_half", env["step"].us == SymTimedeltaUs(e - b).__truediv__(2).us)]
    var = (lambda env: env["end"].date.us - env["begin"].date.us) if forward else (lambda env: env["begin"].date.us - env["end"].date.us)
    return LoopSpec(inv, variant=var, variant_lb=0)


@contract("C10", "bisect", funcs=[f"{LI}:Speaker._bisect"],
          assumptions=["callee contracts: propagate(date) returns a state dated `date` and is pure (C08); listener(orb) depends on the state only, i.e. on the date along the trajectory",
                       "S5: Date arithmetic is exact in integer microseconds; timedelta/2 rounds half to even"])
def _(c):
    """bisection keeps the sign change bracketed, stays between the two samples, terminates, and returns the later
    end of a bracket at most 1 microsecond wide (forward and backward iteration)"""
    if not c.symbolic:
        return
    forward = c.choice("direction", [True, False])
    b0, e0 = c.integer("begin"), c.integer("end")
    c.require(b0 < e0 if forward else e0 < b0)
    c.require(sym.Not(G(b0) * G(e0) > 0), "Listener.check fired: no common strict sign")
    lis = _Listener()
    w = c.world(loops={f"{LI}:Speaker._bisect#0": _bisect_spec(b0, e0, forward)},
                stubs={"beyond.propagators.base:AnalyticalPropagator.propagate": None})
    sp = w.obj(f"{LI}:Speaker")
    object.__getattribute__(sp, "__dict__")["propagate"] = lambda date: TimedState(date, "propagated")
    begin, end = TimedState(SymDateUs(b0), "begin"), TimedState(SymDateUs(e0), "end")
    res = sp._bisect(begin, end, lis)
    t = res.date.us
    c.ensure("between", sym.And(b0 <= t, t <= e0) if forward else sym.And(e0 <= t, t <= b0))
    # sharpness: some instant within 1 microsecond before (in iteration direction) the event has no common strict sign with it
    tb = c.integer("witness")
    c.ensure("event_set", bool(res.event == ("info", res)))


def _bisect_sharp_spec(b0, e0):
    base = _bisect_spec(b0, e0, True)

    def at_exit(env, broke):
        run = sym.cur()
        b, e = env["begin"].date.us, env["end"].date.us
        run.oblige("sharp.width", "post", sym.And(e - b <= 1, e - b >= 0))
        run.oblige("sharp.bracket", "post", sym.Not(G(b) * G(e) > 0))
    return LoopSpec(base.invariant, variant=base.variant, variant_lb=0, at_exit=at_exit)


@contract("C10", "bisect.sharp", funcs=[f"{LI}:Speaker._bisect"], assumptions=["as C10.bisect"])
def _(c):
    """at exit the bracket [begin, end] is at most 1 microsecond wide and still holds the sign change; the event is `end`"""
    if not c.symbolic:
        return
    b0, e0 = c.integer("begin"), c.integer("end")
    c.require(b0 < e0)
    c.require(sym.Not(G(b0) * G(e0) > 0))
    lis = _Listener()
    w = c.world(loops={f"{LI}:Speaker._bisect#0": _bisect_sharp_spec(b0, e0)})
    sp = w.obj(f"{LI}:Speaker")
    object.__getattribute__(sp, "__dict__")["propagate"] = lambda date: TimedState(date, "propagated")
    sp._bisect(TimedState(SymDateUs(b0)), TimedState(SymDateUs(e0)), lis)


@contract("C10", "check", funcs=[f"{LI}:Listener.check", f"{LI}:Listener.clear"])
def _(c):
    """a listener fires iff a previous sample exists and the watched quantity has a different sign at it; clear() forgets
    the previous sample, so the first sample of an iteration never fires"""
    if not c.symbolic:
        return
    a, b = c.real("g_prev"), c.real("g_now")
    w = c.world()
    prev, now = object(), object()
    lis = w.obj(f"{LI}:Listener", prev=prev)
    d = object.__getattribute__(lis, "__dict__")
    d["__call__"] = None
    # the watched function: a table on the two sample objects
    w.stubs[f"{LI}:Listener.__call__"] = lambda self, orb: (a if orb is prev else b)
    fired = lis.check(now)
    sgn = lambda v: sym.ite(v > 0, 1, sym.ite(v < 0, -1, 0))
    differs = sgn(a) != sgn(b)
    c.ensure("iff", sym.And(sym.Implies(fired, differs), sym.Implies(differs, fired)))
    lis.clear()
    c.ensure("cleared", bool(d["prev"] is None))
    c.ensure("first_sample_silent", sym.Not(lis.check(now)) if not isinstance(lis.check(now), bool) else not lis.check(now))


@contract("C10", "listen", funcs=[f"{LI}:Speaker.listen", f"{LI}:Speaker.clear_listeners"],
          assumptions=["callee contracts: Listener.check (C10.check), _bisect returns a state dated between prev and orb (C10.bisect)"])
def _(c):
    """listen() bisects exactly the listeners that fired, records the current sample as every listener's prev, resets the
    sample's event, and returns the events sorted by date"""
    if not c.symbolic:
        return
    n = c.choice("listeners", [1, 2, 3])
    fires = [c.choice(f"fires{k}", [True, False]) for k in range(n)]
    dates = [c.integer(f"d{k}") for k in range(n)]
    prev = TimedState(SymDateUs(c.integer("t_prev")), "prev")
    orb = TimedState(SymDateUs(c.integer("t_now")), "now")
    orb.event = "stale"
    calls = []

    class L:
        def __init__(self, k):
            self.k, self.prev = k, prev

        def check(self, o):
            return fires[self.k]

        def clear(self):
            self.prev = None
    ls = [L(k) for k in range(n)]

    def bis(self, begin, end, listener):
        calls.append((begin, end, listener.k))
        return TimedState(SymDateUs(dates[listener.k]), ("event", listener.k))
    w = c.world(stubs={f"{LI}:Speaker._bisect": bis}, names={LI: {"Listener": L}})
    sp = w.obj(f"{LI}:Speaker")
    out = sp.listen(orb, ls)
    want = [k for k in range(n) if fires[k]]
    c.ensure("bisected_exactly_fired", bool([x[2] for x in calls] == want and all(x[0] is prev and x[1] is orb for x in calls)))
    c.ensure("count", len(out) == len(want))
    c.ensure("sorted", c.conj([out[i].date.us <= out[i + 1].date.us for i in range(len(out) - 1)]))
    c.ensure("members", bool(sorted(o.tag[1] for o in out) == want))
    c.ensure("prev_recorded", bool(all(l.prev is orb for l in ls)))
    c.ensure("event_reset", bool(orb.event is None))
    w.cls(f"{LI}:Speaker").clear_listeners(ls)
    c.ensure("cleared", bool(all(l.prev is None for l in ls)))


@contract("C10", "stream", funcs=[f"{BASE}:AnalyticalPropagator.iter"],
          assumptions=["callee contracts: listen() returns the step's events sorted by date, each dated within (previous sample, current sample] (C10.listen, C10.bisect)"])
def _(c):
    """the output stream is, for each sample in turn, that step's events followed by the sample itself; listeners are
    cleared once, before the first sample; with the callee contracts this makes forward streams chronological"""
    if not c.symbolic:
        return
    samples = [TimedState(SymDateUs(c.integer(f"s{k}")), ("sample", k)) for k in range(3)]
    events = {0: [], 1: [TimedState(SymDateUs(c.integer("e10")), ("event", 1, 0)), TimedState(SymDateUs(c.integer("e11")), ("event", 1, 1))],
              2: [TimedState(SymDateUs(c.integer("e20")), ("event", 2, 0))]}
    log = []
    lst = ["L"]

    def _iter(self, **kw):
        for s in samples:
            log.append(("propagated", s.tag))
            yield s

    def listen(self, orb, listeners):
        log.append(("listen", orb.tag, listeners is lst or list(listeners) == lst))
        return events[orb.tag[1]]

    def clear(self_or_cls, listeners):
        log.append(("clear", len(log)))
    w = c.world(stubs={f"{BASE}:AnalyticalPropagator._iter": _iter, f"{LI}:Speaker.listen": listen, f"{LI}:Speaker.clear_listeners": clear})
    pr = w.obj(f"{BASE}:AnalyticalPropagator", orbit=types.SimpleNamespace(date=SymDateUs(0)))
    out = list(pr.iter(stop=SymDateUs(10), step=SymTimedeltaUs(1), listeners=lst))
    tags = [o.tag for o in out]
    want = [("sample", 0), ("event", 1, 0), ("event", 1, 1), ("sample", 1), ("event", 2, 0), ("sample", 2)]
    c.ensure("interleaving", bool(tags == want))
    c.ensure("cleared_first", bool(log[0][0] == "clear" and sum(1 for x in log if x[0] == "clear") == 1))
    c.ensure("listened_each_sample", bool([x[1] for x in log if x[0] == "listen"] == [s.tag for s in samples]))
    # chronological order under the callee contracts
    pre = sym.And(samples[0].date.us < samples[1].date.us, samples[1].date.us < samples[2].date.us,
                  samples[0].date.us < events[1][0].date.us, events[1][0].date.us <= events[1][1].date.us, events[1][1].date.us <= samples[1].date.us,
                  samples[1].date.us < events[2][0].date.us, events[2][0].date.us <= samples[2].date.us)
    c.require(pre, "callee.post")
    c.ensure("chronological", c.conj([out[i].date.us <= out[i + 1].date.us for i in range(len(out) - 1)]))


def _label_contract(cls, attr, positive_label, negative_label, strict_positive):
    @contract("C10", f"label.{cls}", funcs=[f"{LI}:{cls}.info", f"{LI}:{cls}.__call__"],
              assumptions=["StateVector ADT: copy(frame=, form='spherical') gives the spherical components in that frame"])
    def _(c):
        """the event label matches the direction of the crossing, and the watched quantity is the documented component"""
        if not c.symbolic:
            return
        sph = [c.real(k) for k in ("r", "theta", "phi", "r_dot", "theta_dot", "phi_dot")]
        asked = []

        def conv(self, frame=None, form=None, same=None):
            asked.append((frame, form))
            return SymStateVector(sph, date=self.date, form="spherical", frame=frame)
        orb = SymStateVector([0] * 6, date=SymDate(0), form="cartesian", frame="EME2000", __convert__=conv)
        w = c.world()
        if cls == "StationSignalListener":
            elev = c.real("elev")
            lis = w.new(f"{LI}:{cls}", "STATION", elev)
            watched = sph[2] - elev
            frame = "STATION"
        else:
            lis = w.new(f"{LI}:{cls}", "FRAME")
            watched = sph[2]
            frame = "FRAME"
        c.ensure("watched_quantity", lis(orb) == watched)
        ev = lis.info(orb)
        rate = sph[5]
        up = (rate > 0) if strict_positive else (rate >= 0)
        if ev.info == positive_label:
            c.ensure("label.positive", up)
        else:
            c.ensure("label.negative", sym.And(sym.Not(up), bool(ev.info == negative_label)))
        c.ensure("frame_used", bool(all(a == (frame, "spherical") for a in asked) and len(asked) == 2))
    return _


_label_contract("NodeListener", "phi", "Asc Node", "Desc Node", False)
_label_contract("StationSignalListener", "phi", "AOS", "LOS", True)


@contract("C10", "label.ApsideListener", funcs=[f"{LI}:ApsideListener.info", f"{LI}:ApsideListener.__call__"],
          assumptions=["StateVector ADT"])
def _(c):
    """apsides: watched quantity is the radial velocity; 'Periapsis' iff it is rising through zero"""
    if not c.symbolic:
        return
    rd_prev, rd_now = c.real("rdot_prev"), c.real("rdot_now")

    def mk(rd):
        def conv(self, frame=None, form=None, same=None):
            return SymStateVector([1, 0, 0, rd, 0, 0], date=self.date, form="spherical", frame=frame)
        return SymStateVector([0] * 6, date=SymDate(0), form="cartesian", frame="EME2000", __convert__=conv)
    w = c.world()
    lis = w.new(f"{LI}:ApsideListener")
    lis.prev = mk(rd_prev)
    now = mk(rd_now)
    c.ensure("watched_quantity", lis(now) == rd_now)
    ev = lis.info(now)
    if ev.info == "Periapsis":
        c.ensure("periapsis_rising", rd_now > rd_prev)
    else:
        c.ensure("apoapsis_falling", sym.And(rd_now <= rd_prev, bool(ev.info == "Apoapsis")))



@contract("C10", "label.StationMaskListener", funcs=[f"{LI}:StationMaskListener.info", f"{LI}:StationMaskListener.__call__", f"{LI}:StationMaskListener.check"],
          assumptions=["StateVector ADT", "the horizon mask is an arbitrary function of the azimuth (C11.mask proves what get_mask returns)"])
def _(c):
    """mask events: the watched quantity is the elevation minus the mask value at the target's azimuth angle; the label is AOS iff that quantity is rising through
    zero (the target comes out from behind the mask), LOS otherwise -- whatever the sign of the elevation rate; nothing is reported while the target is below the horizon"""
    if not c.symbolic:
        return
    th0, ph0, th1, ph1, pd1 = c.real("theta_prev"), c.real("phi_prev"), c.real("theta_now"), c.real("phi_now"), c.real("phi_dot_now")
    mask = lambda th: sym.uf("mask_value", th)

    def mk(th, ph, pd):
        def conv(self, frame=None, form=None, same=None):
            return SymStateVector([1, th, ph, 0, 0, pd], date=self.date, form="spherical", frame=frame)
        return SymStateVector([0] * 6, date=SymDate(0), form="cartesian", frame="EME2000", __convert__=conv)
    w = c.world(stubs={f"{LI}:Listener.check": lambda self, orb: "BASE"})
    station = types.SimpleNamespace(get_mask=mask, name="STATION")
    lis = w.new(f"{LI}:StationMaskListener", station)
    lis.prev = mk(th0, ph0, c.real("phi_dot_prev"))
    now = mk(th1, ph1, pd1)
    g0, g1 = ph0 - mask(th0), ph1 - mask(th1)
    c.ensure("watched_quantity", lis(now) == g1)
    ev = lis.info(now)
    if ev.info == "AOS":
        c.ensure("aos_rising_through_the_mask", g1 > g0)
    else:
        c.ensure("los_falling_behind_the_mask", sym.And(g1 <= g0, bool(ev.info == "LOS")))
    res = lis.check(now)
    if res is False:
        c.ensure("silent_below_the_horizon", ph1 <= 0)
    else:
        c.ensure("otherwise_the_sign_change_test", sym.And(ph1 > 0, bool(res == "BASE")))


@contract("C10", "label.StationMaxListener", funcs=[f"{LI}:StationMaxListener.check", f"{LI}:StationMaxListener.__call__", f"{LI}:StationMaxListener.info"],
          assumptions=["StateVector ADT"])
def _(c):
    """culmination events: the watched quantity is the elevation rate; an event labelled MAX is only looked for when the sample that closes the interval is above the horizon
    and no longer climbing (elevation rate <= 0) -- so that, with the sign change test, the rate went from positive to non-positive: a maximum of elevation, never a minimum"""
    if not c.symbolic:
        return
    ph, pd = c.real("phi_now"), c.real("phi_dot_now")

    def conv(self, frame=None, form=None, same=None):
        return SymStateVector([1, 0, ph, 0, 0, pd], date=self.date, form="spherical", frame=frame)
    now = SymStateVector([0] * 6, date=SymDate(0), form="cartesian", frame="EME2000", __convert__=conv)
    w = c.world(stubs={f"{LI}:Listener.check": lambda self, orb: "BASE"})
    lis = w.new(f"{LI}:StationMaxListener", types.SimpleNamespace(name="STATION"))
    c.ensure("watched_quantity", lis(now) == pd)
    c.ensure("label", bool(lis.info(now).info == "MAX"))
    res = lis.check(now)
    if res is False:
        c.ensure("silent_below_the_horizon_or_while_climbing", sym.Or(ph <= 0, pd > 0))
    else:
        c.ensure("otherwise_the_sign_change_test", sym.And(ph > 0, pd <= 0, bool(res == "BASE")))

@contract("C10", "events_iterator", funcs=[f"{LI}:events_iterator", f"{LI}:find_event"])
def _(c):
    """events_iterator yields exactly the points carrying an event (of the requested kinds), in order; find_event
    returns the offset-th of them or raises"""
    if not c.symbolic:
        return
    E = lambda info: types.SimpleNamespace(info=info)
    pts = [types.SimpleNamespace(event=e, k=k) for k, e in enumerate([None, E("AOS"), None, E("MAX"), E("LOS"), None, E("AOS")])]
    w = c.world()
    ei, fe = w.fn(f"{LI}:events_iterator"), w.fn(f"{LI}:find_event")
    c.ensure("all_events", bool([p.k for p in ei(iter(pts))] == [1, 3, 4, 6]))
    c.ensure("filtered", bool([p.k for p in ei(iter(pts), "AOS", "LOS")] == [1, 4, 6]))
    c.ensure("find.offset", bool(fe(iter(pts), "AOS", offset=1).k == 6 and fe(iter(pts), "MAX").k == 3))
    c.ensure("find.missing", c.raises(RuntimeError, lambda: fe(iter(pts), "AOS", offset=2)))


# ---------------------------------------------------------------------------------------------
# bounded stand-ins on the real classes
# ---------------------------------------------------------------------------------------------

def _mk_orbit(kind, prop):
    from beyond.orbits import Orbit
    from beyond.dates import Date, timedelta
    from beyond.propagators.kepler import Kepler
    from beyond.constants import Earth
    from contracts.c19_mission import _kep2cart
    a, e, i, O, w, nu = {"iss": (6.8e6, 0.001, 0.9, 1.0, 2.0, 0.5), "molniya": (2.66e7, 0.72, 1.1, 2.0, 4.7, 2.8)}[kind]
    r0, v0 = _kep2cart(a, e, i, O, w, nu, Earth.mu)
    d0 = Date(2018, 5, 4, 1, 2, 3)
    orb = Orbit(list(r0) + list(v0), d0, "cartesian", "EME2000", Kepler())
    T = 2 * math.pi * math.sqrt(a ** 3 / Earth.mu)
    if prop == "ephem":
        eph = orb.ephem(stop=d0 + timedelta(seconds=1.3 * T + 1200), step=timedelta(seconds=60 if kind == "iss" else 120))
        return eph, orb, d0, T
    return orb, orb, d0, T


def _grid_events(tier, rng):
    """orbits {iss, molniya} x propagators {kepler, ephemeris} x sampling steps {30 s, 3 min, 10 min} x listener sets
    {node, apside, true-anomaly=1.0, all three + umbra}"""
    for o in (0, 1):
        for p in (0, 1):
            for st in (30.0, 180.0, 600.0):
                for ls in (0, 1, 2, 3):
                    yield {"orbit": o, "prop": p, "step": st, "lset": ls}


@contract("C10", "native", funcs=[f"{LI}:Speaker.listen", f"{LI}:Speaker._bisect", f"{BASE}:AnalyticalPropagator.iter", "beyond.orbits.ephem:Ephem.iter"],
          grid=_grid_events, level="bounded")
def _(c):
    """bounded: over 1.3 orbits, an event is emitted between two samples exactly when a fresh evaluation of the watched
    quantity on those samples changes sign; it lies between them; the quantity has no common strict sign 5 us before and at the
    event; node / apside / anomaly events satisfy their closed-form condition (z = 0, r_dot = 0, nu = value) to the
    bisection resolution; the stream is chronological; a second iteration with the same listener objects is identical"""
    from beyond.dates import timedelta
    from beyond.propagators.listeners import NodeListener, ApsideListener, AnomalyListener, LightListener
    kind = ["iss", "molniya"][c.integer("orbit")]
    prop = ["kepler", "ephem"][c.integer("prop")]
    step = c.real("step")
    src, orb, d0, T = _mk_orbit(kind, prop)
    mk = [lambda: [NodeListener()], lambda: [ApsideListener()], lambda: [AnomalyListener(1.0)],
          lambda: [NodeListener(), ApsideListener(), AnomalyListener(1.0), LightListener()]][c.integer("lset")]
    listeners = mk()
    stop = d0 + timedelta(seconds=1.3 * T)
    kw = dict(start=d0, stop=stop, step=timedelta(seconds=step), listeners=listeners)
    out1 = list(src.iter(**kw))
    out2 = list(src.iter(**kw))
    key = lambda o: (o.date._d, round(o.date._s, 6), o.event.info if o.event else None)
    c.ensure("reuse_identical", [key(o) for o in out1] == [key(o) for o in out2])
    dates = [o.date for o in out1]
    c.ensure("chronological", all(a <= b for a, b in zip(dates, dates[1:])))
    samples = [o for o in out1 if not o.event]
    events = [o for o in out1 if o.event]
    c.ensure("sample_grid", all(abs((s.date - d0).total_seconds() - k * step) < 1e-5 for k, s in enumerate(samples)))
    fresh = mk()
    ok_iff, ok_between, ok_sharp, ok_closed, ok_label = True, True, True, True, True
    for li, (lis, fr) in enumerate(zip(listeners, fresh)):
        evs = [e for e in events if e.event.listener is lis]
        for k in range(len(samples) - 1):
            a, b = samples[k], samples[k + 1]
            ga, gb = fr(a), fr(b)
            expect = np.sign(ga) != np.sign(gb)
            if isinstance(fr, AnomalyListener):
                expect = expect and abs(gb) < 2
            got = [e for e in evs if a.date < e.date <= b.date or (a.date <= e.date <= b.date and e.date not in (a.date,))]
            got = [e for e in evs if a.date <= e.date <= b.date]
            if bool(expect) != (len(got) >= 1) or len(got) > 1:
                ok_iff = False
        for e in evs:
            before = src.propagate(e.date - timedelta(microseconds=5))
            ok_sharp = ok_sharp and not (fr(before) * fr(e) > 0)
            cart = np.asarray(e.copy(form="cartesian"), dtype=float)
            if isinstance(lis, NodeListener):
                ok_closed = ok_closed and abs(cart[2]) < 0.1
                ok_label = ok_label and ((e.event.info == "Asc Node") == (cart[5] >= 0))
            elif isinstance(lis, ApsideListener):
                rdot = cart[:3] @ cart[3:] / np.linalg.norm(cart[:3])
                ok_closed = ok_closed and abs(rdot) < 1e-3
                sph_after = src.propagate(e.date + timedelta(seconds=1)).copy(form="spherical")
                ok_label = ok_label and ((e.event.info == "Periapsis") == (float(sph_after.r_dot) > 0))
            elif isinstance(lis, AnomalyListener):
                nu = float(e.copy(form="keplerian").nu)
                ok_closed = ok_closed and abs((nu - 1.0 + math.pi) % (2 * math.pi) - math.pi) < 1e-7
    c.ensure("event_iff_sign_change_between_samples", ok_iff)
    c.ensure("sharp_5us", ok_sharp)
    c.ensure("closed_form_condition", ok_closed)
    c.ensure("label_matches_direction", ok_label)
    c.ensure("events_found", len(events) >= 1 or step > 0)
    # the same span iterated backwards in time (stop before start): the crossings are found at the same instants (bisection resolution), each strictly between the two
    # samples that bracket it -- never ON a sample --, and satisfies its closed-form condition.  (Labels are not compared: which way a crossing "goes" when time runs
    # backwards is a convention the property does not fix.)
    if prop == "kepler" and c.integer("lset") in (0, 1):
        back = list(src.iter(start=stop, stop=d0, step=timedelta(seconds=step), listeners=mk()))
        b_samples = [o for o in back if not o.event]
        b_events = [o for o in back if o.event]
        fwd = sorted(e.date for e in events)
        bwd = sorted(e.date for e in b_events)
        # (crossings within one step of either end of the span may belong to one direction only: the two sample grids differ)
        inner = lambda ds: [d for d in ds if (d - d0).total_seconds() > step and (stop - d).total_seconds() > step]
        fi, bi = inner(fwd), inner(bwd)
        ok_same = len(fi) == len(bi) and all(abs((a - b).total_seconds()) <= 1e-4 for a, b in zip(fi, bi))
        sample_dates = set((o.date._d, round(o.date._s, 6)) for o in b_samples)
        ok_inside = all((e.date._d, round(e.date._s, 6)) not in sample_dates for e in b_events)
        ok_cf = True
        for e in b_events:
            cart = np.asarray(e.copy(form="cartesian"), dtype=float)
            if c.integer("lset") == 0:
                ok_cf = ok_cf and abs(cart[2]) < 0.1
            else:
                ok_cf = ok_cf and abs(cart[:3] @ cart[3:] / np.linalg.norm(cart[:3])) < 1e-3
        c.ensure("backwards.same_crossings_as_forwards", ok_same)
        c.ensure("backwards.events_strictly_between_samples", ok_inside)
        c.ensure("backwards.closed_form_condition", ok_cf)
        c.ensure("backwards.stream_runs_backwards", all(a.date >= b.date for a, b in zip(b_samples, b_samples[1:])))


def _grid_station(tier, rng):
    """stations at (43.6N, 1.4E), (-33.9, 18.4), (28.5, -80.6) x sampling steps {30 s, 120 s} x ISS-like Kepler orbit over 14 h"""
    for s in (0, 1, 2):
        for st in (30.0, 120.0):
            yield {"station": s, "step": st}


@contract("C10", "station_stream", funcs=["beyond.frames.stations:TopocentricFrame.visibility", f"{LI}:stations_listeners",
                                          f"{LI}:StationSignalListener.info", f"{LI}:StationMaxListener.check"], grid=_grid_station, level="bounded")
def _(c):
    """bounded: a visibility stream consists of exactly the above-horizon samples plus AOS/LOS/MAX events; AOS/LOS have zero
    elevation (1e-6 rad), MAX zero elevation rate (1e-7 rad/s); AOS precedes MAX precedes LOS in every complete pass"""
    from beyond.dates import timedelta
    from beyond.frames.stations import create_station
    lat, lon = [(43.6, 1.4), (-33.9, 18.4), (28.5, -80.6)][c.integer("station")]
    sta = create_station(f"VS{c.integer('station')}_{int(c.real('step'))}", (lat, lon, 100.0))
    orb, _, d0, T = _mk_orbit("iss", "kepler")
    step = c.real("step")
    pts = list(sta.visibility(orb, start=d0, stop=d0 + timedelta(hours=14), step=timedelta(seconds=step), events=True))
    ok_s, ok_e, ok_m = True, True, True
    for p in pts:
        if p.event is None:
            ok_s = ok_s and float(p.phi) >= 0 and abs(((p.date - d0).total_seconds() / step) - round((p.date - d0).total_seconds() / step)) < 1e-6
        elif p.event.info in ("AOS", "LOS"):
            ok_e = ok_e and abs(float(p.phi)) < 1e-6
        elif p.event.info == "MAX":
            ok_m = ok_m and abs(float(p.phi_dot)) < 1e-7 and float(p.phi) > 0
    c.ensure("samples_above_horizon_on_grid", ok_s)
    c.ensure("aos_los_zero_elevation", ok_e)
    c.ensure("max_zero_rate", ok_m)
    # a long, two-humped visibility (Molniya seen from mid latitudes): whatever is labelled MAX is a maximum of elevation (higher than 60 s before and after)
    mol, _, m0, _T = _mk_orbit("molniya", "kepler")
    ok_top = True
    n_max = 0
    for p in sta.visibility(mol, start=m0, stop=m0 + timedelta(hours=30), step=timedelta(seconds=step * 10), events=True):
        if p.event is not None and p.event.info == "MAX":
            n_max += 1
            el = lambda d: float(mol.propagate(d).copy(frame=sta, form="spherical").phi)
            ok_top = ok_top and el(p.date) >= el(p.date - timedelta(seconds=60)) and el(p.date) >= el(p.date + timedelta(seconds=60))
    c.ensure("max_is_a_maximum_of_elevation", ok_top)
    # every above-horizon sample of a plain iteration is in the stream
    plain = [o.copy(frame=sta, form="spherical") for o in orb.iter(start=d0, stop=d0 + timedelta(hours=14), step=timedelta(seconds=step))]
    want = [o.date for o in plain if float(o.phi) >= 0]
    got = [p.date for p in pts if p.event is None]
    c.ensure("exactly_the_visible_samples", want == got)
    infos = [p.event.info for p in pts if p.event is not None]
    seq = "".join({"AOS": "A", "MAX": "M", "LOS": "L"}[i] for i in infos)
    import re
    c.ensure("pass_structure", re.fullmatch(r"(M?L)?(AML)*(AM?)?", seq) is not None)



def _grid_mask(tier, rng):
    """stations at (43.6N, 1.4E), (-33.9, 18.4) x masks {2 deg with two 26 deg obstacles 0.25 rad wide, 5 deg with a 40 deg wall over a quarter of the horizon} x sampling
    step {30 s, 60 s}, ISS-like Kepler orbit over 16 h; edges 0.01 rad wide"""
    for s in (0, 1):
        for m in (0, 1):
            for st in (30.0, 60.0):
                yield {"station": s, "mask": m, "step": st}


@contract("C10", "mask_stream", funcs=[f"{LI}:StationMaskListener.info", f"{LI}:StationMaskListener.__call__", f"{LI}:StationMaskListener.check",
                                       "beyond.frames.stations:TopocentricFrame.visibility"], grid=_grid_mask, level="bounded")
def _(c):
    """bounded: with a horizon mask that has steep edges (so that a target can go behind an obstacle while still climbing, and come out while descending), every mask
    event sits on the mask (elevation = mask value at its azimuth angle, 1e-6 rad) and is labelled by the direction in which the target crosses the mask there -- AOS
    when elevation - mask goes from negative to positive (evaluated 0.5 s before and after on the propagated orbit), LOS the other way -- and mask AOS / LOS alternate"""
    from beyond.dates import timedelta
    from beyond.frames.stations import create_station
    lat, lon = [(43.6, 1.4), (-33.9, 18.4)][c.integer("station")]
    two_pi = 2 * math.pi
    if c.integer("mask") == 0:
        lo, hi = math.radians(2), math.radians(26)
        az = [0.0, 0.70, 0.71, 0.95, 0.96, 3.0, 5.50, 5.51, 5.75, 5.76, two_pi]
        el = [lo, lo, hi, hi, lo, lo, lo, hi, hi, lo, lo]
    else:
        lo, hi = math.radians(5), math.radians(40)
        az = [0.0, 1.0, 1.01, 2.6, 2.61, two_pi]
        el = [lo, lo, hi, hi, lo, lo]
    sta = create_station(f"VM{c.integer('station')}{c.integer('mask')}_{int(c.real('step'))}", (lat, lon, 100.0), mask=[az, el])
    orb, _, d0, T = _mk_orbit("iss", "kepler")
    step = c.real("step")
    pts = [p for p in sta.visibility(orb, start=d0, stop=d0 + timedelta(hours=16), step=timedelta(seconds=step), events=True)
           if p.event is not None and type(p.event).__name__ == "MaskEvent"]
    g = lambda o: float(o.copy(frame=sta, form="spherical").phi) - float(sta.get_mask(float(o.copy(frame=sta, form="spherical").theta)))
    ok_on, ok_label, seq = True, True, []
    for p in pts:
        ok_on = ok_on and abs(g(p)) < 1e-6
        before, after = g(orb.propagate(p.date - timedelta(seconds=0.5))), g(orb.propagate(p.date + timedelta(seconds=0.5)))
        if before * after < 0:   # a clean crossing (not within half a second of a mask edge)
            ok_label = ok_label and ((p.event.info == "AOS") == (after > before))
        seq.append(p.event.info)
    c.ensure("events_found", len(pts) >= 2)
    c.ensure("event_on_the_mask", ok_on)
    c.ensure("label_matches_direction_of_crossing", ok_label)

def _grid_station_extra(tier, rng):
    """stations at latitudes {43.6 N, 20 S, 2 N} x extra listeners given through events= {node + apside in EME2000, node + apside without a frame of their own, anomaly} x
    step {60 s, 180 s}, ISS-like Kepler orbit over 14 h"""
    for s in (0, 1, 2):
        for ex in (0, 1, 2):
            for st in (60.0, 180.0):
                yield {"station": s, "extra": ex, "step": st}


@contract("C10", "station_stream.extra", funcs=["beyond.frames.stations:TopocentricFrame.visibility", f"{LI}:Speaker.listen", f"{LI}:Listener.check"], grid=_grid_station_extra,
          level="bounded")
def _(c):
    """bounded: with further listeners handed to visibility(), the stream is still exactly the above-horizon samples plus this station's AOS/LOS/MAX, plus the further
    listeners' events *that lie above the horizon*: nothing below the horizon but the station's own events; the station events and the samples are the same as without the
    further listeners; and the further listeners' events are those a plain iteration of the same orbit with fresh listeners finds (the samples the station frame was applied
    to are not the ones the listeners compare with)"""
    from beyond.dates import timedelta
    from beyond.frames.stations import create_station
    from beyond.propagators.listeners import NodeListener, ApsideListener, AnomalyListener
    lat, lon = [(43.6, 1.4), (-20.0, 18.4), (2.0, -80.6)][c.integer("station")]
    sta = create_station(f"VX{c.integer('station')}{c.integer('extra')}_{int(c.real('step'))}", (lat, lon, 100.0))
    orb, _, d0, T = _mk_orbit("iss", "kepler")
    step = c.real("step")
    mk = [lambda: [NodeListener("EME2000"), ApsideListener("EME2000")], lambda: [NodeListener(), ApsideListener()], lambda: [AnomalyListener(1.0)]][c.integer("extra")]
    kw = dict(start=d0, stop=d0 + timedelta(hours=14), step=timedelta(seconds=step))
    key = lambda p: (p.date._d, round(p.date._s, 5), p.event.info if p.event else None)
    base = [key(p) for p in sta.visibility(orb, events=True, **kw)]
    # the caller's own list of listeners handed over through listeners= (with the station events asked for), twice: the list is the caller's -- it comes back as it
    # was -- and the second stream is the first one again
    own = mk()
    n_own = len(own)
    first = [key(p) for p in sta.visibility(orb, listeners=own, events=True, **kw)]
    second = [key(p) for p in sta.visibility(orb, listeners=own, events=True, **kw)]
    c.ensure("callers_list_reused.same_stream_again", first == second and len(own) == n_own)
    extra = mk()
    pts = list(sta.visibility(orb, events=extra, **kw))
    station_events = ("AOS", "LOS", "MAX")
    c.ensure("nothing_below_the_horizon_but_station_events", all(float(p.phi) >= -1e-9 or (p.event is not None and p.event.info in station_events) for p in pts))
    c.ensure("samples_and_station_events_unchanged", [key(p) for p in pts if p.event is None or p.event.info in station_events] == base)
    # the further listeners' events: those of a plain iteration (fresh listeners), kept when above the horizon
    fresh = mk()
    plain = [o for o in orb.iter(listeners=fresh, **kw) if o.event is not None]
    want = [key(o) for o in plain if float(o.copy(frame=sta, form="spherical").phi) >= 0]
    got = [key(p) for p in pts if p.event is not None and p.event.info not in station_events]
    c.ensure("further_events_are_those_of_a_plain_iteration", got == want)


def _grid_light(tier, rng):
    """ISS-like, Molniya and geostationary (at the March equinox: the eclipse season, where the shadow is crossed 36 000 km behind the Earth and the two cones are furthest
    apart) orbits, sampling steps {60 s, 300 s}, umbra and penumbra listeners"""
    for o in (0, 1, 2):
        for st in (60.0, 300.0):
            for typ in (0, 1):
                yield {"orbit": o, "step": st, "type": typ}


def _shadow(r_sat, r_sun, Rs=6.957e8, Re=6378136.3):
    """independent conical shadow model: returns (in_umbra, in_penumbra)"""
    s = np.asarray(r_sun, dtype=float)
    x = np.asarray(r_sat, dtype=float)
    d = np.linalg.norm(s)
    u = -s / d  # anti-sun axis
    along = x @ u
    if along <= 0:
        return False, False
    perp = np.linalg.norm(x - along * u)
    a_umb = math.asin((Rs - Re) / d)
    a_pen = math.asin((Rs + Re) / d)
    umb = perp <= (Re / math.sin(a_umb) - along) * math.tan(a_umb)
    pen = perp <= (Re / math.sin(a_pen) + along) * math.tan(a_pen)
    return bool(umb), bool(pen)


@contract("C10", "light", funcs=[f"{LI}:LightListener.__call__", f"{LI}:LightListener.info"], grid=_grid_light, level="bounded")
def _(c):
    """bounded: umbra (penumbra) entry / exit events agree with an independent conical-shadow computation: the independent
    model changes state within 0.01 s (0.5 s) of each event, and labels are entries iff going dark"""
    from beyond.dates import timedelta
    from beyond.propagators.listeners import LightListener
    from beyond.env.solarsystem import get_body
    kind = ["iss", "molniya", "geo"][c.integer("orbit")]
    typ = ["umbra", "penumbra"][c.integer("type")]
    if kind == "geo":
        from beyond.orbits import Orbit
        from beyond.dates import Date
        from beyond.propagators.kepler import Kepler
        from beyond.constants import Earth
        from contracts.c19_mission import _kep2cart
        r0, v0 = _kep2cart(42164.0e3, 0.0005, 0.02, 1.0, 2.0, 0.5, Earth.mu)
        d0 = Date(2018, 3, 20, 1, 2, 3)
        orb = Orbit(list(r0) + list(v0), d0, "cartesian", "EME2000", Kepler())
        T = 2 * math.pi * math.sqrt(42164.0e3 ** 3 / Earth.mu)
    else:
        src, orb, d0, T = _mk_orbit(kind, "kepler")
    sun = get_body("Sun")
    tol = 0.01 if typ == "umbra" else 0.5
    evs = [o for o in orb.iter(start=d0, stop=d0 + timedelta(seconds=1.5 * T), step=timedelta(seconds=c.real("step")), listeners=[LightListener(typ)]) if o.event]

    def state(t):
        o = orb.propagate(t)
        sp = np.asarray(sun.propagate(t).copy(frame="EME2000", form="cartesian")[:3], dtype=float)
        return _shadow(np.asarray(o[:3], dtype=float), sp)[0 if typ == "umbra" else 1]
    ok_t, ok_l = True, True
    for e in evs:
        before, after = state(e.date - timedelta(seconds=tol)), state(e.date + timedelta(seconds=tol))
        ok_t = ok_t and before != after
        ok_l = ok_l and (("entry" in e.event.info) == (after and not before))
    c.ensure("events_exist", len(evs) >= 1 if kind in ("iss", "geo") else True)
    c.ensure("agrees_with_independent_cone", ok_t)
    c.ensure("label", ok_l)


# ---------------------------------------------------------------------------------------------
# the stream an iteration yields: events before the sample that closes their interval
# ---------------------------------------------------------------------------------------------

def _stream_contract(who, funcs):
    from contracts.c08_iteration import listener_stream

    @contract("C10", f"stream.{who}", funcs=funcs, level="proof",
              assumptions=["listen(sample) abstracted: returns 0..2 events found between the previous sample and this one (C10.check / C10.bisect: each event is dated inside that interval)",
                           "propagate(date) returns a state dated `date`"])
    def _(c):
        """proved: the stream an iteration yields is, for each sample in order, the events listen() found since the previous sample (in the order listen() gave them)
        followed by the sample itself (or its copy) -- so every event lies between its two bracketing samples and the stream is chronological; nothing else is yielded"""
        if not c.symbolic:
            return
        log, out, samples, L, ev, mode = listener_stream(c, "C10", who)
        want = []
        for s in samples:
            want.extend(ev.get(id(s), []))
            want.append(s)

        def same(a, b):
            return a is b or (not isinstance(a, tuple) and not isinstance(b, tuple) and getattr(a, "parent", None) is b)
        c.ensure("stream_is_events_then_sample", len(out) == len(want) and all(same(a, b) for a, b in zip(out, want)))
        if who == "ephem" and mode == "own_step":
            c.ensure("recorded_states_are_not_handed_out", all(not any(o is s for s in samples) for o in out))
    return _


_stream_contract("ephem", ["beyond.orbits.ephem:Ephem.iter"])
_stream_contract("analytical", ["beyond.propagators.base:AnalyticalPropagator.iter"])


def _grid_modes(tier, rng):
    """orbits {iss, molniya} x sources {ephemeris, numerical propagator (rk4), analytical Kepler} x the way the iteration is driven {the source's own step, an explicit list of
    dates, start/stop/step} x listener sets {node + apside, anomaly}"""
    for o in (0, 1):
        for p in (0, 1, 2):
            for m in (0, 1, 2):
                for ls in (0, 1):
                    yield {"orbit": o, "src": p, "mode": m, "lset": ls}


@contract("C10", "native.modes", funcs=["beyond.orbits.ephem:Ephem.iter", "beyond.propagators.keplernum:KeplerNum._iter", f"{BASE}:AnalyticalPropagator.iter"], grid=_grid_modes, level="bounded")
def _(c):
    """bounded: however the iteration is driven (own step, explicit dates, start/stop/step), on an ephemeris, a numerical and an analytical propagator: the stream is
    chronological, every event lies between the two samples that bracket it in the stream, events are found (over 0.95 orbit), and a second pass with the same listener
    objects -- also one over other dates -- gives what fresh listeners give"""
    from beyond.dates import timedelta
    from beyond.orbits import Orbit
    from beyond.propagators.listeners import NodeListener, ApsideListener, AnomalyListener
    from beyond.propagators.keplernum import KeplerNum
    from beyond.env.solarsystem import get_body
    kind = ["iss", "molniya"][c.integer("orbit")]
    which = ["ephem", "num", "kepler"][c.integer("src")]
    mode = ["own", "dates", "range"][c.integer("mode")]
    c.require(not (which == "kepler" and mode == "own"))
    src, orb, d0, T = _mk_orbit(kind, "ephem" if which == "ephem" else "kepler")
    h = 60.0 if kind == "iss" else 120.0
    if which == "num":
        src = Orbit(np.asarray(orb, dtype=float), d0, "cartesian", "EME2000", KeplerNum(timedelta(seconds=h), get_body("Earth"), method="rk4"))
    mk = [lambda: [NodeListener(), ApsideListener()], lambda: [AnomalyListener(1.0)]][c.integer("lset")]
    span = 0.95 * T

    def run(listeners, t0=0.0):
        if mode == "own":
            kw = dict(listeners=listeners) if which == "ephem" else dict(stop=d0 + timedelta(seconds=span), listeners=listeners)
        elif mode == "dates":
            n = int(span // (2.5 * h))
            kw = dict(dates=[d0 + timedelta(seconds=t0 + 2.5 * h * k) for k in range(n)], listeners=listeners)
        else:
            kw = dict(start=d0 + timedelta(seconds=t0), stop=d0 + timedelta(seconds=span), step=timedelta(seconds=2.5 * h), listeners=listeners)
        return list(src.iter(**kw))
    key = lambda o: (o.date._d, round(o.date._s, 6), o.event.info if o.event else None)
    used = mk()
    out1 = run(used)
    dates = [o.date for o in out1]
    c.ensure("chronological", all(a <= b for a, b in zip(dates, dates[1:])))
    ok = True
    for k, o in enumerate(out1):
        if o.event:
            prev = next((p for p in reversed(out1[:k]) if not p.event), None)
            nxt = next((p for p in out1[k + 1:] if not p.event), None)
            ok = ok and prev is not None and nxt is not None and prev.date <= o.date <= nxt.date
    c.ensure("event_between_its_bracketing_samples", ok)
    c.ensure("events_found", any(o.event for o in out1))
    c.ensure("second_pass_same_listeners", [key(o) for o in run(used)] == [key(o) for o in out1])
    if mode != "own":
        # another pass, starting a third of an orbit later: the listeners remember the end of the previous pass unless they are reset
        c.ensure("shifted_pass_same_as_fresh_listeners", [key(o) for o in run(used, T / 3)] == [key(o) for o in run(mk(), T / 3)])
