"""C20, for graphs of any size: Node.__init__ / Node._update / Node.__add__ against a representation invariant of the routing tables.

The routing tables of all nodes at one moment are a value `Heap` (three arrays node -> name -> has / steps / direction); names are
identified with node identities (distinct nodes carry distinct names).  The representation invariant is

    GI(H, adj) :=  POS(H)  and  for every node u:  FIXED(u; H, adj)

POS: every recorded number of steps is >= 1.  FIXED(u): u's table is the minimum-steps merge of its neighbours' tables -- one entry
(g, 1, g) per neighbour g, none for u itself, and for any other name g an entry iff some neighbour has one, with steps = 1 + the least of
the neighbours' steps and direction a neighbour attaining it.

  C20.init      Node.__init__ establishes GI for the new node and leaves the others alone
  C20.update    Node._update (recursive, modular: the recursive calls are replaced by this very contract): the receiver's table becomes
                the merge of its neighbours' tables at that moment; locked nodes are not touched, every node reached is locked and refreshed
                exactly once, nothing outside the connected part is touched
  C20.add       Node.__add__: the two neighbour entries are made; when the refresh loop exits, GI holds again (any graph, any tables before)
  C20.fixpoint  lemmas: GI implies the routing-table invariant RT that C20.path needs; the two induction steps showing that the recorded
                steps are the length of a shortest walk (so the chain path() returns is a shortest one and exactly the connected names are known)
"""
import types

import z3

from pyvc.contract import contract, LoopSpec
from pyvc import sym
from contracts.c20_routing import ND, NODE, RT, HAS, DIR, STP, ADJ as ADJ_RT

I, B = z3.IntSort(), z3.BoolSort()
AB, AI = z3.ArraySort(I, B), z3.ArraySort(I, I)
HB, HI = z3.ArraySort(I, AB), z3.ArraySort(I, AI)

DICT_SEMANTICS = ("python dict / set semantics assumed: a dict is a finite map and iterating its items() visits every key exactly once (enumeration functions); "
                  "OrderedDict used as an ordered set of neighbours likewise; `in`, item assignment and == are the mathematical ones; a comprehension over them denotes the finite map / list of its elements")
NAMES = "distinct nodes carry distinct names (names are identified with node identities); a node is never linked to itself"
RECURSION = "the recursive calls of Node._update are replaced by the contract being proved (modular treatment of recursion: partial correctness); termination of the recursion and of the refresh loop of __add__ is not proved (bounded stand-ins C20.build.*)"


def _ints(*names):
    return [z3.Int(n) for n in names]


class Heap:
    """the routing tables of all nodes at one moment"""
    _n = [0]

    def __init__(self, H, S, D):
        self.H, self.S, self.D = H, S, D

    @staticmethod
    def fresh(tag):
        Heap._n[0] += 1
        k = f"{tag}!{next(sym.cur().counter)}"
        return Heap(z3.Const(f"H_{k}", HB), z3.Const(f"S_{k}", HI), z3.Const(f"D_{k}", HI))

    def has(self, u, g):
        return z3.Select(z3.Select(self.H, u), g)

    def stp(self, u, g):
        return z3.Select(z3.Select(self.S, u), g)

    def dir(self, u, g):
        return z3.Select(z3.Select(self.D, u), g)

    def same(self, other, u):
        return z3.And(z3.Select(self.H, u) == z3.Select(other.H, u), z3.Select(self.S, u) == z3.Select(other.S, u),
                      z3.Select(self.D, u) == z3.Select(other.D, u))

    def with_table(self, u, h, s, d):
        return Heap(z3.Store(self.H, u, h), z3.Store(self.S, u, s), z3.Store(self.D, u, d))

    def with_entry(self, u, g, steps, direction):
        return self.with_table(u, z3.Store(z3.Select(self.H, u), g, z3.BoolVal(True)), z3.Store(z3.Select(self.S, u), g, steps),
                               z3.Store(z3.Select(self.D, u), g, direction))

    def identical(self, other):
        return z3.eq(self.H, other.H) and z3.eq(self.S, other.S) and z3.eq(self.D, other.D)


def POS(P):
    u, g = _ints("pu", "pg")
    return z3.ForAll([u, g], z3.Implies(P.has(u, g), P.stp(u, g) >= 1))


def merged_clauses(u, P, P2, adj):
    """MERGED(u; P, P2): u's table in P2 is the merge of its neighbours' tables, each taken either from P or from P2 (a node is refreshed once
    per sweep, so a neighbour's table at the moment u was refreshed is its table before the sweep or its table after it)"""
    g, v = _ints("mg", "mv")
    d = P2.dir(u, g)
    a = z3.ForAll([g], z3.Implies(P2.has(u, g), g != u))
    b = z3.ForAll([g], z3.Implies(adj(u, g), z3.And(P2.has(u, g), P2.stp(u, g) == 1, P2.dir(u, g) == g)))
    c = z3.ForAll([g], z3.Implies(z3.And(P2.has(u, g), z3.Not(adj(u, g))),
                                  z3.And(adj(u, d), z3.Or(z3.And(P.has(d, g), P2.stp(u, g) == P.stp(d, g) + 1),
                                                          z3.And(P2.has(d, g), P2.stp(u, g) == P2.stp(d, g) + 1)))))
    dd = z3.ForAll([g, v], z3.Implies(z3.And(adj(u, v), g != u, z3.Not(adj(u, g))),
                                      z3.Or(z3.Implies(P.has(v, g), z3.And(P2.has(u, g), P2.stp(u, g) <= P.stp(v, g) + 1)),
                                            z3.Implies(P2.has(v, g), z3.And(P2.has(u, g), P2.stp(u, g) <= P2.stp(v, g) + 1)))))
    return [("no_entry_for_itself", a), ("neighbours_at_one_step", b), ("direction_attains_the_steps", c), ("steps_are_least", dd)]


def MERGED(u, P, P2, adj):
    return z3.And(*[f for _, f in merged_clauses(u, P, P2, adj)])


def graph_axioms(adj):
    u, v = _ints("gu", "gv")
    return [("symmetric", z3.ForAll([u, v], adj(u, v) == adj(v, u))), ("irreflexive", z3.ForAll([u], z3.Not(adj(u, u))))]


class St:
    """mutable state of one symbolic run: current tables, current lock set, current links"""

    def __init__(self, me):
        self.me = me
        self.heap = Heap.fresh("T")
        self.au = z3.K(I, z3.BoolVal(False))
        self.adj0 = z3.Function("adj", I, I, B)
        self.links = []          # directed neighbour entries added by the code: (u, v)
        self.cleared = []        # nodes whose neighbour set was emptied by the code
        self.stub = None
        self.enum_heap = None

    def freeze_links(self):
        """called by a loop's havoc: from here on the code must not add or clear neighbour entries (they are not part of the havocked state)"""
        self.frozen = True

    def adj(self, u, v):
        e = self.adj0(u, v)
        for c in self.cleared:
            e = z3.And(e, u != c)
        for (a, b) in self.links:
            e = z3.Or(e, z3.And(u == a, v == b))
        return e

    # enumerations ---------------------------------------------------------------------------------------------------------------
    def declare_neighbour_enumeration(self, run):
        """the receiver's neighbours in iteration order: NB(0..K-1), each once"""
        self.K = z3.Int("K")
        self.NB = z3.Function("NB", I, I)
        self.IDX = z3.Function("IDX", I, I)
        i, v = _ints("ei", "ev")
        run.add_fact("pre", "enum.neighbours", z3.And(
            self.K >= 0,
            z3.ForAll([i], z3.Implies(z3.And(0 <= i, i < self.K), z3.And(self.adj(self.me, self.NB(i)), self.IDX(self.NB(i)) == i))),
            z3.ForAll([v], z3.Implies(self.adj(self.me, v), z3.And(0 <= self.IDX(v), self.IDX(v) < self.K, self.NB(self.IDX(v)) == v)))))

    def declare_items_enumeration(self, run):
        """the items of every node's table at entry, in iteration order: IT(v, 0..M(v)-1), each key once"""
        self.enum_heap = T = self.heap
        self.M = z3.Function("M", I, I)
        self.IT = z3.Function("IT", I, I, I)
        self.IX = z3.Function("IX", I, I, I)
        v, m, g = _ints("ev2", "em", "eg")
        run.add_fact("pre", "enum.items", z3.And(
            z3.ForAll([v], self.M(v) >= 0),
            z3.ForAll([v, m], z3.Implies(z3.And(0 <= m, m < self.M(v)), z3.And(T.has(v, self.IT(v, m)), self.IX(v, self.IT(v, m)) == m))),
            z3.ForAll([v, g], z3.Implies(T.has(v, g), z3.And(0 <= self.IX(v, g), self.IX(v, g) < self.M(v), self.IT(v, self.IX(v, g)) == g)))))


class SymNode:
    def __init__(self, st, ident):
        object.__setattr__(self, "st", st)
        object.__setattr__(self, "id", ident)   # z3 Int

    @property
    def name(self):
        return sym.SInt(self.id)

    @property
    def routes(self):
        return Table(self.st, self.id)

    @property
    def neighbors(self):
        return Nbrs(self.st, self.id)

    def __setattr__(self, k, v):
        st = self.st
        if k == "routes":
            if not (isinstance(v, dict) and not v):
                raise sym.EngineLimit("routes assigned something else than an empty dict")
            st.heap = st.heap.with_table(self.id, z3.K(I, z3.BoolVal(False)), z3.Select(st.heap.S, self.id), z3.Select(st.heap.D, self.id))
        elif k == "neighbors":
            if len(v) != 0:
                raise sym.EngineLimit("neighbors assigned a non-empty collection")
            if getattr(st, "frozen", False):
                raise sym.EngineLimit("neighbours cleared inside a loop under contract")
            st.cleared.append(self.id)
        elif k == "name":
            e = sym.lift(v)[0]
            sym.cur().oblige("name_is_identity", "post", e == self.id)
        else:
            raise sym.EngineLimit(f"Node attribute {k} assigned")

    def _update(self, already_updated=None):
        return self.st.stub(self, already_updated)

    def __pv_havoc__(self, name):
        return SymNode(self.st, sym.cur().fresh(f"h_{name}", "int"))


class Table:
    """node.routes"""

    def __init__(self, st, u):
        self.st, self.u = st, u

    def __contains__(self, g):
        return bool(sym.SBool(self.st.heap.has(self.u, sym.lift(g)[0])))

    def keys(self):
        return self

    def __getitem__(self, g):
        ge = sym.lift(g)[0]
        sym.cur().safety("key", self.st.heap.has(self.u, ge))
        return types.SimpleNamespace(direction=SymNode(self.st, self.st.heap.dir(self.u, ge)), steps=sym.SInt(self.st.heap.stp(self.u, ge)))

    def __setitem__(self, g, route):
        ge = sym.lift(g)[0]
        if not isinstance(route.direction, SymNode):
            raise sym.EngineLimit("Route.direction is not a node")
        self.st.heap = self.st.heap.with_entry(self.u, ge, sym.lift(route.steps)[0], route.direction.id)

    def items(self):
        return Items(self.st, self.u)


class Items:
    """node.routes.items(): a `for` with a loop contract walks the enumeration declared for the tables at entry (obligation: the table
    is still the one at entry); a comprehension takes a generic element"""

    def __init__(self, st, u):
        self.st, self.u = st, u

    @property
    def length(self):
        st = self.st
        if st.enum_heap is None:
            raise sym.EngineLimit("items() iterated without an enumeration")
        sym.cur().safety("items_of_the_table_at_entry", st.heap.same(st.enum_heap, self.u))
        return sym.SInt(st.M(self.u))

    def item(self, m):
        st, T = self.st, self.st.enum_heap
        key = st.IT(self.u, sym.lift(m)[0])
        return sym.SInt(key), types.SimpleNamespace(direction=SymNode(st, T.dir(self.u, key)), steps=sym.SInt(T.stp(self.u, key)))

    def generic(self):
        g = sym.cur().fresh("g_name", "int")
        h = self.st.heap
        return g, h.has(self.u, g), (sym.SInt(g), types.SimpleNamespace(direction=SymNode(self.st, h.dir(self.u, g)), steps=sym.SInt(h.stp(self.u, g))))

    def __iter__(self):
        raise sym.EngineLimit("items() iterated by a loop without a contract")


class NameSet:
    """[self.name] + [x.name for x in self.neighbors]"""

    def __init__(self, st, u, extras=()):
        self.st, self.u, self.extras = st, u, list(extras)

    def __radd__(self, lst):
        return NameSet(self.st, self.u, list(lst) + self.extras)

    def __add__(self, lst):
        return NameSet(self.st, self.u, self.extras + list(lst))

    def __contains__(self, g):
        ge = sym.lift(g)[0]
        return bool(sym.SBool(z3.Or(*[sym.lift(x)[0] == ge for x in self.extras], self.st.adj(self.u, ge))))


class Nbrs:
    """node.neighbors"""

    def __init__(self, st, u):
        self.st, self.u = st, u

    @property
    def length(self):
        if not z3.eq(self.u, self.st.me) or not hasattr(self.st, "K"):
            raise sym.EngineLimit("neighbours enumerated for another node than the receiver")
        return sym.SInt(self.st.K)

    def item(self, i):
        return SymNode(self.st, self.st.NB(sym.lift(i)[0]))

    def __setitem__(self, node, value):
        if value is not None or not isinstance(node, SymNode):
            raise sym.EngineLimit("neighbors[...] = something else than None")
        self.st.links.append((self.u, node.id))

    def __pv_comp__(self, kind, iters, body):
        if kind != "list" or len(iters) != 1:
            raise sym.EngineLimit("comprehension over neighbours: only a one-generator list")
        v = sym.cur().fresh("g_nbr", "int")
        val = body(SymNode(self.st, v))
        if not (isinstance(val, sym.SInt) and z3.eq(val.e, v)):
            raise sym.EngineLimit("comprehension over neighbours: element is not the neighbour's name")
        return NameSet(self.st, self.u)

    def __iter__(self):
        raise sym.EngineLimit("neighbors iterated by a loop without a contract")


class AUSet:
    """the shared lock `already_updated` (one per run: st.au)"""

    def __init__(self, st):
        self.st = st

    def __contains__(self, node):
        return bool(sym.SBool(z3.Select(self.st.au, node.id)))

    def add(self, node):
        self.st.au = z3.Store(self.st.au, node.id, z3.BoolVal(True))

    def __pv_comp__(self, kind, iters, body):
        if kind != "dict" or len(iters) != 2:
            raise sym.EngineLimit("comprehension over the updated set: only the two-generator dict")
        n = sym.cur().fresh("g_node", "int")
        node = SymNode(self.st, n)
        it = iters[1](node)
        if not isinstance(it, Items):
            raise sym.EngineLimit("comprehension: second generator is not items() of a table")
        g, guard, elem = it.generic()
        key, val = body(node, elem)
        ok = isinstance(key, tuple) and len(key) == 2 and key[0] is node and isinstance(key[1], sym.SInt) and z3.eq(key[1].e, g)
        if not ok:
            raise sym.EngineLimit("comprehension: key is not (node, name)")
        return SymMap(n, g, z3.And(z3.Select(self.st.au, n), guard), sym.lift(val)[0], self.st.heap, self.st.au)


class SymMap:
    """{(node, name): value for node in S for name, route in node.routes.items()} as a finite map: guard(n, g) says (n, g) is a key"""

    def __init__(self, n, g, guard, val, heap, au):
        self.n, self.g, self.guard, self.val, self.heap, self.au = n, g, guard, val, heap, au

    def __eq__(self, other):
        if other is None:
            return False
        if not isinstance(other, SymMap):
            raise sym.EngineLimit("snapshot compared with something else")
        n, g = _ints("sn", "sg")
        g1, v1 = z3.substitute(self.guard, (self.n, n), (self.g, g)), z3.substitute(self.val, (self.n, n), (self.g, g))
        g2, v2 = z3.substitute(other.guard, (other.n, n), (other.g, g)), z3.substitute(other.val, (other.n, n), (other.g, g))
        return sym.SBool(z3.ForAll([n, g], z3.And(g1 == g2, z3.Implies(g1, v1 == v2))))

    def is_steps_snapshot_of(self, H):
        """this map is {(n, g): H.steps(n, g) | n in some set, g in H.table(n)} -- checked on the terms, not assumed"""
        n, g = self.n, self.g
        return bool(self.heap.identical(H) and z3.is_and(self.guard) and self.guard.num_args() == 2 and z3.eq(self.guard.arg(0), z3.Select(self.au, n))
                    and z3.eq(self.guard.arg(1), H.has(n, g)) and z3.eq(self.val, H.stp(n, g)))

    def __ne__(self, other):
        r = self.__eq__(other)
        return (not r) if isinstance(r, bool) else sym.Not(r)

    __hash__ = None


# ------------------------------------------------------------------------------------------------------------------------------------
# the contract of _update as a list of clauses relating (P, AU) before to (P2, AU2) after a call on node v
# ------------------------------------------------------------------------------------------------------------------------------------

def update_post(v, P, AU, P2, AU2, adj, COMP):
    u, w = _ints("qu", "qw")
    new = z3.And(z3.Select(AU2, u), z3.Not(z3.Select(AU, u)))
    return [
        ("locks_only_grow", z3.ForAll([u], z3.Implies(z3.Select(AU, u), z3.Select(AU2, u)))),
        ("receiver_locked", z3.Select(AU2, v)),
        ("locked_nodes_untouched", z3.ForAll([u], z3.Implies(z3.Select(AU, u), P2.same(P, u)))),
        ("unreached_nodes_untouched", z3.ForAll([u], z3.Implies(z3.Not(z3.Select(AU2, u)), P2.same(P, u)))),
        ("reached_nodes_bring_their_neighbours", z3.ForAll([u, w], z3.Implies(z3.And(new, adj(u, w)), z3.Select(AU2, w)))),
        ("reached_nodes_are_connected", z3.ForAll([u], z3.Implies(new, COMP(u)))),
        ("steps_positive", POS(P2)),
    ] + [(f"reached_nodes_hold_the_merge.{lab}", z3.ForAll([u], z3.Implies(new, f))) for lab, f in merged_clauses(u, P, P2, adj)]


def update_pre(v, P, AU, adj, COMP):
    u, w = _ints("ru", "rw")
    return [("receiver_not_locked", z3.Not(z3.Select(AU, v))), ("steps_positive", POS(P)), ("receiver_connected", COMP(v)),
            ("connected_part_closed", z3.ForAll([u, w], z3.Implies(z3.And(COMP(u), adj(u, w)), COMP(w))))] + graph_axioms(adj)


def make_stub(st, COMP):
    def stub(node, au):
        run = sym.cur()
        if not isinstance(au, AUSet):
            raise sym.EngineLimit("_update called without the shared lock set")
        P, AU = st.heap, st.au
        for lab, f in update_pre(node.id, P, AU, st.adj, COMP):
            run.oblige(f"call._update.pre.{lab}", "call", f)
        st.heap, st.au = Heap.fresh("P"), z3.Const(f"AU!{next(run.counter)}", AB)
        for lab, f in update_post(node.id, P, AU, st.heap, st.au, st.adj, COMP):
            run.add_fact("callee", f"_update.post.{lab}", f)
        run.assumed_used["callee contract used at call site: beyond.utils.node:Node._update"] = "C20.update (proved); body not entered"
    return stub


BUDGET = 60000


@contract("C20", "update", funcs=[f"{NODE}._update"], assumptions=[DICT_SEMANTICS, NAMES, RECURSION])
def _(c):
    """proved, any graph, any tables: one call of Node._update(lock) on a node that is not locked makes the receiver's table the minimum-steps merge of
    its neighbours' tables at that moment (neighbours at one step, no entry for itself, otherwise 1 + the least of the neighbours' steps in the direction
    of a neighbour attaining it), locks the receiver, and refreshes recursively exactly the nodes it reaches: nodes locked before are not touched, nodes not
    locked afterwards are not touched, every node reached has all its neighbours reached, only nodes connected to the receiver are reached, each reached
    node holds the merge of its neighbours' tables as they were before or after the sweep, and all recorded steps stay >= 1"""
    if not c.symbolic:
        return
    run = c.run
    me = c.integer("self")
    st = St(me.e)
    T0, AU0 = st.heap, z3.Const("AU0", AB)
    st.au = AU0
    COMP = z3.Function("connected", I, B)
    for lab, f in update_pre(me.e, T0, AU0, st.adj, COMP):
        run.add_fact("pre", f"pre.{lab}", f)
    st.declare_neighbour_enumeration(run)
    st.declare_items_enumeration(run)
    st.stub = make_stub(st, COMP)
    adj, K, IDX, IX, M, NB = st.adj, st.K, st.IDX, st.IX, st.M, st.NB
    m_e = me.e

    def progress(i_done, m, i_direct):
        """the receiver's table holds the merge of what has been read so far"""
        C = st.heap
        g, v, u = _ints("ig", "iv", "iu")

        def processed(v, g):
            return z3.And(adj(m_e, v), T0.has(v, g), z3.Or(IDX(v) < i_done, z3.And(IDX(v) == i_done, IX(v, g) < m)))

        def direct(g):
            return z3.And(adj(m_e, g), IDX(g) < i_direct)
        d = C.dir(m_e, g)
        return [
            ("lock_set_untouched", sym.SBool(st.au == AU0)),
            ("others_untouched", sym.SBool(z3.ForAll([u], z3.Implies(u != m_e, C.same(T0, u))))),
            ("neighbours_read_are_at_one_step", sym.SBool(z3.ForAll([g], z3.Implies(direct(g), z3.And(C.has(m_e, g), C.stp(m_e, g) == 1, C.dir(m_e, g) == g))))),
            ("entries_read_are_merged", sym.SBool(z3.ForAll([v, g], z3.Implies(z3.And(processed(v, g), g != m_e, z3.Not(adj(m_e, g))),
                                                                               z3.And(C.has(m_e, g), C.stp(m_e, g) <= T0.stp(v, g) + 1))))),
            ("entries_come_from_what_was_read", sym.SBool(z3.ForAll([g], z3.Implies(C.has(m_e, g), z3.And(
                g != m_e,
                z3.Implies(adj(m_e, g), direct(g)),
                z3.Implies(z3.Not(adj(m_e, g)), z3.And(processed(d, g), C.stp(m_e, g) == T0.stp(d, g) + 1))))))),
        ]

    def havoc_table():
        k = next(run.counter)
        st.freeze_links()
        st.au = z3.Const(f"AUm!{k}", AB)     # the lock set is havocked as well; the invariant says it is still the one at entry
        st.heap = T0.with_table(m_e, z3.Const(f"h!{k}", AB), z3.Const(f"s!{k}", AI), z3.Const(f"d!{k}", AI))

    def inv0(env):
        i = sym.lift(env["__pv_i0"])[0]
        return [("index", sym.SBool(z3.And(0 <= i, i <= K)))] + progress(i, z3.IntVal(0), i)

    def havoc0(env, names):
        havoc_table()
        return {"__pv_i0": sym.SInt(run.fresh("i", "int")), "node": SymNode(st, run.fresh("h_node", "int"))}

    def inv1(env):
        i, m = sym.lift(env["__pv_i0"])[0], sym.lift(env["__pv_i1"])[0]
        node = env["node"].id
        return [("index", sym.SBool(z3.And(1 <= i, i <= K, 0 <= m, m <= M(node), node == NB(i - 1))))] + progress(i - 1, m, i)

    def havoc1(env, names):
        havoc_table()
        return {"__pv_i1": sym.SInt(run.fresh("m", "int"))}

    # state between the merge and the recursive refresh of the neighbours
    mid = {}

    def inv2(env):
        if "T1" not in mid:   # first evaluation = loop entry
            mid["T1"], mid["AU1"] = st.heap, st.au
        i = sym.lift(env["__pv_i2"])[0]
        P, AU = st.heap, st.au
        u, w = _ints("lu", "lw")
        new = z3.And(z3.Select(AU, u), z3.Not(z3.Select(AU0, u)))
        out = [
            ("index", sym.SBool(z3.And(0 <= i, i <= K))),
            ("locks_only_grow", sym.SBool(z3.And(z3.ForAll([u], z3.Implies(z3.Select(AU0, u), z3.Select(AU, u))), z3.Select(AU, m_e)))),
            ("locked_nodes_untouched", sym.SBool(z3.ForAll([u], z3.Implies(z3.Select(AU0, u), P.same(T0, u))))),
            ("unreached_nodes_untouched", sym.SBool(z3.ForAll([u], z3.Implies(z3.Not(z3.Select(AU, u)), P.same(T0, u))))),
            ("reached_nodes_bring_their_neighbours", sym.SBool(z3.ForAll([u, w], z3.Implies(z3.And(new, u != m_e, adj(u, w)), z3.Select(AU, w))))),
            ("neighbours_visited_are_locked", sym.SBool(z3.ForAll([w], z3.Implies(z3.And(adj(m_e, w), IDX(w) < i), z3.Select(AU, w))))),
            ("reached_nodes_are_connected", sym.SBool(z3.ForAll([u], z3.Implies(new, COMP(u))))),
            ("steps_positive", sym.SBool(POS(P))),
        ]
        out += [(f"reached_nodes_hold_the_merge.{lab}", sym.SBool(z3.ForAll([u], z3.Implies(new, f)))) for lab, f in merged_clauses(u, T0, P, adj)]
        return out

    def havoc2(env, names):
        st.freeze_links()
        st.heap, st.au = Heap.fresh("P"), z3.Const(f"AU!{next(run.counter)}", AB)
        return {"__pv_i2": sym.SInt(run.fresh("i2", "int")), "node": SymNode(st, run.fresh("h_node2", "int"))}

    loops = {
        f"{NODE}._update#0": LoopSpec(inv0, variant=lambda env: sym.SInt(K) - env["__pv_i0"], havoc=havoc0),
        f"{NODE}._update#1": LoopSpec(inv1, variant=lambda env: sym.SInt(M(env["node"].id)) - env["__pv_i1"], havoc=havoc1),
        f"{NODE}._update#2": LoopSpec(inv2, variant=lambda env: sym.SInt(K) - env["__pv_i2"], havoc=havoc2),
    }
    w = c.world(loops=loops, comps=True)
    fn = w.fn(f"{NODE}._update")
    res = fn(SymNode(st, m_e), AUSet(st))
    c.ensure("returns_nothing", res is None)
    for lab, f in update_post(m_e, T0, AU0, st.heap, st.au, adj, COMP):
        c.ensure(lab, sym.SBool(f), budget_ms=BUDGET)


# ------------------------------------------------------------------------------------------------------------------------------------

def GI_clauses(H, adj):
    u = z3.Int("fu")
    return [("steps_positive", POS(H))] + [(f"every_table_is_the_merge_of_its_neighbours.{lab}", z3.ForAll([u], f)) for lab, f in merged_clauses(u, H, H, adj)]


@contract("C20", "add", funcs=[f"{NODE}.__add__"], assumptions=[
    DICT_SEMANTICS, NAMES, RECURSION, "callee contract: Node._update (C20.update)",
    "the connected part of the receiver after the link is the least set of nodes containing it and closed under links (definition; used once: a closed set containing the receiver contains it)"])
def _(c):
    """proved, any graph: `a + b` (a, b distinct) records each node among the other's neighbours and refreshes the tables until two successive sweeps agree;
    when it returns, the representation invariant GI (all steps >= 1 and every table the minimum-steps merge of its neighbours' tables) holds for the graph with
    the new link, whatever the tables of the connected part were before, provided it held before for the other nodes; tables outside the connected part are not
    touched; the result is b"""
    if not c.symbolic:
        return
    run = c.run
    me, other = c.integer("self"), c.integer("other")
    c.require(me != other, "distinct")
    st = St(me.e)
    H0 = st.heap
    for lab, f in graph_axioms(st.adj) + GI_clauses(H0, st.adj):
        run.add_fact("pre", f"pre.{lab}", f)
    a, b = me.e, other.e

    def adj1(u, v):
        return z3.Or(st.adj0(u, v), z3.And(u == a, v == b), z3.And(u == b, v == a))
    COMP = z3.Function("connected", I, B)
    u, w_ = _ints("cu", "cw")
    run.add_fact("pre", "def.connected_part", z3.And(COMP(a), z3.ForAll([u, w_], z3.Implies(z3.And(COMP(u), adj1(u, w_)), COMP(w_)))))
    st.stub = make_stub(st, COMP)

    def inv(env):
        H = st.heap
        prev = env["previous"]
        ok_prev = prev is None or (isinstance(prev, SymMap) and prev.is_steps_snapshot_of(H))
        return [("steps_positive", sym.SBool(POS(H))),
                ("outside_the_connected_part_untouched", sym.SBool(z3.ForAll([u], z3.Implies(z3.Not(COMP(u)), H.same(H0, u))))),
                ("previous_snapshot_is_of_the_current_tables", ok_prev)]

    def havoc(env, names):
        st.heap, st.au = Heap.fresh("L"), z3.Const(f"AUloop!{next(run.counter)}", AB)   # everything the body writes: the tables and the lock set
        st.freeze_links()
        if bool(sym.SBool(run.fresh("first_pass", "bool"))):
            prev = None
        else:
            n, g = run.fresh("g_node", "int"), run.fresh("g_name", "int")
            au = z3.Const(f"AUprev!{next(run.counter)}", AB)
            prev = SymMap(n, g, z3.And(z3.Select(au, n), st.heap.has(n, g)), st.heap.stp(n, g), st.heap, au)
        return {"previous": prev}

    def new_set():
        st.au = z3.K(I, z3.BoolVal(False))
        return AUSet(st)

    loops = {f"{NODE}.__add__#0": LoopSpec(inv, havoc=havoc)}
    w = c.world(loops=loops, comps=True, names={ND: {"set": new_set}})
    fn = w.fn(f"{NODE}.__add__")
    other_node = SymNode(st, b)
    res = fn(SymNode(st, a), other_node)
    H1, AU1 = st.heap, st.au
    c.ensure("returns_the_other_node", res is other_node)
    c.ensure("links_recorded_both_ways", sym.SBool(z3.ForAll([u, w_], st.adj(u, w_) == adj1(u, w_))))
    closed = z3.And(z3.Select(AU1, a), z3.ForAll([u, w_], z3.Implies(z3.And(z3.Select(AU1, u), adj1(u, w_)), z3.Select(AU1, w_))))
    c.lemma("last_sweep_reached_a_closed_set", sym.SBool(closed), budget_ms=BUDGET)
    c.axiom("connected_part_is_least", z3.Implies(closed, z3.ForAll([u], z3.Implies(COMP(u), z3.Select(AU1, u)))),
            "the connected part of a node is contained in every set of nodes that contains it and is closed under links")
    c.lemma("both_ends_reached", sym.SBool(z3.And(z3.Select(AU1, a), z3.Select(AU1, b))), budget_ms=BUDGET)
    c.lemma("unreached_tables_untouched", sym.SBool(z3.ForAll([u], z3.Implies(z3.Not(z3.Select(AU1, u)), H1.same(H0, u)))), budget_ms=BUDGET)
    for lab, f in merged_clauses(u, H1, H1, adj1):
        c.lemma(f"reached_tables_are_merges.{lab}", sym.SBool(z3.ForAll([u], z3.Implies(z3.Select(AU1, u), f))), budget_ms=BUDGET)
    for lab, f in GI_clauses(H1, adj1):
        c.ensure(f"invariant_restored.{lab}", sym.SBool(f), budget_ms=BUDGET)


@contract("C20", "init", funcs=[f"{NODE}.__init__"], assumptions=[DICT_SEMANTICS, NAMES])
def _(c):
    """proved: Node(name) has no neighbours and an empty table; the representation invariant GI, if it held for the other nodes (none of which is linked to the
    new one), holds with the new node"""
    if not c.symbolic:
        return
    run = c.run
    me = c.integer("self")
    st = St(me.e)
    H0 = st.heap
    u = z3.Int("nu")
    for lab, f in graph_axioms(st.adj) + GI_clauses(H0, st.adj):
        run.add_fact("pre", f"pre.{lab}", f)
    run.add_fact("pre", "new_node_unknown_to_the_others", z3.ForAll([u], z3.Not(st.adj0(u, me.e))))
    w = c.world(comps=True)
    fn = w.fn(f"{NODE}.__init__")
    fn(SymNode(st, me.e), me)
    H1 = st.heap
    g = z3.Int("ng")
    c.ensure("no_neighbours", sym.SBool(z3.ForAll([u], z3.Not(st.adj(me.e, u)))))
    c.ensure("empty_table", sym.SBool(z3.ForAll([g], z3.Not(H1.has(me.e, g)))))
    c.ensure("others_untouched", sym.SBool(z3.ForAll([u], z3.Implies(u != me.e, H1.same(H0, u)))))
    for lab, f in graph_axioms(st.adj) + GI_clauses(H1, st.adj):
        c.ensure(f"invariant_holds.{lab}", sym.SBool(f), budget_ms=BUDGET)


@contract("C20", "fixpoint", funcs=[], assumptions=["induction over the natural numbers (the two induction steps and their bases are proved; the principle is trusted)"])
def _(c):
    """proved lemmas over the contracts: the representation invariant GI implies the routing-table invariant RT that C20.path takes as precondition; and, with
    W(u, g, d) = 'there is a walk of d links from u to g', the bases and induction steps of: (upper) every walk of d links to another node g gives an entry with at
    most d steps, (lower) every entry with s steps comes with a walk of s links -- so the recorded steps are the graph distance, exactly the connected names are
    known, and the chain path() follows (one link per step, C20.path) is a shortest one"""
    if not c.symbolic:
        return
    run = c.run
    H = Heap(z3.Const("H", HB), z3.Const("S", HI), z3.Const("D", HI))
    adj = z3.Function("adj", I, I, B)
    for lab, f in graph_axioms(adj) + GI_clauses(H, adj):
        run.add_fact("pre", f"pre.{lab}", f)
    u, g, v, d = _ints("xu", "xg", "xv", "xd")
    case = c.choice("lemma", ["rt", "upper", "lower"])
    if case == "rt":
        run.add_fact("pre", "tables_as_functions", z3.ForAll([u, g], z3.And(HAS(u, g) == H.has(u, g), STP(u, g) == H.stp(u, g), DIR(u, g) == H.dir(u, g),
                                                                            ADJ_RT(u, g) == adj(u, g))))
        c.ensure("GI_implies_RT", sym.SBool(RT()), budget_ms=BUDGET)
        return
    W = z3.Function("walk", I, I, I, B)
    run.add_fact("pre", "def.walk", z3.And(
        z3.ForAll([u, g], W(u, g, 1) == adj(u, g)),
        z3.ForAll([u, g, d], z3.Implies(d >= 1, W(u, g, d + 1) == z3.Exists([v], z3.And(adj(u, v), W(v, g, d)))))))
    n = c.integer("d", lo=1)
    if case == "upper":
        c.ensure("base", sym.SBool(z3.ForAll([u, g], z3.Implies(z3.And(u != g, W(u, g, 1)), z3.And(H.has(u, g), H.stp(u, g) <= 1)))), budget_ms=BUDGET)
        run.add_fact("pre", "induction_hypothesis", z3.ForAll([u, g], z3.Implies(z3.And(u != g, W(u, g, n.e)), z3.And(H.has(u, g), H.stp(u, g) <= n.e))))
        c.ensure("step", sym.SBool(z3.ForAll([u, g], z3.Implies(z3.And(u != g, W(u, g, n.e + 1)), z3.And(H.has(u, g), H.stp(u, g) <= n.e + 1)))), budget_ms=BUDGET)
    else:
        c.ensure("base", sym.SBool(z3.ForAll([u, g], z3.Implies(z3.And(H.has(u, g), H.stp(u, g) == 1), W(u, g, 1)))), budget_ms=BUDGET)
        run.add_fact("pre", "induction_hypothesis", z3.ForAll([u, g], z3.Implies(z3.And(H.has(u, g), H.stp(u, g) == n.e), W(u, g, n.e))))
        c.ensure("step", sym.SBool(z3.ForAll([u, g], z3.Implies(z3.And(H.has(u, g), H.stp(u, g) == n.e + 1), W(u, g, n.e + 1)))), budget_ms=BUDGET)
