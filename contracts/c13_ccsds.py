"""C13: CCSDS OPM / OEM / OMM / TDM round trips in KVN and XML (beyond/io/ccsds).

The text layer (str.format / lxml / line parsing) is outside the reach of the VC generator (DESIGN §5.13): the round trips are bounded stand-ins on the real
dumps()/loads().  What is within reach is proved or decided exhaustively: the unit conversions on both sides of the text are inverse of each other, the TDM angle
conventions are, the covariance element table of load_cov is the symmetric completion of the names dump_cov writes, the local-frame aliases map back."""
import itertools
import math
import re
import types

import numpy as np

from pyvc.contract import contract

CC = "beyond.io.ccsds"
FRAMES = ["EME2000", "ITRF", "TEME", "GCRF", "TOD", "MOD", "PEF", "CIRF", "TIRF", "G50"]
SCALES = ["UTC", "TAI", "TT", "UT1", "TDB", "GPS"]
TLE_TEXT = """ISS (ZARYA)
1 25544U 98067A   18124.55610684  .00001524  00000-0  30197-4 0  9997
2 25544  51.6421 236.2139 0003381  47.8509  47.6767 15.54198229111731"""


# ---------------------------------------------------------------------------------------------------------------------
# object builders and comparison

def _date(k, scale):
    from beyond.dates import Date
    # microsecond-resolved epochs, some next to a day boundary / a leap second day
    base = [(2020, 1, 2, 3, 4, 5, 678901), (2016, 12, 31, 23, 59, 59, 999999), (2008, 9, 20, 0, 0, 0, 1), (2031, 6, 30, 12, 0, 0, 0), (1999, 12, 31, 23, 59, 30, 500000)]
    return Date(*base[k % len(base)], scale=scale)


def _coords(k):
    rng = np.random.default_rng(1000 + k)
    r = 7.0e6 * (1 + 0.3 * rng.random())
    u = rng.normal(size=3)
    u /= np.linalg.norm(u)
    w = np.cross(u, rng.normal(size=3))
    w /= np.linalg.norm(w)
    v = math.sqrt(3.986004418e14 / r) * (0.95 + 0.1 * rng.random())
    return list(r * u) + list(v * w)


def _cov_values(k):
    A = np.random.default_rng(77 + k).normal(size=(6, 6)) * np.array([30.0, 40, 50, 0.03, 0.04, 0.05])[:, None]
    M = A @ A.T
    return (M + M.T) / 2


_MOON = []
_JPL = set()
EXTRA_FRAMES = ["Moon", "EarthBarycenter", "MarsBarycenter"]


def _frame(name):
    if name == "Moon":
        if not _MOON:
            from beyond.env import solarsystem
            _MOON.append(solarsystem.get_frame("Moon"))
        return _MOON[0]
    from beyond.frames.frames import get_frame
    if name in ("EarthBarycenter", "MarsBarycenter") and name not in _JPL:
        # frames created from the JPL kernel shipped with the tests
        # (only the kernel files are configured here: the Earth-orientation configuration must stay what it was, dates made before and after
        # this call have to agree on TAI-UTC)
        from beyond.config import config
        from beyond.env import jpl
        config.update({"env": {"jpl": {"files": ["/repo/tests/data/jpl/de403_2000-2020.bsp", "/repo/tests/data/jpl/pck00010.tpc", "/repo/tests/data/jpl/gm_de431.tpc"]}}})
        jpl.create_frames()
        _JPL.add(name)
    return get_frame(name)


def _attach_cov(sv, mode, k):
    """mode 0: none, 1: frame of the state, 2: TNW, 3: QSW, 4: another global frame"""
    from beyond.orbits.cov import Cov
    if mode == 0:
        return
    sv.cov = Cov(sv, _cov_values(k), sv.frame)
    if mode == 2:
        sv.cov.frame = "TNW"
    elif mode == 3:
        sv.cov.frame = "QSW"
    elif mode == 4:
        sv.cov.frame = "TOD" if sv.frame.name != "TOD" else "EME2000"


def _maneuvers(sv, spec, k):
    """spec: tuple of (kind, frame, comment) with kind in impulsive|continuous, frame in None|TNW|QSW"""
    from beyond.orbits.man import ImpulsiveMan, ContinuousMan
    from beyond.dates import timedelta
    out = []
    for j, (kind, fr, com) in enumerate(spec):
        d = sv.date + timedelta(seconds=600.0 * (j + 1) + 0.000123 * (j + 1))
        if (k + j) % 2:
            # the same instant, labelled in another time scale than the state's: the message has one TIME_SYSTEM, so it comes back in the state's scale
            d = d.change_scale("TAI" if sv.date.scale.name != "TAI" else "TT")
        dv = [0.5 + j, -1.25 * (k % 3 + 1), 0.000123 + 0.001 * j]
        # (a comment is free text: it may contain the keyword itself, an equal sign)
        comment = (f"burn {j}", f"burn {j}: see COMMENT above, dv = nominal")[(k + j) % 2] if com else None
        if kind == "impulsive":
            out.append(ImpulsiveMan(d, dv, frame=fr, comment=comment))
        else:
            # the burn described by its start, its middle or its end: the message carries the ignition epoch whichever was given
            out.append(ContinuousMan(d, timedelta(seconds=120.5 + j), dv=dv, frame=fr, comment=comment, date_pos=("start", "median", "stop")[(k + j) % 3]))
    if out:
        sv.maneuvers = out


def _strip(text):
    """a message without its creation date (the only field that legitimately differs between two dumps)"""
    text = re.sub(r"CREATION_DATE\s*=\s*\S+", "CREATION_DATE = X", text)
    return re.sub(r"<CREATION_DATE>[^<]*</CREATION_DATE>", "<CREATION_DATE>X</CREATION_DATE>", text)


class _Cmp:
    """collects per-aspect verdicts: aspect -> list of descriptions of what differs"""

    def __init__(self):
        self.bad = {}

    def check(self, aspect, ok, what=""):
        self.bad.setdefault(aspect, [])
        if not ok:
            self.bad[aspect].append(what)

    def emit(self, c, prefix):
        import os
        for aspect, bad in sorted(self.bad.items()):
            if bad and os.environ.get("PYVC_DEBUG"):
                print(f"{prefix}.{aspect}: {bad[:3]}")
            c.ensure(f"{prefix}.{aspect}", not bad)


def _same_date(a, b):
    return a.scale.name == b.scale.name and a._d == b._d and abs(a._s - b._s) < 0.6e-6


def _cmp_state(cmp, a, b, name=None, cospar=None):
    """a: what was written, b: what was read"""
    cmp.check("epoch", _same_date(a.date, b.date), f"{a.date!r} {b.date!r}")
    cmp.check("frame_centre", a.frame.name == b.frame.name and a.frame.center.name == b.frame.center.name, f"{a.frame} {b.frame}")
    cmp.check("name_id", getattr(b, "name", None) == (name if name is not None else getattr(a, "name", "N/A"))
              and getattr(b, "cospar_id", None) == (cospar if cospar is not None else getattr(a, "cospar_id", "N/A")), f"{getattr(b, 'name', None)} {getattr(b, 'cospar_id', None)}")
    ca, cb = np.asarray(a.copy(form="cartesian"), dtype=float), np.asarray(b.copy(form="cartesian"), dtype=float)
    cmp.check("coordinates", bool(np.all(np.abs(ca - cb) <= 1.0e-3 * (1 + 1e-9))), f"{ca - cb}")
    _cmp_cov(cmp, a, b)


def _cmp_cov(cmp, a, b):
    ca, cb = a.cov, b.cov
    if ca is None or cb is None:
        cmp.check("covariance", ca is None and cb is None, "covariance lost / invented")
        return
    cmp.check("covariance", str(ca.frame) == str(cb.frame), f"frame {ca.frame} {cb.frame}")
    A, B = np.asarray(ca, dtype=float), np.asarray(cb, dtype=float)
    # the lower triangle is what a message carries (13 digits); a rotated covariance is symmetric only to rounding, so the upper one is compared to that noise
    cmp.check("covariance", bool(np.allclose(np.tril(A), np.tril(B), rtol=2e-12, atol=0)), f"values {np.max(np.abs(np.tril(A - B)))}")
    cmp.check("covariance", bool(np.allclose(A, B, rtol=2e-12, atol=1e-13 * np.max(np.abs(A)))), f"upper triangle {np.max(np.abs(A - B))}")


def _cmp_mans(cmp, a, b):
    from beyond.orbits.man import ContinuousMan
    ma, mb = list(getattr(a, "maneuvers", []) or []), list(getattr(b, "maneuvers", []) or [])
    cmp.check("maneuvers", len(ma) == len(mb), f"count {len(ma)} {len(mb)}")
    for x, y in zip(ma, mb):
        cmp.check("maneuvers", type(x) is type(y), f"kind {type(x).__name__} {type(y).__name__}")
        xs, ys = (x.start, y.start) if isinstance(x, ContinuousMan) and isinstance(y, ContinuousMan) else (x.date, getattr(y, "date", None))
        cmp.check("maneuvers", ys is not None and _same_date(xs.change_scale(a.date.scale.name), ys), f"epoch {xs!r} {ys!r}")
        if isinstance(x, ContinuousMan) and isinstance(y, ContinuousMan):
            cmp.check("maneuvers", abs(x.duration.total_seconds() - y.duration.total_seconds()) <= 0.5e-3, "duration")
        cmp.check("maneuvers", bool(np.all(np.abs(np.asarray(x._dv, dtype=float) - np.asarray(y._dv, dtype=float)) <= 1.0e-3 * (1 + 1e-9))), f"dv {x._dv} {y._dv}")
        cmp.check("maneuvers", x.frame == y.frame, f"frame {x.frame} {y.frame}")
        cmp.check("maneuvers", x.comment == y.comment, f"comment {x.comment!r} {y.comment!r}")


def _cmp_ud(cmp, a, b):
    cmp.check("user_defined", a._data.get("ccsds_user_defined", {}) == b._data.get("ccsds_user_defined", {}), f"{b._data.get('ccsds_user_defined')}")


def _round_trip(c, label, obj, compare, by_config=False, redump_kw=None, **kw):
    """dumps -> loads -> compare, in both encodings (chosen by argument, or by the configured default); the two decoded objects compared with each other; what was read
    is written again"""
    from beyond.io import ccsds
    from beyond.config import config
    back = {}
    for fmt in ("kvn", "xml"):
        cmp = _Cmp()
        try:
            if by_config:
                saved = dict.get(config, "io")
                config["io"] = {"ccsds_default_format": fmt}
                try:
                    text = ccsds.dumps(obj, **kw)
                finally:
                    if saved is None:
                        del config["io"]
                    else:
                        config["io"] = saved
                c.ensure(f"{label}.{fmt}.configured_default_format_used", text.lstrip().startswith("CCSDS_" if fmt == "kvn" else "<?xml"))
            else:
                text = ccsds.dumps(obj, fmt=fmt, **kw)
        except Exception as e:
            c.ensure(f"{label}.{fmt}.dumps_raises:{type(e).__name__}", False)
            continue
        try:
            back[fmt] = ccsds.loads(text)
        except Exception as e:
            c.ensure(f"{label}.{fmt}.loads_raises:{type(e).__name__}", False)
            continue
        compare(cmp, obj, back[fmt])
        cmp.emit(c, f"{label}.{fmt}")
        try:
            again = ccsds.dumps(back[fmt], fmt=fmt, **(redump_kw or {}))
        except Exception as e:
            c.ensure(f"{label}.{fmt}.redump_raises:{type(e).__name__}", False)
            continue
        try:
            # derived fields (osculating elements of the rounded state) may differ in the last digit: the message is compared through what it decodes to
            cmp = _Cmp()
            compare(cmp, back[fmt], ccsds.loads(again))
            cmp.emit(c, f"{label}.{fmt}.second_round_trip")
        except Exception as e:
            c.ensure(f"{label}.{fmt}.reload_raises:{type(e).__name__}", False)
    if len(back) == 2:
        cmp = _Cmp()
        compare(cmp, back["kvn"], back["xml"])
        cmp.emit(c, f"{label}.kvn_vs_xml")


# ---------------------------------------------------------------------------------------------------------------------
# OPM

MAN_SPECS = [(), (("impulsive", None, False),), (("impulsive", "TNW", True),), (("impulsive", "QSW", False),), (("continuous", None, True),), (("continuous", "TNW", False),),
             (("continuous", "QSW", True),), (("impulsive", "TNW", True), ("continuous", "QSW", False), ("impulsive", None, True))]


def _grid_opm(tier, rng):
    """frames (10 Earth-centred + Moon-centred + the JPL kernel's Earth-Moon and Mars barycentres) x 6 time scales x covariance {none, own frame, TNW, QSW, other frame} x 8 maneuver lists (0..3 maneuvers, both kinds, frames
    None/TNW/QSW, comment or not) x user-defined fields {0, 1, 2} x name given by attribute or argument x StateVector or Orbit: a covering sample (quick 150, thorough 1500
    seeded cases) plus each single factor on its own"""
    n = 150 if tier == "quick" else 1500
    seen = set()
    singles = [dict(frame=i) for i in range(13)] + [dict(scale=i) for i in range(6)] + [dict(cov=i) for i in range(5)] + [dict(man=i) for i in range(8)] \
        + [dict(ud=i) for i in range(3)] + [dict(named=i) for i in range(2)] + [dict(orbit=1)] + [dict(epoch=i) for i in range(5)]
    for s in singles:
        yield {"frame": 0, "scale": 0, "cov": 0, "man": 0, "ud": 0, "named": 0, "orbit": 0, "epoch": 0, "k": 0, **s}
    for k in range(n):
        yield {"frame": rng.randrange(13), "scale": rng.randrange(6), "cov": rng.randrange(5), "man": rng.randrange(8), "ud": rng.randrange(3), "named": rng.randrange(2),
               "orbit": rng.randrange(2), "epoch": rng.randrange(5), "k": k}


def _build_opm(c):
    from beyond.orbits import StateVector, Orbit
    from beyond.propagators.kepler import Kepler
    fr = (FRAMES + EXTRA_FRAMES)[c.integer("frame")]
    k = c.integer("k")
    x = _coords(k)
    if fr in EXTRA_FRAMES:
        x = [v * (0.3 if i < 3 else 0.25) for i, v in enumerate(x)]
    date = _date(c.integer("epoch"), SCALES[c.integer("scale")])
    sv = Orbit(x, date, "cartesian", _frame(fr), Kepler()) if c.integer("orbit") else StateVector(x, date, "cartesian", _frame(fr))
    kw = {}
    if c.integer("named"):
        # (names with blanks, digits and brackets of their own: only a number may be followed by a [unit])
        sv.name, sv.cospar_id = ["SAT-1", "SAT [X] 1", "IRIDIUM 33 [-]", "OBJECT (B) 2"][c.integer("k") % 4], "2020-001A"
    else:
        kw = {"name": "OTHER", "cospar_id": "1998-067A"}
    cov = c.integer("cov")
    if fr in EXTRA_FRAMES and cov == 4:
        cov = 1
    _attach_cov(sv, cov, k)
    _maneuvers(sv, MAN_SPECS[c.integer("man")], k)
    ud = c.integer("ud")
    if ud:
        sv._data["ccsds_user_defined"] = {"FOO": "bar"} if ud == 1 else {"EARTH_MODEL": "WGS-84", "EARTH_RADIUS": "6378.137", "MASS": "1250.5", "A_B_C": "x y", "NOTE": "mass [kg] unknown"}
    return sv, kw


@contract("C13", "opm", funcs=[f"{CC}.opm:_dumps_kvn", f"{CC}.opm:_dumps_xml", f"{CC}.opm:_loads_kvn", f"{CC}.opm:_loads_xml", f"{CC}.commons:kvn2dict", f"{CC}.commons:xml2dict",
                               f"{CC}.cov:load_cov", f"{CC}.cov:dump_cov", f"{CC}.commons:detect2load", f"{CC}.commons:detect2dump"], grid=_grid_opm, level="bounded")
def _(c):
    """bounded: an OPM written from a state vector and read back (KVN and XML) has the same epoch to the microsecond in the same scale, frame and centre, name and
    identifier, coordinates within 1 mm / 1 mm/s, covariance (values to the 13 written digits, frame incl. TNW/QSW), maneuvers (kind, epoch, duration, delta-v, frame,
    comment) and user-defined fields; KVN and XML decode to the same object; what was read can be written again and gives the same message"""
    sv, kw = _build_opm(c)

    def compare(cmp, a, b):
        _cmp_state(cmp, a, b, name=kw.get("name") if a is sv else None, cospar=kw.get("cospar_id") if a is sv else None)
        _cmp_mans(cmp, a, b)
        _cmp_ud(cmp, a, b)
    _round_trip(c, "opm", sv, compare, by_config=c.integer("k") % 3 == 2, **kw)


# ---------------------------------------------------------------------------------------------------------------------
# OMM

def _grid_omm(tier, rng):
    """the ISS TLE with perturbed mean elements (quick 40, thorough 400 seeded cases) x covariance {none, TEME, TNW, QSW} x user-defined fields {0, 1, 2}"""
    n = 40 if tier == "quick" else 400
    for k in range(n):
        yield {"k": k, "cov": k % 4 if k < 8 else rng.randrange(4), "ud": (k // 4) % 3 if k < 12 else rng.randrange(3)}


@contract("C13", "omm", funcs=[f"{CC}.omm:_dumps_kvn", f"{CC}.omm:_dumps_xml", f"{CC}.omm:_loads_kvn", f"{CC}.omm:_loads_xml", f"{CC}.commons:code_unit", f"{CC}.commons:decode_unit"],
          grid=_grid_omm, level="bounded")
def _(c):
    """bounded: an OMM written from a TLE orbit and read back (KVN and XML) has the same epoch, frame TEME, name, identifiers (NORAD, COSPAR, element set, revolutions),
    mean elements to the written precision (1e-4 deg, 1e-7 in e, 1e-8 rev/day), drag terms, covariance and user-defined fields; KVN and XML agree; what was read can be
    written again"""
    from beyond.io.tle import Tle
    k = c.integer("k")
    rng = np.random.default_rng(500 + k)
    classified = k % 3 == 1
    orb = Tle(TLE_TEXT.replace("25544U", "25544C") if classified else TLE_TEXT).orbit()
    orb[0] = math.radians(5 + 170 * rng.random())
    orb[1] = 2 * math.pi * rng.random()
    orb[2] = 0.0001 + 0.7 * rng.random() ** 3
    orb[3] = 2 * math.pi * rng.random()
    orb[4] = 2 * math.pi * rng.random()
    orb[5] = (1 + 15 * rng.random()) * 2 * math.pi / 86400.0
    # the epoch handed over under each of the six scale labels in turn (the same instant): the message must announce the scale its EPOCH is written in
    lab = ["UTC", "TAI", "TT", "GPS", "UT1", "TDB"][k % 6]
    if lab != "UTC":
        orb.date = orb.date.change_scale(lab)
    cov = c.integer("cov")
    _attach_cov(orb, {0: 0, 1: 1, 2: 2, 3: 3}[cov], k)
    ud = c.integer("ud")
    if ud:
        orb._data["ccsds_user_defined"] = {"FOO": "bar"} if ud == 1 else {"EARTH_MODEL": "WGS-84", "EARTH_RADIUS": "6378.137", "MASS": "1250.5", "A_B_C": "x y", "NOTE": "mass [kg] unknown"}

    def compare(cmp, a, b):
        cmp.check("epoch", _same_date(a.date, b.date), f"{a.date!r} {b.date!r}")
        cmp.check("frame_centre", a.frame.name == b.frame.name == "TEME", f"{b.frame}")
        cmp.check("form", b.form.name == "tle", f"{b.form}")
        cmp.check("name_id", (getattr(a, "name", None), a.cospar_id, a.norad_id, a.element_nb, a.revolutions) == (getattr(b, "name", None), b.cospar_id, b.norad_id, b.element_nb, b.revolutions),
                  f"{(getattr(b, 'name', None), b.cospar_id, b.norad_id, b.element_nb, b.revolutions)}")
        A, B = np.asarray(a, dtype=float), np.asarray(b, dtype=float)
        d = np.abs(A - B)
        for i in (0, 1, 3, 4):
            d[i] = min(d[i], 2 * math.pi - d[i])
        tol = np.array([math.radians(0.5e-4)] * 2 + [0.5e-7] + [math.radians(0.5e-4)] * 2 + [0.5e-8 * 2 * math.pi / 86400.0]) * (1 + 1e-6)
        cmp.check("mean_elements", bool(np.all(d <= tol)), f"{d / tol}")
        cmp.check("drag_terms", abs(a.bstar - b.bstar) <= 0.5e-9 * (1 + 1e-6) and abs(a.ndot - b.ndot) <= 1e-8 * (1 + 1e-6) and abs(a.ndotdot - b.ndotdot) <= 0.3 + 1e-9, f"{b.bstar} {b.ndot} {b.ndotdot}")
        cmp.check("propagator", type(b.propagator).__name__ == "Sgp4", f"{b.propagator}")
        kind = lambda o: (str(o._data.get("classification_type", o._data["tle"].classification if "tle" in o._data else None)), int(o._data.get("ephemeris_type", o._data.get("type", -1))))
        cmp.check("classification_and_ephemeris_type", kind(a) == kind(b) == ("C" if classified else "U", 0), f"{kind(a)} {kind(b)}")
        _cmp_cov(cmp, a, b)
        _cmp_ud(cmp, a, b)
    _round_trip(c, "omm", orb, compare)


# ---------------------------------------------------------------------------------------------------------------------
# OEM

def _grid_oem(tier, rng):
    """1..3 ephemerides of 1..12 points (1, 2, 3, 9, 12 explicitly) x 0..N covariances {none, first point only, every other point, all} in {own frame, TNW, QSW, a different one from point to point} x frames x
    scales x interpolation {lagrange order 2..8, linear}: each factor on its own plus a seeded sample (quick 60, thorough 600)"""
    n = 60 if tier == "quick" else 600
    base = {"segments": 1, "points": 9, "covs": 0, "covframe": 1, "frame": 0, "scale": 0, "method": 0, "order": 8, "k": 0}
    singles = [dict(segments=i) for i in (1, 2, 3)] + [dict(points=i) for i in (1, 2, 3, 9, 12)] + [dict(covs=i, covframe=j) for i in (1, 2, 3) for j in (1, 2, 3, 4)] \
        + [dict(points=1, covs=1)] + [dict(frame=i) for i in range(13)] + [dict(scale=i) for i in range(6)] + [dict(method=1)] + [dict(order=i) for i in (2, 5, 7)]
    for s in singles:
        yield {**base, **s}
    for k in range(n):
        yield {"segments": rng.randrange(1, 4), "points": rng.choice([1, 2, 3, 5, 9, 12]), "covs": rng.randrange(4), "covframe": rng.randrange(1, 5), "frame": rng.randrange(13),
               "scale": rng.randrange(6), "method": rng.randrange(2), "order": rng.randrange(2, 9), "k": k}


@contract("C13", "oem", funcs=[f"{CC}.oem:_dumps_kvn", f"{CC}.oem:_dumps_xml", f"{CC}.oem:_loads_kvn", f"{CC}.oem:_loads_xml", f"{CC}.cov:load_cov"], grid=_grid_oem, level="bounded")
def _(c):
    """bounded: an OEM written from an ephemeris or a list of ephemerides and read back (KVN and XML) has the same number of segments and points, epochs, frame, centre,
    name and identifier, coordinates within 1 mm / 1 mm/s, covariances attached to the same points (values, frame) and interpolation method and order; KVN and XML
    agree; what was read can be written again"""
    from beyond.orbits import StateVector, Ephem
    from beyond.dates import timedelta
    k = c.integer("k")
    fr = (FRAMES + EXTRA_FRAMES)[c.integer("frame")]
    scale = SCALES[c.integer("scale")]
    ephems = []
    for s in range(c.integer("segments")):
        pts = []
        n = c.integer("points")
        for i in range(n):
            x = _coords(k * 31 + s * 7 + i)
            if fr in EXTRA_FRAMES:
                x = [v * (0.3 if j < 3 else 0.25) for j, v in enumerate(x)]
            step = 60.0 if k % 4 else 0.25  # some ephemerides with several points within the same second
            sv = StateVector(x, _date(k + s, scale) + timedelta(seconds=step * i + 0.000001 * i), "cartesian", _frame(fr))
            if (k + s) % 3 == 1 and i % 2 and scale not in ("UT1", "TDB"):
                # some ephemerides hold points whose dates carry another label (the same instants): the segment has one TIME_SYSTEM, the first point's
                sv.date = sv.date.change_scale("TAI" if scale != "TAI" else "GPS")
            covs = c.integer("covs")
            if covs == 3 or (covs == 1 and i == 0) or (covs == 2 and i % 2 == 1):
                cf = c.integer("covframe")
                if cf == 4:
                    # covariances in different frames within one ephemeris, one in the state's own frame following one that is not
                    cf = [3, 1, 2, 1, 3, 1][i % 6]
                _attach_cov(sv, cf, k + i)
            pts.append(sv)
        held = "keplerian" if (k + s) % 5 == 2 and fr not in EXTRA_FRAMES and all(np.linalg.norm(np.asarray(p_, dtype=float)[:3]) > 1e5 for p_ in pts) else "cartesian"
        if held != "cartesian":
            # an ephemeris held in another element form: the message carries cartesian coordinates, the object handed over keeps its form
            for p_ in pts:
                p_.form = held
        e = Ephem(pts, method="linear" if c.integer("method") else "lagrange", order=c.integer("order"))
        e.name, e.cospar_id = f"SAT-{s}", f"2020-00{s + 1}A"
        ephems.append(e)
    obj = ephems[0] if len(ephems) == 1 else ephems

    def compare(cmp, a, b):
        la = [a] if isinstance(a, Ephem) else list(a)
        lb = [b] if isinstance(b, Ephem) else list(b)
        cmp.check("segments", len(la) == len(lb), f"{len(la)} {len(lb)}")
        cmp.check("single_ephemeris_is_not_a_list", isinstance(a, Ephem) == isinstance(b, Ephem), f"{type(b).__name__}")
        for ea, eb in zip(la, lb):
            cmp.check("points", len(ea) == len(eb), f"{len(ea)} {len(eb)}")
            cmp.check("interpolation", ea.method == eb.method and (ea.method == "linear" or ea.order == eb.order), f"{eb.method} {eb.order}")
            cmp.check("name_id", (ea.name, ea.cospar_id) == (getattr(eb, "name", None), getattr(eb, "cospar_id", None)), f"{getattr(eb, 'name', None)}")
            for pa, pb in zip(ea, eb):
                sub = _Cmp()
                if pa.form.name != "cartesian":
                    pa = pa.copy(form="cartesian")
                if pa.date.scale.name != ea.start.scale.name:
                    pa = pa.copy()
                    pa.date = pa.date.change_scale(ea.start.scale.name)
                _cmp_state(sub, pa, pb, name=ea.name, cospar=ea.cospar_id)
                for asp, bad in sub.bad.items():
                    if asp != "name_id":
                        cmp.check(asp, not bad, "; ".join(bad))
    forms_before = [[p_.form.name for p_ in e_] for e_ in ephems]
    _round_trip(c, "oem", obj, compare)
    c.ensure("oem.object_written_keeps_its_form", [[p_.form.name for p_ in e_] for e_ in ephems] == forms_before)


# ---------------------------------------------------------------------------------------------------------------------
# TDM

def _grid_tdm(tier, rng):
    """measurement sets of 1..12 range / azimuth / elevation / range-rate (Doppler) measurements on 1..2 paths (one-way and two-way) x 6 time scales (quick 40, thorough 400 seeded cases)"""
    n = 40 if tier == "quick" else 400
    for k in range(n):
        yield {"k": k, "n": [1, 2, 3, 6, 12][k % 5], "paths": 1 + (k // 5) % 2, "scale": k % 6, "types": (k // 3) % 5}


@contract("C13", "tdm", funcs=[f"{CC}.tdm:_dumps_kvn", f"{CC}.tdm:_dumps_xml", f"{CC}.tdm:_loads_kvn", f"{CC}.tdm:_loads_xml", f"{CC}.tdm:collect_metadata", f"{CC}.tdm:encode_measurement"],
          grid=_grid_tdm, level="bounded")
def _(c):
    """bounded: a TDM written from a set of range / azimuth / elevation measurements and read back (KVN and XML) has, path by path, the same measurements in the same
    order: type, path, epoch to the microsecond in the same scale, value to the written precision (1 mm; 0.01 deg, angles modulo a turn); KVN and XML agree; what was read
    can be written again"""
    from beyond.utils.measures import MeasureSet, Range, Azimut, Elevation, Doppler
    from beyond.dates import timedelta
    k = c.integer("k")
    rng = np.random.default_rng(900 + k)
    scale = SCALES[c.integer("scale")]
    paths = [("STA1", "SAT", "STA1"), ("STA2", "SAT")][:c.integer("paths")]
    kinds = [[Range, Azimut, Elevation], [Range], [Azimut, Elevation], [Elevation, Range], [Range, Doppler]][c.integer("types")]
    ms = MeasureSet()
    for i in range(c.integer("n")):
        d = _date(k, scale) + timedelta(seconds=10.0 * i + 0.000007 * i)
        for p in paths:
            for K in kinds:
                v = {Range: 4.0e5 + 2.0e6 * rng.random(), Azimut: (2 * rng.random() - 1) * 2 * math.pi, Elevation: rng.random() * math.pi / 2,
                     Doppler: (2 * rng.random() - 1) * 7.0e3}[K]
                ms.append(K(p, d, v))

    def flat(x):
        if isinstance(x, MeasureSet):
            return list(x)
        return [m for s in x for m in s]

    def compare(cmp, a, b):
        # messages are written path by path
        fa = flat(a)
        fa = [m for p in dict.fromkeys(m.path for m in fa) for m in fa if m.path == p]
        fb = flat(b)
        cmp.check("count", len(fa) == len(fb), f"{len(fa)} {len(fb)}")
        for x, y in zip(fa, fb):
            cmp.check("type_path", type(x) is type(y) and tuple(x.path) == tuple(y.path), f"{type(y).__name__} {y.path}")
            cmp.check("epoch", _same_date(x.date, y.date), f"{x.date!r} {y.date!r}")
            if isinstance(x, Range):
                cmp.check("value", abs(x.value - y.value) <= 0.5e-3 * (1 + 1e-9), f"range {x.value - y.value}")
            elif isinstance(x, Doppler):
                # (written with six decimals)
                cmp.check("value", abs(x.value - y.value) <= 0.5e-6 * (1 + 1e-6), f"range rate {x.value - y.value}")
            else:
                dlt = abs(x.value - y.value) % (2 * math.pi)
                cmp.check("value", min(dlt, 2 * math.pi - dlt) <= math.radians(0.5e-2) * (1 + 1e-6), f"angle {dlt}")
    _round_trip(c, "tdm", ms, compare)


# ---------------------------------------------------------------------------------------------------------------------
# proved / exhaustive parts

def _grid_units(tier, rng):
    """each of the 9 units of the table"""
    for i in range(9):
        yield {"unit": i, "x": rng.uniform(-1e4, 1e4)}


UNITS = ["km", "km/s", "s", "deg", "rev/day", "rev/day**2", "rev/day**3", "1/ER", "km**3/s**2"]


@contract("C13", "units", funcs=[f"{CC}.commons:decode_unit", f"{CC}.commons:code_unit"], grid=_grid_units, level="proof",
          assumptions=["the text between code_unit and decode_unit (str.format / float()) abstracted as the identity: its rounding is the written precision, covered by the bounded round trips"])
def _(c):
    """proved: for every unit of the table and every real x, decode_unit(code_unit(x)) == x -- the factor applied when reading is the inverse of the one applied when writing
    -- and both refuse a unit that is not in the table"""
    w = c.world()
    code, decode = w.fn(f"{CC}.commons:code_unit"), w.fn(f"{CC}.commons:decode_unit")
    from beyond.io.ccsds.commons import CcsdsError
    unit = UNITS[c.integer("unit")] if not hasattr(c, "run") else c.choice("unit", UNITS)
    x = c.real("x")
    written = code({"n": x}, "n", unit)
    read = decode({"n": types.SimpleNamespace(text=written, attrib={"units": unit})}, "n")
    c.ensure("decode_inverts_code", c.eq(read, x))
    read_default = decode({"n": types.SimpleNamespace(text=written, attrib={})}, "n", unit)
    c.ensure("default_unit_used_when_none_written", c.eq(read_default, x))
    # the factor itself (SI value of one unit), against the definitions: km, s, degree, revolution per day of 86400 s
    from beyond.io.ccsds.commons import units_dict
    want = {"km": 1000.0, "km/s": 1000.0, "s": 1.0, "deg": math.pi / 180, "rev/day": 2 * math.pi / 86400.0, "rev/day**2": 1.0, "rev/day**3": 1.0, "1/ER": 1.0, "km**3/s**2": 1.0e9}
    c.ensure("factor_is_the_si_value_of_the_unit", abs(float(units_dict[unit]) / want[unit] - 1) < 1e-15)
    c.ensure("unknown_unit_refused_reading", c.raises(CcsdsError, lambda: decode({"n": types.SimpleNamespace(text=written, attrib={"units": "furlong"})}, "n")))
    c.ensure("unknown_unit_refused_writing", c.raises(CcsdsError, lambda: code({"n": x}, "n", "furlong")))


def _grid_cov_table(tier, rng):
    """the 21 distinct element names, each carrying a distinct value (decides the whole table), with and without COV_REF_FRAME in {RSW, RTN, TNW, QSW, EME2000}"""
    for i in range(6):
        yield {"frame": i}


@contract("C13", "cov_table", funcs=[f"{CC}.cov:load_cov", f"{CC}.cov:dump_cov"], grid=_grid_cov_table, level="finite")
def _(c):
    """finite (exhaustive): load_cov places the 21 written elements C<row>_<col> (row >= col, in the order dump_cov writes them) at [row, col] and [col, row], scaled from
    km^2 to m^2; the frame is the state's when COV_REF_FRAME is absent, RSW and RTN are read as QSW, TNW as TNW; dump_cov writes exactly these 21 names, RSW for QSW, and
    no COV_REF_FRAME when the covariance is in the state's frame"""
    from beyond.io.ccsds.cov import load_cov, dump_cov
    from beyond.io.ccsds.commons import Field, kvn2dict
    from beyond.orbits import StateVector
    from beyond.orbits.cov import Cov
    elems = ["X", "Y", "Z", "X_DOT", "Y_DOT", "Z_DOT"]
    sv = StateVector(_coords(3), _date(0, "UTC"), "cartesian", "EME2000")
    data, want = {}, np.zeros((6, 6))
    v = 1.0
    for i, a in enumerate(elems):
        for j, b in enumerate(elems[:i + 1]):
            data[f"C{a}_{b}"] = Field(repr(v), {})
            want[i, j] = want[j, i] = v * 1e6
            v += 1.0
    fr = [None, "RSW", "RTN", "TNW", "QSW", "EME2000"][c.integer("frame")]
    if fr is not None:
        data["COV_REF_FRAME"] = Field(fr, {})
    cov = load_cov(sv, data)
    c.ensure("elements_placed_symmetrically", bool(np.array_equal(np.asarray(cov, dtype=float), want)))
    c.ensure("frame_read", str(cov.frame) == {None: "EME2000", "RSW": "QSW", "RTN": "QSW", "TNW": "TNW", "QSW": "QSW", "EME2000": "EME2000"}[fr])
    sv.cov = cov
    text = dump_cov(sv.cov, sv.frame)
    back = kvn2dict(text)
    c.ensure("names_written", set(back) - {"COV_REF_FRAME"} == set(data) - {"COV_REF_FRAME"})
    c.ensure("frame_written", ("COV_REF_FRAME" in back) == (fr not in (None, "EME2000")) and (fr in (None, "EME2000") or back["COV_REF_FRAME"].text == {"RSW": "RSW", "RTN": "RSW", "TNW": "TNW", "QSW": "RSW"}[fr]))
    c.ensure("values_written", all(float(back[k].text) == float(data[k].text) for k in data if k != "COV_REF_FRAME"))


def _grid_angles(tier, rng):
    """azimuth / elevation values over (-4 pi, 4 pi)"""
    for k in range(40 if tier == "quick" else 400):
        yield {"kind": k % 3, "v": rng.uniform(-4 * math.pi, 4 * math.pi)}


@contract("C13", "tdm_values", funcs=[f"{CC}.tdm:encode_measurement"], grid=_grid_angles, level="proof",
          assumptions=["the text between encode_measurement and the reader abstracted as the identity (its rounding is covered by the bounded round trips)",
                       "the reader's expressions (value * km; radians(-value); radians(value)) are transcribed in the contract from tdm._loads_kvn/_loads_xml, which mix them with line parsing"])
def _(c):
    """proved: the value encode_measurement writes for a range / azimuth / elevation, pushed through the reader's conversion, is the measurement's value again -- exactly
    for range and elevation, modulo a full turn for azimuth (written as the clockwise angle in [0, 360))"""
    w = c.world()
    enc = w.fn(f"{CC}.tdm:encode_measurement")
    Range, Azimut, Elevation = (w.cls(f"beyond.utils.measures:{n}") for n in ("Range", "Azimut", "Elevation"))
    kind = c.choice("kind", [0, 1, 2]) if hasattr(c, "run") else c.integer("kind")
    v = c.real("v")
    K = [Range, Azimut, Elevation][kind]
    m = w.obj(f"beyond.utils.measures:{['Range', 'Azimut', 'Elevation'][kind]}", path=("A", "B"), date=None, value=v)
    name, value, fmt = enc(m)
    c.ensure("field_name", name == ["RANGE", "ANGLE_1", "ANGLE_2"][kind])
    c.ensure("written_precision", fmt == [".6f", ".2f", ".2f"][kind])
    if kind == 0:
        c.ensure("range_km_then_back", c.eq(value * 1000, v))
    elif kind == 1:
        c.ensure("azimuth_written_in_0_360", (value >= 0) & (value < 360))
        back = w.np.radians(-value)
        turns = (-w.np.degrees(v)) // 360  # an integer: the number of full turns the writer's `% 360` removed
        c.ensure("azimuth_back_is_the_value_plus_whole_turns", c.eq(back, v + 2 * c.pi * turns, atol=1e-9))
    else:
        c.ensure("elevation_degrees_then_back", c.eq(w.np.radians(value), v))


# ---------------------------------------------------------------------------------------------------------------------
# frames about a Lagrange point ("frame and centre": the centre's name is written in words -- SUN EARTH L2 -- and read back in one)

def _grid_lagrange(tier, rng):
    """Lagrange points L1..L5 of the Sun-Earth pair (analytical Sun; axes of EME2000) x message {OPM without the optional osculating elements, OEM of 4 points}"""
    for kind in (1, 2, 3, 4, 5):
        for msg in (0, 1):
            yield {"kind": kind, "msg": msg}


_LAGR = {}


@contract("C13", "lagrange_centre", funcs=[f"{CC}.commons:dump_kvn_meta_odm", f"{CC}.commons:dump_xml_meta_odm", f"{CC}.opm:_loads_kvn", f"{CC}.opm:_loads_xml",
                                           f"{CC}.oem:_loads_kvn", f"{CC}.oem:_loads_xml"], grid=_grid_lagrange, level="bounded")
def _(c):
    """bounded: a state (OPM) or an ephemeris (OEM) given about a Lagrange point of the Sun-Earth pair is read back, from KVN and from XML, in the same frame about the
    same centre with the same epoch(s) and coordinates; the two encodings decode to the same object"""
    from beyond.env import solarsystem as sol
    from beyond.frames.lagrange import lagrange
    from beyond.frames.orient import EME2000
    from beyond.orbits import StateVector, Ephem
    from beyond.dates import timedelta
    kind = c.integer("kind")
    if kind not in _LAGR:
        _LAGR[kind] = lagrange(sol.get_frame("Sun"), sol.get_frame("Earth"), kind, orientation=EME2000)
    fl = _LAGR[kind]
    date = _date(0, "UTC")
    x = [1.0e8 + 1e6 * kind, 2.0e7, -3.0e6, 10.5, -20.25, 30.125]
    if c.integer("msg") == 0:
        sv = StateVector(x, date, "cartesian", fl)
        sv.name, sv.cospar_id = "L-SAT", "2020-001A"

        def compare(cmp, a, b):
            _cmp_state(cmp, a, b)
        # (the optional osculating elements are not defined about a massless point: written without them, both times)
        _round_trip(c, "opm", sv, compare, redump_kw={"kep": False}, kep=False)
    else:
        pts = [StateVector([v + 100.0 * j * (i + 1) for i, v in enumerate(x)], date + timedelta(seconds=60 * j), "cartesian", fl) for j in range(4)]
        eph = Ephem(pts)
        eph.name, eph.cospar_id = "L-SAT", "2020-001A"

        def compare(cmp, a, b):
            cmp.check("points", len(a) == len(b), f"{len(a)} {len(b)}")
            for pa, pb in zip(a, b):
                cmp.check("epoch", _same_date(pa.date, pb.date), f"{pa.date!r} {pb.date!r}")
                cmp.check("frame_centre", pa.frame.name == pb.frame.name and pa.frame.center.name == pb.frame.center.name, f"{pa.frame} {pb.frame}")
                cmp.check("coordinates", bool(np.all(np.abs(np.asarray(pa, dtype=float) - np.asarray(pb, dtype=float)) <= 1.0e-3 * (1 + 1e-9))), "")
        _round_trip(c, "oem", eph, compare)
