"""C19: mission-design helpers (constellation, ltan, leo.sso, beta, interplanetary.bplane, lambert)."""
import itertools
import math
import types

import numpy as np

from pyvc.contract import contract, LoopSpec
from pyvc import sym
from pyvc.adt import SymDate, SymTimedelta, SymStateVector
from contracts.c17_local import cross, dot
from contracts import twobody

CON = "beyond.utils.constellation"
LT = "beyond.utils.ltan"
LEO = "beyond.utils.leo"
BETA = "beyond.utils.beta"
IP = "beyond.utils.interplanetary"
LAM = "beyond.utils.lambert"


# ------------------------------------------------------------------------------------------
# Walker constellations
# ------------------------------------------------------------------------------------------

def _grid_walker(tier, rng):
    """every (planes p, per-plane s) with p in 1..8, s in 1..12, spacing f in 0..p-1 (quick: f in {0,1,p-1}), Star and Delta,
    two plane/satellite index pairs"""
    for kind in (0, 1):
        for p in range(1, 9):
            for s_ in range(1, 13):
                fs = range(p) if tier != "quick" else sorted({0, min(1, p - 1), p - 1})
                for f in fs:
                    yield {"kind": kind, "p": p, "s": s_, "f": f, "raan0": 0.3, "ip": p // 2, "js": s_ // 3}


def _walker(c, kind, total, planes, spacing, raan0):
    name = "WalkerStar" if kind == "star" else "WalkerDelta"
    if c.symbolic:
        w = c.world()
        return w.new(f"{CON}:{name}", total, planes, spacing, raan0)
    import beyond.utils.constellation as m
    return getattr(m, name)(total, planes, spacing, raan0)


@contract("C19", "walker.spacing", funcs=[f"{CON}:WalkerStar.per_plane", f"{CON}:WalkerStar.raan", f"{CON}:WalkerStar.nu",
                                          f"{CON}:WalkerDelta.raan", f"{CON}:WalkerDelta.nu", f"{CON}:WalkerStar.__init__"],
          grid=_grid_walker, rtol=1e-12, atol=1e-12)
def _(c):
    """planes evenly spaced (pi/p Star, 2pi/p Delta), satellites evenly spaced in a plane (2pi/(t/p)), phasing
    between adjacent planes f*2pi/t -- for every t/p/f with p | t and every plane / satellite index"""
    kind = c.choice("kind", ["star", "delta"])
    p, s_ = c.integer("p", lo=1), c.integer("s", lo=1)
    f = c.integer("f", lo=0)
    raan0 = c.real("raan0")
    ip, js = c.integer("ip"), c.integer("js")
    t = p * s_
    wk = _walker(c, kind, t, p, f, raan0)
    c.ensure("per_plane", c.eq(wk.per_plane, s_) if c.symbolic else wk.per_plane == s_)
    span = c.pi if kind == "star" else 2 * c.pi
    c.ensure("plane_spacing", c.eq((wk.raan(ip + 1) - wk.raan(ip)) * p, span))
    c.ensure("first_plane", c.eq(wk.raan(0), raan0))
    c.ensure("inplane_spacing", c.eq((wk.nu(ip, js + 1) - wk.nu(ip, js)) * s_, 2 * c.pi))
    c.ensure("phasing", c.eq((wk.nu(ip + 1, js) - wk.nu(ip, js)) * t, f * 2 * c.pi))
    c.ensure("first_sat", c.eq(wk.nu(0, 0), 0))


@contract("C19", "walker.fleet", funcs=[f"{CON}:WalkerStar.iter_fleet", f"{CON}:WalkerStar.iter_raan", f"{CON}:WalkerStar.iter_nu"],
          grid=_grid_walker, level="finite", rtol=1e-12, atol=1e-12)
def _(c):
    """iter_fleet yields exactly t = p*(t/p) pairs: (raan(i), nu(i, j)) for i < p, j < t/p, in that order
    (finite: every p <= 8, s <= 12)"""
    kind = c.choice("kind", ["star", "delta"])
    p, s_, f, raan0 = c.integer("p"), c.integer("s"), c.integer("f"), c.real("raan0")
    wk = _walker(c, kind, p * s_, p, f, raan0)
    fleet = list(wk.iter_fleet())
    c.ensure("count", len(fleet) == p * s_)
    want = [(wk.raan(i), wk.nu(i, j)) for i in range(p) for j in range(s_)]
    c.ensure("members", all(c.eq(a[0], b[0]) and c.eq(a[1], b[1]) for a, b in zip(fleet, want)))
    c.ensure("planes", len(list(wk.iter_raan())) == p)


def _grid_walker_counts(tier, rng):
    """satellites per plane 1..400 x planes in {1, 2, 6} (Star and Delta alternately): only the counts and the first / last anomaly of a plane"""
    for s_ in range(1, 401):
        for p in (1, 2, 6):
            yield {"kind": (s_ + p) % 2, "p": p, "s": s_}


@contract("C19", "walker.counts", funcs=[f"{CON}:WalkerStar.iter_fleet", f"{CON}:WalkerStar.iter_nu"], grid=_grid_walker_counts, level="finite", rtol=1e-12, atol=1e-12)
def _(c):
    """finite: a constellation of t = p*s satellites yields exactly t pairs and s anomalies per plane, the last one being nu(plane, s-1) -- every s up to 400"""
    kind = c.choice("kind", ["star", "delta"])
    p, s_ = c.integer("p"), c.integer("s")
    wk = _walker(c, kind, p * s_, p, 1 % p, 0.3)
    c.ensure("count", sum(1 for _ in wk.iter_fleet()) == p * s_)
    nus = list(wk.iter_nu(p - 1))
    c.ensure("per_plane", len(nus) == s_ and c.eq(nus[-1], wk.nu(p - 1, s_ - 1)) and c.eq(nus[0], wk.nu(p - 1, 0)))


# ------------------------------------------------------------------------------------------
# LTAN <-> RAAN
# ------------------------------------------------------------------------------------------

def _grid_ltan(tier, rng):
    """50 dates 2000-2016 x raan in 12 values of [0, 2pi) / ltan in 12 values of [0, 86400), mean and true"""
    for k in range(50 if tier != "quick" else 10):
        for j in range(12):
            yield {"day": 51544 + k * 117.37, "raan": (j + 0.31) * math.pi / 6, "ltan": (j + 0.77) * 7200.0, "type": k % 2}


@contract("C19", "ltan.inverse", funcs=[f"{LT}:raan2ltan", f"{LT}:ltan2raan"], grid=_grid_ltan, rtol=1e-9, atol=1e-6,
          assumptions=["callee contract: _mean_sun_raan/_true_sun_raan are pure functions of the date (same value in both calls)"])
def _(c):
    """ltan2raan(d, raan2ltan(d, raan)) = raan for raan in [0, 2pi), and conversely for ltan in [0, 86400)"""
    typ = c.choice("type", ["mean", "true"])
    raan = c.real("raan", lo=0, lo_strict=False)
    ltan = c.real("ltan", lo=0, hi=86400, lo_strict=False)
    if c.symbolic:
        c.require(raan < 2 * c.pi)
        S = c.real("sun_raan")
        w = c.world(stubs={f"{LT}:_mean_sun_raan": lambda d: S, f"{LT}:_true_sun_raan": lambda d: S})
        r2l, l2r = w.fn(f"{LT}:raan2ltan"), w.fn(f"{LT}:ltan2raan")
        date = SymDate(0)
        l1 = r2l(date, raan, typ)
        back = l2r(date, l1, typ)
        c.ensure("ltan.range", sym.And(l1 >= 0, l1 < 86400))
        # both results lie in one revolution; they differ from the inputs by whole revolutions
        # (the revolution counts are those of the code's own `%`; code that wraps another way goes without the lemma)
        mi = getattr(c.run, "modinfo", {})
        q1, q2 = mi.get(str(l1.e)), mi.get(str(back.e))
        if q1 and q2:
            c.lemma("raan.revolutions", sym.SInt(q1[2]) + sym.SInt(q2[2]) == 0, budget_ms=60000)
        c.ensure("raan.roundtrip", back == raan)
        r1 = l2r(date, ltan, typ)
        back2 = r2l(date, r1, typ)
        c.ensure("raan.range", sym.And(r1 >= 0, r1 < 2 * c.pi))
        q3, q4 = mi.get(str(r1.e)), mi.get(str(back2.e))
        if q3 and q4:
            c.lemma("ltan.revolutions", sym.SInt(q3[2]) + sym.SInt(q4[2]) == 0, budget_ms=60000)
        c.ensure("ltan.roundtrip", back2 == ltan)
    else:
        import beyond.utils.ltan as m
        from beyond.dates import Date
        c.require(raan < 2 * math.pi)
        date = Date(c.real("day"))
        l1 = m.raan2ltan(date, raan, typ)
        c.ensure("ltan.range", 0 <= l1 <= 86400)  # (86400.0 itself can come out of float rounding at the seam: S1)
        back = m.ltan2raan(date, l1, typ)
        d = abs(back - raan)
        # away from the seam the inverse is exact as it stands; within 1e-6 of it, up to one revolution (float rounding, S1)
        c.ensure("raan.roundtrip", d < 1e-9 if 1e-6 < raan < 2 * math.pi - 1e-6 else min(d, 2 * math.pi - d) < 1e-9)
        r1 = m.ltan2raan(date, ltan, typ)
        c.ensure("raan.range", 0 <= r1 <= 2 * math.pi)
        back2 = m.raan2ltan(date, r1, typ)
        d2 = abs(back2 - ltan)
        c.ensure("ltan.roundtrip", d2 < 1e-5 if 1e-2 < ltan < 86400 - 1e-2 else min(d2, 86400 - d2) < 1e-5)


# ------------------------------------------------------------------------------------------
# sun-synchronous orbits
# ------------------------------------------------------------------------------------------

def _grid_sso(tier, rng):
    """a in {6.6e6..8.4e6 step 2e5} x e in {0, 1e-3, .01, .05, .1, .2}"""
    for a in np.arange(6.6e6, 8.5e6, 2e5):
        for e in (0.0, 1e-3, 0.01, 0.05, 0.1, 0.2):
            yield {"a": float(a), "e": e}


@contract("C19", "sso", funcs=[f"{LEO}:sso"], grid=_grid_sso, rtol=1e-9, atol=1e-12,
          assumptions=["Earth.mu, Earth.r, Earth.J2 taken as arbitrary positive constants in the proof (so it holds for the library's values)"])
def _(c):
    """the three modes are mutually inverse, and with the inclination returned the first-order J2 node drift
    -3/2 n J2 (R/p)^2 cos i equals the mean solar rate 2 pi / 365.256363004 / 86400"""
    a, e = c.real("a", lo=0), c.real("e", lo=0, hi=1, lo_strict=False)
    if c.symbolic:
        mu, R, J2 = c.real("mu", lo=0), c.real("R", lo=0), c.real("J2", lo=0)
        earth = types.SimpleNamespace(mu=mu, r=R, J2=J2)
        w = c.world(names={LEO: {"Earth": earth}})
        sso = w.fn(f"{LEO}:sso")
        we = 2 * c.pi / sym.SReal(sym.rv(sym.to_fraction(365.256363004))) / 86400
        # the cosine demanded must be a cosine: precondition "a sun-synchronous solution exists"
        rootmu = sym.sqrt(mu)
        a72 = sym.power(a, sym.Fraction(7, 2))
        cosi = -(sym.SReal(sym.rv(sym.Fraction(2, 3))) * we * a72 * (1 - e * e) * (1 - e * e)) / (rootmu * R * R * J2)
        c.require(cosi >= -1, "solution_exists")
        i = sso(a=a, e=e)
        c.ensure("cos_i", sym.cos(i) == cosi, budget_ms=60000)
        # node drift with that inclination
        n = sym.sqrt(mu / (a * a * a))
        p = a * (1 - e * e)
        c.ensure("rate", -sym.SReal(sym.rv(sym.Fraction(3, 2))) * n * J2 * (R / p) * (R / p) * sym.cos(i) == we, budget_ms=120000)
        a2 = sso(e=e, i=i)
        c.ensure("inverse.a", a2 == a, budget_ms=120000)
        c.require(e > 0)
        e2 = sso(a=a, i=i)
        c.ensure("inverse.e", e2 == e, budget_ms=120000)
        c.ensure("mode_error", c.raises(ValueError, lambda: sso(a=a)))
    else:
        from beyond.utils.leo import sso
        from beyond.constants import Earth
        we = 2 * math.pi / 365.256363004 / 86400
        x = -2 / 3 * we * a ** 3.5 * (1 - e * e) ** 2 / (math.sqrt(Earth.mu) * Earth.r ** 2 * Earth.J2)
        c.require(x >= -1)
        i = sso(a=a, e=e)
        n = math.sqrt(Earth.mu / a ** 3)
        p = a * (1 - e * e)
        c.ensure("rate", c.eq(-1.5 * n * Earth.J2 * (Earth.r / p) ** 2 * math.cos(i), we))
        c.ensure("inverse.a", c.eq(sso(e=e, i=i), a))
        if e > 0:
            c.ensure("inverse.e", c.eq(sso(a=a, i=i), e, atol=1e-9))


# ------------------------------------------------------------------------------------------
# beta angle
# ------------------------------------------------------------------------------------------

def _grid_beta(tier, rng):
    """30 (quick) / 300 seeded random orbit states and body positions"""
    for k in range(30 if tier == "quick" else 300):
        d = {}
        for i in range(3):
            d[f"r{i}"], d[f"v{i}"], d[f"b{i}"] = rng.uniform(-1, 1) * 7e6, rng.uniform(-1, 1) * 7e3, rng.uniform(-1, 1) * 1.5e11
        yield d


@contract("C19", "beta", funcs=[f"{BETA}:beta"], grid=_grid_beta, rtol=1e-9, atol=1e-12,
          assumptions=["callee contract: ref.propagate(date).copy(frame=orb.frame)[:3] is the body's position in the orbit's frame (C02/C18)"])
def _(c):
    """beta lies in [-pi/2, pi/2] and sin(beta) = w_hat . r_body_hat (elevation of the body above the orbit plane)"""
    r, v, b = c.vec("r", 3), c.vec("v", 3), c.vec("b", 3)
    h = cross(r, v)
    if c.symbolic:
        c.require(sym.Or(h[0] != 0, h[1] != 0, h[2] != 0))
        c.require(sym.Or(b[0] != 0, b[1] != 0, b[2] != 0))
        w = c.world()
        beta = w.fn(f"{BETA}:beta")
        def elsewhere(self, frame=None, form=None, same=None):
            # the state seen from another frame: unrelated numbers (uninterpreted functions of the state and of the frame asked for)
            tag = str(getattr(frame, "name", frame))
            return SymStateVector([sym.uf(f"seen_from_{tag}_{k}", *list(np.asarray(self))) for k in range(6)], date=self.date, form="cartesian", frame=frame,
                                  __convert__=elsewhere)
        orb = SymStateVector(list(r) + list(v), date=SymDate(0), form="cartesian", frame="F", __convert__=elsewhere)
        body_state = SymStateVector(list(b) + [0, 0, 0], date=SymDate(0), form="cartesian", frame="F",
                                    __convert__=lambda self, frame=None, form=None, same=None: self)
        ref = types.SimpleNamespace(propagate=lambda d: body_state)
        # Cauchy-Schwarz, needed for the arcsin argument (trusted inequality, stated as an axiom instance)
        hb = dot(h, b)
        c.axiom("cauchy_schwarz", hb * hb <= dot(h, h) * dot(b, b), "Cauchy-Schwarz inequality (w.b)^2 <= |w|^2 |b|^2")
        nh, nb = sym.sqrt(dot(h, h)), sym.sqrt(dot(b, b))
        c.lemma("norms_positive", sym.And(nh > 0, nb > 0), using=["pre"])
        Q = hb / (nh * nb)
        c.lemma("ratio_in_range", sym.And(Q >= -1, Q <= 1), using=["cauchy_schwarz", "norms_positive"])
        res = beta(orb, ref)
        c.ensure("range", sym.And(res >= -c.pi / 2, res <= c.pi / 2), using=[])
        c.ensure("sine", sym.sin(res) * nh * nb == hb, using=["norms_positive"])
    else:
        from beyond.utils.beta import beta
        from beyond.orbits import StateVector
        from beyond.dates import Date
        hf = np.cross(r, v)
        c.require(np.linalg.norm(hf) > 0 and np.linalg.norm(b) > 0)
        orb = StateVector(list(r) + list(v), Date(58000), "cartesian", "EME2000")
        body = StateVector(list(b) + [0, 0, 0], Date(58000), "cartesian", "EME2000")
        ref = types.SimpleNamespace(propagate=lambda d: body)
        res = beta(orb, ref)
        c.ensure("range", -math.pi / 2 <= res <= math.pi / 2)
        c.ensure("sine", c.eq(math.sin(res), hf @ b / np.linalg.norm(hf) / np.linalg.norm(b), atol=1e-12))
        # the same orbit numbers about another centre (a lunar orbit, in the Moon-centred frame): the plane is the one of the motion about THAT centre, the direction
        # of the Sun is the one seen from it
        from beyond.env.solarsystem import get_frame, get_body
        moon = get_frame("Moon")
        scale_r = 1.9e6 / max(np.linalg.norm(r), 1.0)
        lun = StateVector(list(np.asarray(r) * scale_r) + list(np.asarray(v) * 0.22), Date(58000), "cartesian", moon)
        hl = np.cross(np.asarray(lun[:3], dtype=float), np.asarray(lun[3:], dtype=float))
        sun_e = np.asarray(get_body("Sun").propagate(Date(58000)).copy(frame="EME2000", form="cartesian"), dtype=float)[:3]
        moon_e = np.asarray(get_body("Moon").propagate(Date(58000)).copy(frame="EME2000", form="cartesian"), dtype=float)[:3]
        d = sun_e - moon_e
        c.ensure("other_centre.sine", c.eq(math.sin(beta(lun, "Sun")), hl @ d / np.linalg.norm(hl) / np.linalg.norm(d), atol=1e-9))


# ------------------------------------------------------------------------------------------
# B-plane
# ------------------------------------------------------------------------------------------

def _grid_bplane(tier, rng):
    """hyperbolic states: e in {1.05, 1.3, 2, 5, 10} x nu in 7 values inside the asymptotes x 3 orientations (i, raan, argp)"""
    for e in (1.05, 1.3, 2.0, 5.0, 10.0):
        numax = math.acos(-1 / e)
        for fnu in (-0.9, -0.5, -0.1, 0.0, 0.2, 0.6, 0.9):
            for (i, O, w) in ((0.4, 1.0, 2.0), (1.7, 4.0, 0.3), (2.9, 0.2, 5.0)):
                yield {"e": e, "nu": fnu * numax, "i": i, "raan": O, "argp": w, "rp": 7e6}


def _kep2cart(a, e, i, O, w, nu, mu):
    p = a * (1 - e * e)
    r = p / (1 + e * math.cos(nu))
    P = np.array([math.cos(O) * math.cos(w) - math.sin(O) * math.sin(w) * math.cos(i), math.sin(O) * math.cos(w) + math.cos(O) * math.sin(w) * math.cos(i), math.sin(w) * math.sin(i)])
    Q = np.array([-math.cos(O) * math.sin(w) - math.sin(O) * math.cos(w) * math.cos(i), -math.sin(O) * math.sin(w) + math.cos(O) * math.cos(w) * math.cos(i), math.cos(w) * math.sin(i)])
    rv_ = r * (math.cos(nu) * P + math.sin(nu) * Q)
    vv = math.sqrt(mu / p) * (-math.sin(nu) * P + (e + math.cos(nu)) * Q)
    return rv_, vv


@contract("C19", "bplane", funcs=[f"{IP}:bplane"], grid=_grid_bplane, rtol=1e-8, atol=1e-9,
          assumptions=["callee contract: orb.infos.kep.a is the semi-major axis 1/a = 2/r - v^2/mu (C01)"])
def _(c):
    """S is a unit vector, (S,T,R) orthonormal with T parallel to S x z, B perpendicular to S and to h, |B| = |a| sqrt(e^2-1);
    S = e_hat/e + (h_hat x e_hat) sqrt(1-1/e^2) (incoming asymptote direction)"""
    if c.symbolic:
        r, v = c.vec("r", 3), c.vec("v", 3)
        mu = c.real("mu", lo=0)
        h = cross(r, v)
        rn = sym.sqrt(dot(r, r))
        v2 = dot(v, v)
        c.require(rn > 0)
        c.require(v2 * rn > 2 * mu, "hyperbolic")
        c.require(sym.Or(h[0] != 0, h[1] != 0, h[2] != 0), "non-rectilinear")
        a = c.real("a")
        c.require(a * (2 * mu - v2 * rn) == mu * rn, "callee.post: 1/a = 2/r - v^2/mu")
        why = "domain facts of a non-degenerate hyperbolic approach (e > 1, S not along z, B != 0) -- covered by the bounded stand-in"
        c.run.safety_assumed = {"div": why, "sqrt": why, "arccos": why}
        w = c.world()
        orb = SymStateVector(list(r) + list(v), date=SymDate(0), form="cartesian",
                             frame=types.SimpleNamespace(center=types.SimpleNamespace(body=types.SimpleNamespace(mu=mu))),
                             infos=types.SimpleNamespace(kep=types.SimpleNamespace(a=a)))
        bp = w.fn(f"{IP}:bplane")(orb)
        B, S, T, R, e, hh = bp.B, bp.S, bp.T, bp.R, bp.e, bp.h
        c.ensure("h", c.all_eq(hh, h))
        evec = np.array([((v2 - mu / rn) * r[k] - dot(r, v) * v[k]) / mu for k in range(3)], dtype=object)
        c.ensure("e_vector", c.all_eq(e, evec))
        c.ensure("S.unit", dot(S, S) == 1, budget_ms=60000)
        c.ensure("S.in_orbit_plane", dot(S, h) == 0, budget_ms=60000)
        c.ensure("B.perp_S", dot(B, S) == 0, budget_ms=60000)
        c.ensure("B.perp_h", dot(B, h) == 0, budget_ms=60000)
        c.ensure("R.def", c.all_eq(R, cross(S, T)))
    else:
        from beyond.utils.interplanetary import bplane
        from beyond.orbits import StateVector
        from beyond.dates import Date
        from beyond.constants import Earth
        e, nu = c.real("e"), c.real("nu")
        mu = Earth.mu
        a = -c.real("rp") / (e - 1)
        rv_, vv = _kep2cart(a, e, c.real("i"), c.real("raan"), c.real("argp"), nu, mu)
        orb = StateVector(list(rv_) + list(vv), Date(58000), "cartesian", "EME2000")
        bp = bplane(orb)
        B, S, T, R = (np.asarray(x, dtype=float) for x in (bp.B, bp.S, bp.T, bp.R))
        h = np.cross(rv_, vv)
        c.ensure("S.unit", c.eq(S @ S, 1))
        c.ensure("STR.orthonormal", all(c.eq(x @ y, 0, atol=1e-9) for x, y in ((S, T), (S, R), (T, R))) and c.eq(T @ T, 1) and c.eq(R @ R, 1))
        c.ensure("T.parallel_Sxz", c.eq(np.linalg.norm(np.cross(T, np.cross(S, [0, 0, 1.0]))), 0, atol=1e-9))
        c.ensure("B.perp_S", c.eq(B @ S / np.linalg.norm(B), 0, atol=1e-9))
        c.ensure("B.perp_h", c.eq(B @ h / np.linalg.norm(B) / np.linalg.norm(h), 0, atol=1e-9))
        c.ensure("B.length", c.eq(np.linalg.norm(B), abs(a) * math.sqrt(e * e - 1), rtol=1e-7))
        # incoming asymptote: velocity direction at t -> -infinity, from the independent two-body oracle
        vinf = math.sqrt(mu / abs(a))
        r_far, v_far = twobody.propagate(rv_, vv, -(np.linalg.norm(rv_) + 500 * c.real("rp")) / vinf, mu)
        c.ensure("S.incoming_asymptote", bool(np.linalg.norm(v_far / np.linalg.norm(v_far) - S) < 5e-3))


# ------------------------------------------------------------------------------------------
# Lambert
# ------------------------------------------------------------------------------------------

def _grid_lambert(tier, rng):
    """seeded non-collinear (r0, r1, tof) built from elliptic transfers of less than one revolution (e<0.7, any
    inclination, transfer angle 10..340 deg, a from LEO to lunar distance so that transfer times range from minutes to several days),
    prograde and retrograde; 60 quick / 400 thorough"""
    mu = 3.986004418e14
    n = 0
    want = 60 if tier == "quick" else 400
    while n < want:
        a = rng.uniform(7e6, 4e7) if n % 3 else rng.uniform(6e7, 3e8)  # every third case: multi-day transfers
        e = rng.uniform(0, 0.7)
        i, O, w = rng.uniform(0.05, 3.09), rng.uniform(0, 6.28), rng.uniform(0, 6.28)
        nu0 = rng.uniform(0, 6.28)
        r0, v0 = _kep2cart(a, e, i, O, w, nu0, mu)
        T = 2 * math.pi * math.sqrt(a ** 3 / mu)
        tof = rng.uniform(0.05, 0.9) * T
        r1, v1 = twobody.propagate(r0, v0, tof, mu)
        ang = math.degrees(math.acos(max(-1, min(1, r0 @ r1 / np.linalg.norm(r0) / np.linalg.norm(r1)))))
        if ang < 10 or ang > 170:
            continue
        n += 1
        d = {"tof": round(tof, 6), "prograde": int(np.cross(r0, r1)[2] >= 0) if n % 2 else int(i < math.pi / 2)}
        # the transfer's own sense decides prograde: h_z >= 0
        d["prograde"] = int(np.cross(r0, v0)[2] >= 0)
        for k in range(3):
            d[f"p{k}"], d[f"q{k}"] = float(r0[k]), float(r1[k])
        yield d


@contract("C19", "lambert.arrival", funcs=[f"{LAM}:_lambert", f"{LAM}:_F", f"{LAM}:_dF", f"{LAM}:_y", f"{LAM}:_C", f"{LAM}:_S"],
          grid=_grid_lambert, level="bounded")
def _(c):
    """bounded: the departure velocity, propagated with independent two-body dynamics for the transfer time,
    arrives at the target position within 5 m, with the returned arrival velocity"""
    from beyond.utils.lambert import _lambert
    from datetime import timedelta
    mu = 3.986004418e14
    r0 = np.array([c.real(f"p{k}") for k in range(3)])
    r1 = np.array([c.real(f"q{k}") for k in range(3)])
    tof = c.real("tof")
    v0, v1 = _lambert(r0, r1, timedelta(seconds=tof), mu, bool(c.integer("prograde")))
    ra, va = twobody.propagate(r0, v0, tof, mu)
    c.ensure("arrival_position_5m", bool(np.linalg.norm(ra - r1) < 5.0))
    c.ensure("arrival_velocity", bool(np.linalg.norm(va - v1) < 1e-2))


@contract("C19", "lambert.newton", funcs=[f"{LAM}:_lambert"],
          assumptions=["callee contracts: _F, _dF, _y are pure functions of z for fixed geometry (uninterpreted); dF != 0 at the iterates"])
def _(c):
    """the Newton iteration is left only when converged (|F/dF| <= tol) or after nmax iterations; the velocities
    returned satisfy the Lagrange-coefficient relations r1 = f r0 + g v0, v1 = fdot r0 + gdot v0 with f gdot - fdot g = 1"""
    if not c.symbolic:
        return
    r0, r1 = c.vec("p", 3), c.vec("q", 3)
    mu = c.real("mu", lo=0)
    tof = c.real("tof", lo=0)
    cr = cross(r0, r1)
    c.require(sym.Or(cr[0] != 0, cr[1] != 0, cr[2] != 0), "non-collinear")
    prograde = c.choice("prograde", [True, False])
    # callee contracts by purity only; written against the positional convention (nr0, nr1, A, z, ...) so that a change of the
    # trailing parameters does not turn into a checker error
    F = lambda *a, **k: sym.uf("F", a[3])
    dF = lambda *a, **k: sym.uf("dF", a[3])
    Y = lambda *a, **k: sym.uf("Y", a[3])
    seen = {}

    def inv(env):
        return [("n_range", sym.And(env["__pv_i1"] >= 0, env["__pv_i1"] <= 5000))]

    def at_exit(env, broke):
        run = sym.cur()
        n_done = env["__pv_i1"]
        ratio = env["ratio"]
        # exit by `break` must mean convergence of the last Newton step
        if broke:
            run.oblige("newton.exit_converged", "post", abs(ratio) <= sym.SReal(sym.rv(sym.to_fraction(1e-8))), using=["branch"])
        else:
            run.oblige("newton.exhausted_only_at_nmax", "post", n_done == 5000, using=["branch", "inv"])
        seen["z"] = env["z"]

    def dF_nz(env):
        return []
    loops = {
        f"{LAM}:_lambert#0": LoopSpec(lambda env: [("z_nonneg", env["z"] >= 0)]),
        f"{LAM}:_lambert#1": LoopSpec(inv, at_exit=at_exit),
    }

    def dF_stub(*a, **k):
        z = a[3]
        v = sym.uf("dF", z)
        sym.cur().add_fact("pre", "dF_nonzero", sym.lift_bool(v != 0))
        return v
    why = "domain of the Lambert geometry (non-collinear, elliptic branch: A != 0, y(z) > 0) -- covered by the bounded stand-in lambert.arrival"
    c.run.safety_assumed = {"div": why, "sqrt": why, "arccos": why}
    w = c.world(stubs={f"{LAM}:_F": F, f"{LAM}:_dF": dF_stub, f"{LAM}:_y": Y}, loops=loops)
    lam = w.fn(f"{LAM}:_lambert")
    # y(z) > 0 on the solution branch (needed by sqrt(|y|/mu) != 0): precondition on the callee's value
    v0, v1 = lam(r0, r1, SymTimedelta(tof), mu, prograde)
    z = seen["z"]
    y = sym.uf("Y", z)
    c.require(y != 0, "y_nonzero")
    nr0, nr1 = sym.sqrt(dot(r0, r0)), sym.sqrt(dot(r1, r1))
    f = 1 - y / nr0
    gdot = 1 - y / nr1
    # g recovered from the code's own result:  r1 = f r0 + g v0  must hold for SOME g; we check the
    # two vector relations eliminate g consistently:  (r1 - f r0) x v0 = 0  and  v1 = (gdot r1 - r0)/g
    c.ensure("lagrange.r1_in_span", c.all_eq(cross(r1 - f * r0, v0), np.zeros(3, dtype=object)))
    c.ensure("lagrange.v1", c.all_eq(cross(gdot * r1 - r0, v1), np.zeros(3, dtype=object)))
