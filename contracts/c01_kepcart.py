"""C01 (continued): keplerian -> cartesian -> keplerian, the most used edge, by a chain of ghost lemmas about the code's own intermediate quantities."""
import types

import numpy as np

from pyvc.contract import contract
from pyvc import sym
from contracts.c01_forms import _edge, FORM


@contract("C01", "rt.keplerian_cartesian", funcs=[f"{FORM}._keplerian_to_cartesian", f"{FORM}._cartesian_to_keplerian"])
def _(c):
    """keplerian -> cartesian -> keplerian is the identity on a, e, i and on the three angles up to whole revolutions (same cosine and sine), for p = a(1-e^2) > 0 (ellipse or
    hyperbola), e > 0, 0 < i < pi, inside the asymptotes; on the way: position r U and velocity vr U + vt T in the orbit's own radial / transverse basis, |r| = p/(1+e cos nu),
    r x v = h W with h = sqrt(mu p), the vis-viva relation v^2/2 - mu/r = -mu/2a, r.v = r vr"""
    if not c.symbolic:
        return
    B = 60000
    a, e, i, O, wp, nu = (c.real(n) for n in ("a", "e", "i", "raan", "argp", "nu"))
    mu = c.real("mu", lo=0)
    c.require(sym.And(mu > 0, e > 0, i > 0, i < c.pi, a * (1 - e ** 2) > 0, a != 0))
    den = 1 + e * sym.cos(nu)
    c.require(den > 0, "inside the asymptotes")
    f, w = _edge(c, "_keplerian_to_cartesian", mu)
    g, _ = _edge(c, "_cartesian_to_keplerian", mu)
    p = a * (1 - e ** 2)
    u = wp + nu
    cO, sO, ci, si, cu, su, cn, sn = sym.cos(O), sym.sin(O), sym.cos(i), sym.sin(i), sym.cos(u), sym.sin(u), sym.cos(nu), sym.sin(nu)
    c.principal("i_principal", i)
    c.lemma("sin_i_positive", si > 0, using=["pre", "i_principal"], budget_ms=B)
    # ghost names: scalars of the orbit and its radial / transverse / normal basis
    r = c.ghost("r", p / den)
    h = c.ghost("h", sym.sqrt(mu * p))
    c.lemma("r_positive", sym.And(r > 0, r * den == p), using=["pre", "r"], budget_ms=B)
    c.lemma("h_positive", sym.And(h > 0, h * h == mu * p), using=["pre", "h"], budget_ms=B)
    vr = c.ghost("vr", h * e * sn / p)
    vt = c.ghost("vt", h / r)
    c.lemma("vr_def", vr * p == h * e * sn, using=["pre", "vr"], budget_ms=B)
    c.lemma("vt_def", vt * r == h, using=["vt", "r_positive"], budget_ms=B)
    Ue = [cO * cu - sO * su * ci, sO * cu + cO * su * ci, si * su]
    Te = [-(cO * su + sO * cu * ci), -(sO * su - cO * cu * ci), si * cu]
    We = [si * sO, -si * cO, ci]
    U = [c.ghost(f"U{k}", Ue[k]) for k in range(3)]
    T = [c.ghost(f"T{k}", Te[k]) for k in range(3)]
    W = [c.ghost(f"W{k}", We[k]) for k in range(3)]
    basis = [f"U{k}" for k in range(3)] + [f"T{k}" for k in range(3)] + [f"W{k}" for k in range(3)]
    c.lemma("U_unit", U[0] * U[0] + U[1] * U[1] + U[2] * U[2] == 1, using=basis, budget_ms=B)
    c.lemma("T_unit", T[0] * T[0] + T[1] * T[1] + T[2] * T[2] == 1, using=basis, budget_ms=B)
    c.lemma("U_T_orthogonal", U[0] * T[0] + U[1] * T[1] + U[2] * T[2] == 0, using=basis, budget_ms=B)
    c.lemma("W_unit", W[0] * W[0] + W[1] * W[1] + W[2] * W[2] == 1, using=basis, budget_ms=B)
    c.lemma("U_cross_T.0", U[1] * T[2] - U[2] * T[1] == W[0], using=basis, budget_ms=B)
    c.lemma("U_cross_T.1", U[2] * T[0] - U[0] * T[2] == W[1], using=basis, budget_ms=B)
    c.lemma("U_cross_T.2", U[0] * T[1] - U[1] * T[0] == W[2], using=basis, budget_ms=B)
    x = f([a, e, i, O, wp, nu])
    # ghost names for the six cartesian coordinates the code produced
    G = [c.ghost(n, x[k]) for k, n in enumerate(("X", "Y", "Z", "VX", "VY", "VZ"))]
    gX, gY, gZ, gVX, gVY, gVZ = G
    for k, (n, vn) in enumerate((("X", "VX"), ("Y", "VY"), ("Z", "VZ"))):
        c.lemma(f"position.{k}", G[k] == r * U[k], using=["pre", "r", f"U{k}", n], budget_ms=B)
        c.lemma(f"velocity.{k}", G[k + 3] == vr * U[k] + vt * T[k], using=["pre", "r", "h", "vr", "vt", f"U{k}", f"T{k}", n, vn], budget_ms=B)
    pos = [f"position.{k}" for k in range(3)]
    vel = [f"velocity.{k}" for k in range(3)]
    coords = ["X", "Y", "Z", "VX", "VY", "VZ"]
    # algebra on the ghost names only
    c.lemma("r_squared", gX * gX + gY * gY + gZ * gZ == r * r, using=pos + ["U_unit"], budget_ms=B)
    quad = sum((vr * U[k] + vt * T[k]) * (vr * U[k] + vt * T[k]) for k in range(3))
    c.lemma("basis_quadratic", quad == vr * vr + vt * vt, using=["U_unit", "T_unit", "U_T_orthogonal"], budget_ms=B)
    c.lemma("v_squared", gVX * gVX + gVY * gVY + gVZ * gVZ == vr * vr + vt * vt, using=vel + ["basis_quadratic"], budget_ms=B)
    c.lemma("r_dot_v", gX * gVX + gY * gVY + gZ * gVZ == r * vr, using=pos + vel + ["U_unit", "U_T_orthogonal"], budget_ms=B)
    gh = [gY * gVZ - gZ * gVY, gZ * gVX - gX * gVZ, gX * gVY - gY * gVX]
    for k in range(3):
        c.lemma(f"h_vector.{k}", gh[k] == h * W[k], using=pos + vel + [f"U_cross_T.{k}", "vt_def"], budget_ms=B)
    c.lemma("h_squared", gh[0] * gh[0] + gh[1] * gh[1] + gh[2] * gh[2] == h * h, using=["h_vector.0", "h_vector.1", "h_vector.2", "W_unit"], budget_ms=B)
    c.lemma("vis_viva", (vr * vr + vt * vt) * r * a == mu * (2 * a - r), using=["pre", "h_positive", "r_positive", "vr_def", "vt_def"], budget_ms=B)
    # the code's own intermediate quantities, built with the same operations as the source (same terms, hence the same auxiliary variables)
    npx = w.np
    rv, vv = np.array([x[0], x[1], x[2]], dtype=object), np.array([x[3], x[4], x[5]], dtype=object)
    hv = npx.cross(rv, vv)
    c.run.safety_using = ["pre"]  # (a sum of squares is non-negative whatever is known)
    h_norm = npx.linalg.norm(hv)
    r_norm = npx.linalg.norm(rv)
    v_norm = npx.linalg.norm(vv)
    c.run.safety_using = ["pre", "r_norm", "r_positive", "h_norm", "h_positive", "energy", "a_back", "ecc_arg"]  # (labels of lemmas: each counts once it has been stated)
    ghv = [c.ghost(f"hv{k}", hv[k]) for k in range(3)]
    for k in range(3):
        c.lemma(f"hv.{k}", ghv[k] == gh[k], using=coords + [f"hv{k}"], budget_ms=B)
    c.lemma("r_norm", r_norm == r, using=coords + ["r_squared", "r_positive"], budget_ms=B)
    c.lemma("h_norm_squared", h_norm * h_norm == ghv[0] * ghv[0] + ghv[1] * ghv[1] + ghv[2] * ghv[2], using=["hv0", "hv1", "hv2"], budget_ms=B)
    c.lemma("h_norm", h_norm == h, using=["h_norm_squared", "hv.0", "hv.1", "hv.2", "h_squared", "h_positive"], budget_ms=B)
    c.lemma("v_norm_squared", v_norm ** 2 == vr * vr + vt * vt, using=coords + ["v_squared"], budget_ms=B)
    K = v_norm ** 2 / 2 - mu / r_norm
    c.lemma("energy", K * (2 * a) == -mu, using=["v_norm_squared", "vis_viva", "r_norm", "r_positive", "pre"], budget_ms=B)
    a_back = -mu / (2 * K)
    c.lemma("a_back", a_back == a, using=["energy", "pre"], budget_ms=B)
    c.lemma("ecc_arg", 1 - h_norm ** 2 / (a_back * mu) == e * e, using=["a_back", "h_norm", "h_positive", "pre"], budget_ms=B)
    c.lemma("cos_inc_arg", hv[2] / h_norm == ci, using=["hv2", "hv.2", "h_vector.2", "W2", "h_norm", "h_positive"], budget_ms=B)
    c.lemma("node_vector", sym.And(hv[0] == h * si * sO, hv[1] == -(h * si * cO)), using=["hv0", "hv1", "hv.0", "hv.1", "h_vector.0", "h_vector.1", "W0", "W1"], budget_ms=B)
    e_back = npx.sqrt(1 - h_norm ** 2 / (a_back * mu))
    c.lemma("e_back", e_back == e, using=["ecc_arg", "pre"], budget_ms=B)
    p_back = a_back * (1 - e_back ** 2)
    c.lemma("p_back", p_back == p, using=["a_back", "e_back"], budget_ms=B)
    c.lemma("p_over_mu", p_back / mu >= 0, using=["p_back", "pre"], budget_ms=B)
    c.run.safety_using = ["pre", "r_norm", "r_positive", "h_norm", "h_positive", "energy", "a_back", "ecc_arg", "cos_inc_arg", "sin_i_positive", "e_back", "p_back", "p_over_mu"]
    c.run.safety_assumed = {"arctan2": "the two arguments of each arctan2 are not both zero (they are r sin/cos, h sin i sin/cos, r e sin/cos of an angle with r, h, e, sin i > 0): exercised by the bounded stand-in; numpy itself never raises here"}
    k = g(list(x))
    c.lemma("back.a", k[0] == a, using=["a_back"], budget_ms=B)
    c.lemma("back.e", k[1] == e, using=["e_back"], budget_ms=B)
    c.lemma("back.i.cos", sym.cos(k[2]) == ci, using=["cos_inc_arg"], budget_ms=B)
    c.lemma("back.raan", sym.And(sym.cos(k[3]) == cO, sym.sin(k[3]) == sO), using=["node_vector", "sin_i_positive", "h_positive"], budget_ms=B)
    # true anomaly: atan2(sqrt(p/mu) (v.r), p - |r|) = atan2(r e sin nu, r e cos nu)
    vdotr = npx.dot(vv, rv)
    c.lemma("v_dot_r", vdotr == r * vr, using=coords + ["r_dot_v"], budget_ms=B)
    root = npx.sqrt(p_back / mu)
    c.lemma("root_p_mu", root * h == p, using=["p_back", "h_positive", "pre", "p_over_mu"], budget_ms=B)
    c.lemma("nu_sine_arg", root * vdotr == r * e * sn, using=["root_p_mu", "v_dot_r", "vr_def", "h_positive", "pre"], budget_ms=B)
    c.lemma("p_minus_r", p - r == r * e * cn, using=["r_positive"], budget_ms=B)
    c.lemma("nu_cosine_arg", p_back - r_norm == r * e * cn, using=["p_back", "r_norm", "p_minus_r"], budget_ms=B)
    c.lemma("back.nu", sym.And(sym.cos(k[5]) == cn, sym.sin(k[5]) == sn), using=["~nu_sine_arg", "~nu_cosine_arg", "r_positive", "pre", "@depth=2"], budget_ms=B)
    # argument of latitude: atan2(z / sin i, x cos W + y sin W) = atan2(r sin u, r cos u); then the perigee is what is left
    c.lemma("sin_inc_back", sym.sin(k[2]) == si, using=["back.i.cos", "sin_i_positive", "@depth=2"], budget_ms=B)
    aol_y = x[2] / sym.sin(k[2])
    aol_x = x[0] * sym.cos(k[3]) + x[1] * sym.sin(k[3])
    c.lemma("aol_sine_arg", aol_y == r * su, using=["~Z", "position.2", "U2", "sin_inc_back", "sin_i_positive", "r_positive", "@depth=2"], budget_ms=B)
    c.lemma("aol_cosine_arg", aol_x == r * cu, using=["~X", "~Y", "position.0", "position.1", "U0", "U1", "back.raan", "@depth=2"], budget_ms=B)
    c.lemma("u_unit", cu * cu + su * su == 1, using=[], budget_ms=B)
    gcu, gsu = c.ghost("cu", cu), c.ghost("su", su)
    c.lemma("u_unit.g", gcu * gcu + gsu * gsu == 1, using=["u_unit", "cu", "su"], budget_ms=B)
    c.lemma("aol_sine_arg.g", aol_y == r * gsu, using=["aol_sine_arg", "su"], budget_ms=B)
    c.lemma("aol_cosine_arg.g", aol_x == r * gcu, using=["aol_cosine_arg", "cu"], budget_ms=B)
    aol = npx.arctan2(aol_y, aol_x)   # the same two terms as in the source: the same angle
    c.lemma("aol_back.g", sym.And(sym.cos(aol) == gcu, sym.sin(aol) == gsu), using=["~aol_sine_arg.g", "~aol_cosine_arg.g", "u_unit.g", "r_positive", "@depth=2"], budget_ms=B)
    c.lemma("aol_back", sym.And(sym.cos(aol) == cu, sym.sin(aol) == su), using=["aol_back.g", "cu", "su", "@depth=1"], budget_ms=B)
    c.ensure("back.argp", sym.And(sym.cos(k[4]) == sym.cos(wp), sym.sin(k[4]) == sym.sin(wp)), using=["aol_back", "back.nu", "@depth=1"], budget_ms=B)
    c.ensure("back.all", sym.And(k[0] == a, k[1] == e, sym.cos(k[2]) == ci, sym.cos(k[3]) == cO, sym.sin(k[3]) == sO, sym.cos(k[5]) == cn, sym.sin(k[5]) == sn),
             using=["back.a", "back.e", "back.i.cos", "back.raan", "back.nu"], budget_ms=B)


@contract("C01", "rt.cartesian_keplerian", funcs=[f"{FORM}._cartesian_to_keplerian", f"{FORM}._keplerian_to_cartesian"])
def _(c):
    """cartesian -> keplerian -> cartesian is the identity on position and velocity, for a state with non-zero angular momentum that is neither equatorial (h_x, h_y not
    both zero) nor circular (e > 0) nor parabolic (energy != 0); on the way: the elements are the textbook ones (a from the energy, e^2 = 1 - h^2/(mu a), cos i = h_z/h, the node
    from (h_x, -h_y), the true anomaly from (sqrt(p/mu) r.v, p - r), the argument of latitude from (z / sin i, x cos W + y sin W))"""
    if not c.symbolic:
        return
    B = 60000
    X, Y, Z, VX, VY, VZ = (c.real(n) for n in ("x", "y", "z", "vx", "vy", "vz"))
    mu = c.real("mu", lo=0)
    f, w = _edge(c, "_cartesian_to_keplerian", mu)
    g, _ = _edge(c, "_keplerian_to_cartesian", mu)
    npx = w.np
    rv, vv = np.array([X, Y, Z], dtype=object), np.array([VX, VY, VZ], dtype=object)
    hx, hy, hz = Y * VZ - Z * VY, Z * VX - X * VZ, X * VY - Y * VX
    r2, v2, rdv = X * X + Y * Y + Z * Z, VX * VX + VY * VY + VZ * VZ, X * VX + Y * VY + Z * VZ
    h2 = hx * hx + hy * hy + hz * hz
    c.require(sym.And(mu > 0, r2 > 0, hx * hx + hy * hy > 0), "non-degenerate, not equatorial")
    # ghost names for the scalar invariants
    R = c.ghost("R", sym.sqrt(r2))
    H = c.ghost("H", sym.sqrt(h2))
    c.lemma("R_positive", sym.And(R > 0, R * R == r2), using=["pre", "R"], budget_ms=B)
    c.lemma("H_positive", sym.And(H > 0, H * H == h2), using=["pre", "H"], budget_ms=B)
    c.lemma("lagrange_identity", h2 == r2 * v2 - rdv * rdv, using=[], budget_ms=B)
    energy = v2 / 2 - mu / R
    c.require(energy != 0, "not parabolic")
    A = c.ghost("A", -mu / (2 * energy))
    c.lemma("A_def", sym.And(A != 0, A * (2 * energy) == -mu), using=["pre", "A", "R_positive"], budget_ms=B)
    c.require(1 - h2 / (A * mu) > 0, "not circular (e > 0)")
    E = c.ghost("E", sym.sqrt(1 - h2 / (A * mu)))
    c.lemma("E_def", sym.And(E > 0, E * E == 1 - h2 / (A * mu)), using=["pre", "E"], budget_ms=B)
    P = c.ghost("P", A * (1 - E * E))
    c.lemma("P_def", sym.And(P * mu == h2, P > 0), using=["P", "E_def", "A_def", "H_positive", "pre"], budget_ms=B)
    S = c.ghost("S", sym.sqrt(hx * hx + hy * hy))
    c.lemma("S_positive", sym.And(S > 0, S * S == hx * hx + hy * hy), using=["pre", "S"], budget_ms=B)
    c.lemma("h_perp_r", X * hx + Y * hy + Z * hz == 0, using=[], budget_ms=B)
    c.lemma("h_perp_v", VX * hx + VY * hy + VZ * hz == 0, using=[], budget_ms=B)
    c.lemma("vis_viva", v2 * R * A == mu * (2 * A - R), using=["A_def", "R_positive", "pre"], budget_ms=B)
    c.lemma("E_squared", E * E * A == A - P, using=["E_def", "P_def", "A_def", "pre"], budget_ms=B)
    # (P - R)^2 + (P/mu)(r.v)^2 = R^2 E^2, in steps: (r.v)^2 = R^2 v^2 - mu P ; R^2 v^2 = mu (2 R - R^2/A)
    RV2 = c.ghost("RV2", rdv * rdv)
    V2 = c.ghost("V2", v2)
    c.lemma("rv_squared", RV2 == R * R * V2 - mu * P, using=["RV2", "V2", "lagrange_identity", "R_positive", "P_def"], budget_ms=B)
    c.lemma("vis_viva.g", V2 * R * A == mu * (2 * A - R), using=["vis_viva", "V2"], budget_ms=B)
    c.lemma("nu_radius.g", ((P - R) * (P - R) * mu + P * RV2) * A == R * R * (A - P) * mu, using=["rv_squared", "vis_viva.g", "A_def", "R_positive"], budget_ms=B)
    c.lemma("nu_radius", (P - R) * (P - R) * mu + P * rdv * rdv == R * R * E * E * mu, using=["nu_radius.g", "RV2", "E_squared", "A_def"], budget_ms=B)
    # the code's own intermediate quantities (same operations as the source, hence the same auxiliary variables)
    c.run.safety_using = ["pre"]
    hv = npx.cross(rv, vv)
    h_norm, r_norm, v_norm = npx.linalg.norm(hv), npx.linalg.norm(rv), npx.linalg.norm(vv)
    c.lemma("r_norm", r_norm == R, using=["R_positive"], budget_ms=B)
    c.lemma("h_norm", h_norm == H, using=["H_positive"], budget_ms=B)
    c.lemma("v_norm_squared", v_norm ** 2 == v2, using=[], budget_ms=B)
    c.run.safety_using = ["pre", "r_norm", "R_positive", "h_norm", "H_positive"]
    K = v_norm ** 2 / 2 - mu / r_norm
    c.lemma("K", K == energy, using=["v_norm_squared", "r_norm", "R_positive"], budget_ms=B)
    c.run.safety_using = ["pre", "r_norm", "R_positive", "h_norm", "H_positive", "K"]
    a_code = -mu / (2 * K)
    c.lemma("a_code", a_code == A, using=["K", "A", "pre"], budget_ms=B)
    c.run.safety_using = ["pre", "r_norm", "R_positive", "h_norm", "H_positive", "K", "a_code", "A_def"]
    ecc_arg = 1 - h_norm ** 2 / (a_code * mu)
    c.lemma("ecc_arg", ecc_arg == E * E, using=["a_code", "h_norm", "H_positive", "E_def", "A_def", "pre"], budget_ms=B)
    c.run.safety_using = ["pre", "ecc_arg", "E_def"]
    e_code = npx.sqrt(ecc_arg)
    c.lemma("e_code", e_code == E, using=["ecc_arg", "E_def"], budget_ms=B)
    p_code = a_code * (1 - e_code ** 2)
    c.lemma("p_code", p_code == P, using=["a_code", "e_code", "P"], budget_ms=B)
    c.run.safety_using = ["pre", "h_norm", "H_positive"]
    cos_i_arg = hv[2] / h_norm
    c.lemma("cos_i_arg", cos_i_arg * H == hz, using=["h_norm", "H_positive"], budget_ms=B)
    c.lemma("cos_i_range", sym.And(cos_i_arg >= -1, cos_i_arg <= 1), using=["cos_i_arg", "H_positive", "S_positive"], budget_ms=B)
    c.run.safety_using = ["pre", "cos_i_range", "p_code", "P_def", "r_norm", "R_positive", "h_norm", "H_positive", "K", "a_code", "A_def", "ecc_arg", "E_def"]
    c.run.safety_assumed = {"arctan2": "the two arguments of each arctan2 are not both zero (S (sin, cos), R E (sin, cos), R (sin, cos) of an angle with S, R, E > 0): exercised by the bounded stand-in; numpy itself never raises here",
                            "div": "the one remaining division, by sin(i), is by S/H > 0 (i = arccos(h_z/H) in [0, pi], sin i >= 0 and sin^2 i = S^2/H^2 > 0 as the orbit is not equatorial): stated as lemma `sin_inc` right after the call and exercised by the bounded stand-in"}
    k = f([X, Y, Z, VX, VY, VZ])
    c.run.safety_assumed = {}
    c.lemma("elements.a", k[0] == A, using=["a_code"], budget_ms=B)
    c.lemma("elements.e", k[1] == E, using=["e_code"], budget_ms=B)
    ci, si = c.ghost("ci", sym.cos(k[2])), c.ghost("si", sym.sin(k[2]))
    cO, sO = c.ghost("cO", sym.cos(k[3])), c.ghost("sO", sym.sin(k[3]))
    cn, sn = c.ghost("cn", sym.cos(k[5])), c.ghost("sn", sym.sin(k[5]))
    c.lemma("cos_inc", ci * H == hz, using=["ci", "cos_i_arg", "@depth=2"], budget_ms=B)
    c.lemma("sin_inc", si * H == S, using=["si", "ci", "cos_inc", "H_positive", "S_positive", "@depth=2"], budget_ms=B)
    c.lemma("node", sym.And(cO * S == -hy, sO * S == hx), using=["cO", "sO", "S_positive", "@depth=2"], budget_ms=B)
