"""C01 (continued): keplerian -> cartesian -> keplerian, the most used edge, by a chain of ghost lemmas about the code's own intermediate quantities."""
import types

import numpy as np

from pyvc.contract import contract
from pyvc import sym
from contracts.c01_forms import _edge, FORM


@contract("C01", "rt.keplerian_cartesian", funcs=[f"{FORM}._keplerian_to_cartesian", f"{FORM}._cartesian_to_keplerian"])
def _(c):
    """keplerian -> cartesian -> keplerian is the identity on a, e, i and on the three angles up to whole revolutions (same cosine and sine), for p = a(1-e^2) > 0 (ellipse or
    hyperbola), e > 0, 0 < i < pi, inside the asymptotes; on the way: position r U and velocity vr U + vt T in the orbit's own radial / transverse basis, |r| = p/(1+e cos nu),
    r x v = h W with h = sqrt(mu p), the vis-viva relation v^2/2 - mu/r = -mu/2a, r.v = r vr"""
    if not c.symbolic:
        return
    B = 60000
    a, e, i, O, wp, nu = (c.real(n) for n in ("a", "e", "i", "raan", "argp", "nu"))
    mu = c.real("mu", lo=0)
    c.require(sym.And(mu > 0, e > 0, i > 0, i < c.pi, a * (1 - e ** 2) > 0, a != 0))
    den = 1 + e * sym.cos(nu)
    c.require(den > 0, "inside the asymptotes")
    f, w = _edge(c, "_keplerian_to_cartesian", mu)
    g, _ = _edge(c, "_cartesian_to_keplerian", mu)
    p = a * (1 - e ** 2)
    r = p / den
    h = sym.sqrt(mu * p)
    u = wp + nu
    cO, sO, ci, si, cu, su, cn, sn = sym.cos(O), sym.sin(O), sym.cos(i), sym.sin(i), sym.cos(u), sym.sin(u), sym.cos(nu), sym.sin(nu)
    c.principal("i_principal", i)
    c.lemma("sin_i_positive", si > 0, using=["pre", "i_principal"], budget_ms=B)
    c.lemma("r_positive", r > 0, using=["pre"], budget_ms=B)
    c.lemma("h_positive", sym.And(h > 0, h * h == mu * p), using=["pre"], budget_ms=B)
    x = f([a, e, i, O, wp, nu])
    X, Y, Z, VX, VY, VZ = (x[k] for k in range(6))
    U = [cO * cu - sO * su * ci, sO * cu + cO * su * ci, si * su]
    T = [-(cO * su + sO * cu * ci), -(sO * su - cO * cu * ci), si * cu]
    W = [si * sO, -si * cO, ci]
    vr, vt = h * e * sn / p, h / r
    for k, (P_, V_) in enumerate(zip((X, Y, Z), (VX, VY, VZ))):
        c.lemma(f"position.{k}", P_ == r * U[k], using=["pre"], budget_ms=B)
        c.lemma(f"velocity.{k}", V_ == vr * U[k] + vt * T[k], using=["pre", "r_positive", "h_positive"], budget_ms=B)
    c.lemma("U_unit", U[0] * U[0] + U[1] * U[1] + U[2] * U[2] == 1, using=[], budget_ms=B)
    c.lemma("T_unit", T[0] * T[0] + T[1] * T[1] + T[2] * T[2] == 1, using=[], budget_ms=B)
    c.lemma("U_T_orthogonal", U[0] * T[0] + U[1] * T[1] + U[2] * T[2] == 0, using=[], budget_ms=B)
    c.lemma("W_unit", W[0] * W[0] + W[1] * W[1] + W[2] * W[2] == 1, using=[], budget_ms=B)
    c.lemma("U_cross_T.0", U[1] * T[2] - U[2] * T[1] == W[0], using=[], budget_ms=B)
    c.lemma("U_cross_T.1", U[2] * T[0] - U[0] * T[2] == W[1], using=[], budget_ms=B)
    c.lemma("U_cross_T.2", U[0] * T[1] - U[1] * T[0] == W[2], using=[], budget_ms=B)
    c.lemma("r_vt_is_h", r * vt == h, using=["r_positive"], budget_ms=B)
    # the code's own intermediate quantities, built with the same operations as the source (same terms, hence the same auxiliary variables)
    npx = w.np
    rv, vv = np.array([X, Y, Z], dtype=object), np.array([VX, VY, VZ], dtype=object)
    hv = npx.cross(rv, vv)
    for k in range(3):
        c.lemma(f"h_vector.{k}", hv[k] == h * W[k], using=[f"position.{j}" for j in range(3)] + [f"velocity.{j}" for j in range(3)] + [f"U_cross_T.{k}", "r_vt_is_h"], budget_ms=B)
    h_norm = npx.linalg.norm(hv)
    r_norm = npx.linalg.norm(rv)
    v_norm = npx.linalg.norm(vv)
    c.lemma("h_norm", h_norm == h, using=["h_vector.0", "h_vector.1", "h_vector.2", "W_unit", "h_positive"], budget_ms=B)
    c.lemma("r_norm", r_norm == r, using=["position.0", "position.1", "position.2", "U_unit", "r_positive"], budget_ms=B)
    c.lemma("v_norm_squared", v_norm ** 2 == vr * vr + vt * vt, using=["velocity.0", "velocity.1", "velocity.2", "U_unit", "T_unit", "U_T_orthogonal"], budget_ms=B)
    c.lemma("vis_viva", vr * vr + vt * vt == mu * (2 / r - 1 / a), using=["pre", "h_positive", "r_positive"], budget_ms=B)
    K = v_norm ** 2 / 2 - mu / r_norm
    c.lemma("energy", K * (2 * a) == -mu, using=["v_norm_squared", "vis_viva", "r_norm", "r_positive", "pre"], budget_ms=B)
    c.run.safety_using = ["pre", "r_norm", "r_positive", "h_norm", "h_positive", "energy", "sin_i_positive"]
    k = g(list(x))
    c.ensure("back.a", k[0] == a, using=["energy", "pre"], budget_ms=B)
