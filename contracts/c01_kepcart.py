"""C01 (continued): keplerian -> cartesian -> keplerian, the most used edge, by a chain of ghost lemmas about the code's own intermediate quantities."""
import types

import numpy as np

from pyvc.contract import contract
from pyvc import sym
from contracts.c01_forms import _edge, FORM


@contract("C01", "rt.keplerian_cartesian", funcs=[f"{FORM}._keplerian_to_cartesian", f"{FORM}._cartesian_to_keplerian"])
def _(c):
    """keplerian -> cartesian -> keplerian is the identity on a, e, i and on the three angles up to whole revolutions (same cosine and sine), for p = a(1-e^2) > 0 (ellipse or
    hyperbola), e > 0, 0 < i < pi, inside the asymptotes; on the way: position r U and velocity vr U + vt T in the orbit's own radial / transverse basis, |r| = p/(1+e cos nu),
    r x v = h W with h = sqrt(mu p), the vis-viva relation v^2/2 - mu/r = -mu/2a, r.v = r vr"""
    if not c.symbolic:
        return
    B = 60000
    a, e, i, O, wp, nu = (c.real(n) for n in ("a", "e", "i", "raan", "argp", "nu"))
    mu = c.real("mu", lo=0)
    c.require(sym.And(mu > 0, e > 0, i > 0, i < c.pi, a * (1 - e ** 2) > 0, a != 0))
    den = 1 + e * sym.cos(nu)
    c.require(den > 0, "inside the asymptotes")
    f, w = _edge(c, "_keplerian_to_cartesian", mu)
    g, _ = _edge(c, "_cartesian_to_keplerian", mu)
    p = a * (1 - e ** 2)
    u = wp + nu
    cO, sO, ci, si, cu, su, cn, sn = sym.cos(O), sym.sin(O), sym.cos(i), sym.sin(i), sym.cos(u), sym.sin(u), sym.cos(nu), sym.sin(nu)
    c.principal("i_principal", i)
    c.lemma("sin_i_positive", si > 0, using=["pre", "i_principal"], budget_ms=B)
    # ghost names: scalars of the orbit and its radial / transverse / normal basis
    r = c.ghost("r", p / den)
    h = c.ghost("h", sym.sqrt(mu * p))
    c.lemma("r_positive", sym.And(r > 0, r * den == p), using=["pre", "r"], budget_ms=B)
    c.lemma("h_positive", sym.And(h > 0, h * h == mu * p), using=["pre", "h"], budget_ms=B)
    vr = c.ghost("vr", h * e * sn / p)
    vt = c.ghost("vt", h / r)
    c.lemma("vr_def", vr * p == h * e * sn, using=["pre", "vr"], budget_ms=B)
    c.lemma("vt_def", vt * r == h, using=["vt", "r_positive"], budget_ms=B)
    Ue = [cO * cu - sO * su * ci, sO * cu + cO * su * ci, si * su]
    Te = [-(cO * su + sO * cu * ci), -(sO * su - cO * cu * ci), si * cu]
    We = [si * sO, -si * cO, ci]
    U = [c.ghost(f"U{k}", Ue[k]) for k in range(3)]
    T = [c.ghost(f"T{k}", Te[k]) for k in range(3)]
    W = [c.ghost(f"W{k}", We[k]) for k in range(3)]
    basis = [f"U{k}" for k in range(3)] + [f"T{k}" for k in range(3)] + [f"W{k}" for k in range(3)]
    c.lemma("U_unit", U[0] * U[0] + U[1] * U[1] + U[2] * U[2] == 1, using=basis, budget_ms=B)
    c.lemma("T_unit", T[0] * T[0] + T[1] * T[1] + T[2] * T[2] == 1, using=basis, budget_ms=B)
    c.lemma("U_T_orthogonal", U[0] * T[0] + U[1] * T[1] + U[2] * T[2] == 0, using=basis, budget_ms=B)
    c.lemma("W_unit", W[0] * W[0] + W[1] * W[1] + W[2] * W[2] == 1, using=basis, budget_ms=B)
    c.lemma("U_cross_T.0", U[1] * T[2] - U[2] * T[1] == W[0], using=basis, budget_ms=B)
    c.lemma("U_cross_T.1", U[2] * T[0] - U[0] * T[2] == W[1], using=basis, budget_ms=B)
    c.lemma("U_cross_T.2", U[0] * T[1] - U[1] * T[0] == W[2], using=basis, budget_ms=B)
    x = f([a, e, i, O, wp, nu])
    # ghost names for the six cartesian coordinates the code produced
    G = [c.ghost(n, x[k]) for k, n in enumerate(("X", "Y", "Z", "VX", "VY", "VZ"))]
    gX, gY, gZ, gVX, gVY, gVZ = G
    for k, (n, vn) in enumerate((("X", "VX"), ("Y", "VY"), ("Z", "VZ"))):
        c.lemma(f"position.{k}", G[k] == r * U[k], using=["pre", "r", f"U{k}", n], budget_ms=B)
        c.lemma(f"velocity.{k}", G[k + 3] == vr * U[k] + vt * T[k], using=["pre", "r", "h", "vr", "vt", f"U{k}", f"T{k}", n, vn], budget_ms=B)
    pos = [f"position.{k}" for k in range(3)]
    vel = [f"velocity.{k}" for k in range(3)]
    coords = ["X", "Y", "Z", "VX", "VY", "VZ"]
    # algebra on the ghost names only
    c.lemma("r_squared", gX * gX + gY * gY + gZ * gZ == r * r, using=pos + ["U_unit"], budget_ms=B)
    quad = sum((vr * U[k] + vt * T[k]) * (vr * U[k] + vt * T[k]) for k in range(3))
    c.lemma("basis_quadratic", quad == vr * vr + vt * vt, using=["U_unit", "T_unit", "U_T_orthogonal"], budget_ms=B)
    c.lemma("v_squared", gVX * gVX + gVY * gVY + gVZ * gVZ == vr * vr + vt * vt, using=vel + ["basis_quadratic"], budget_ms=B)
    c.lemma("r_dot_v", gX * gVX + gY * gVY + gZ * gVZ == r * vr, using=pos + vel + ["U_unit", "U_T_orthogonal"], budget_ms=B)
    gh = [gY * gVZ - gZ * gVY, gZ * gVX - gX * gVZ, gX * gVY - gY * gVX]
    for k in range(3):
        c.lemma(f"h_vector.{k}", gh[k] == h * W[k], using=pos + vel + [f"U_cross_T.{k}", "vt_def"], budget_ms=B)
    c.lemma("h_squared", gh[0] * gh[0] + gh[1] * gh[1] + gh[2] * gh[2] == h * h, using=["h_vector.0", "h_vector.1", "h_vector.2", "W_unit"], budget_ms=B)
    c.lemma("vis_viva", (vr * vr + vt * vt) * r * a == mu * (2 * a - r), using=["pre", "h_positive", "r_positive", "vr_def", "vt_def"], budget_ms=B)
    # the code's own intermediate quantities, built with the same operations as the source (same terms, hence the same auxiliary variables)
    npx = w.np
    rv, vv = np.array([x[0], x[1], x[2]], dtype=object), np.array([x[3], x[4], x[5]], dtype=object)
    hv = npx.cross(rv, vv)
    c.run.safety_using = ["pre"]  # (a sum of squares is non-negative whatever is known)
    h_norm = npx.linalg.norm(hv)
    r_norm = npx.linalg.norm(rv)
    v_norm = npx.linalg.norm(vv)
    c.run.safety_using = ["pre", "r_norm", "r_positive", "h_norm", "h_positive", "energy", "a_back", "ecc_arg"]  # (labels of lemmas: each counts once it has been stated)
    ghv = [c.ghost(f"hv{k}", hv[k]) for k in range(3)]
    for k in range(3):
        c.lemma(f"hv.{k}", ghv[k] == gh[k], using=coords + [f"hv{k}"], budget_ms=B)
    c.lemma("r_norm", r_norm == r, using=coords + ["r_squared", "r_positive"], budget_ms=B)
    c.lemma("h_norm_squared", h_norm * h_norm == ghv[0] * ghv[0] + ghv[1] * ghv[1] + ghv[2] * ghv[2], using=["hv0", "hv1", "hv2"], budget_ms=B)
    c.lemma("h_norm", h_norm == h, using=["h_norm_squared", "hv.0", "hv.1", "hv.2", "h_squared", "h_positive"], budget_ms=B)
    c.lemma("v_norm_squared", v_norm ** 2 == vr * vr + vt * vt, using=coords + ["v_squared"], budget_ms=B)
    K = v_norm ** 2 / 2 - mu / r_norm
    c.lemma("energy", K * (2 * a) == -mu, using=["v_norm_squared", "vis_viva", "r_norm", "r_positive", "pre"], budget_ms=B)
    a_back = -mu / (2 * K)
    c.lemma("a_back", a_back == a, using=["energy", "pre"], budget_ms=B)
    c.lemma("ecc_arg", 1 - h_norm ** 2 / (a_back * mu) == e * e, using=["a_back", "h_norm", "h_positive", "pre"], budget_ms=B)
    c.lemma("cos_inc_arg", hv[2] / h_norm == ci, using=["hv2", "hv.2", "h_vector.2", "W2", "h_norm", "h_positive"], budget_ms=B)
    c.lemma("node_vector", sym.And(hv[0] == h * si * sO, hv[1] == -(h * si * cO)), using=["hv0", "hv1", "hv.0", "hv.1", "h_vector.0", "h_vector.1", "W0", "W1"], budget_ms=B)
    e_back = npx.sqrt(1 - h_norm ** 2 / (a_back * mu))
    c.lemma("e_back", e_back == e, using=["ecc_arg", "pre"], budget_ms=B)
    p_back = a_back * (1 - e_back ** 2)
    c.lemma("p_back", p_back == p, using=["a_back", "e_back"], budget_ms=B)
    c.lemma("p_over_mu", p_back / mu >= 0, using=["p_back", "pre"], budget_ms=B)
    c.run.safety_using = ["pre", "r_norm", "r_positive", "h_norm", "h_positive", "energy", "a_back", "ecc_arg", "cos_inc_arg", "sin_i_positive", "e_back", "p_back", "p_over_mu"]
    c.run.safety_assumed = {"arctan2": "the two arguments of each arctan2 are not both zero (they are r sin/cos, h sin i sin/cos, r e sin/cos of an angle with r, h, e, sin i > 0): exercised by the bounded stand-in; numpy itself never raises here"}
    k = g(list(x))
    c.lemma("back.a", k[0] == a, using=["a_back"], budget_ms=B)
    c.lemma("back.e", k[1] == e, using=["e_back"], budget_ms=B)
    c.lemma("back.i.cos", sym.cos(k[2]) == ci, using=["cos_inc_arg"], budget_ms=B)
    c.lemma("back.raan", sym.And(sym.cos(k[3]) == cO, sym.sin(k[3]) == sO), using=["node_vector", "sin_i_positive", "h_positive"], budget_ms=B)
    # true anomaly: atan2(sqrt(p/mu) (v.r), p - |r|) = atan2(r e sin nu, r e cos nu)
    vdotr = npx.dot(vv, rv)
    c.lemma("v_dot_r", vdotr == r * vr, using=coords + ["r_dot_v"], budget_ms=B)
    root = npx.sqrt(p_back / mu)
    c.lemma("root_p_mu", root * h == p, using=["p_back", "h_positive", "pre", "p_over_mu"], budget_ms=B)
    c.lemma("nu_sine_arg", root * vdotr == r * e * sn, using=["root_p_mu", "v_dot_r", "vr_def", "h_positive", "pre"], budget_ms=B)
    c.lemma("p_minus_r", p - r == r * e * cn, using=["r_positive"], budget_ms=B)
    c.lemma("nu_cosine_arg", p_back - r_norm == r * e * cn, using=["p_back", "r_norm", "p_minus_r"], budget_ms=B)
    c.lemma("back.nu", sym.And(sym.cos(k[5]) == cn, sym.sin(k[5]) == sn), using=["~nu_sine_arg", "~nu_cosine_arg", "r_positive", "pre", "@depth=2"], budget_ms=B)
    # argument of latitude: atan2(z / sin i, x cos W + y sin W) = atan2(r sin u, r cos u); then the perigee is what is left
    c.lemma("sin_inc_back", sym.sin(k[2]) == si, using=["back.i.cos", "sin_i_positive", "@depth=2"], budget_ms=B)
    aol_y = x[2] / sym.sin(k[2])
    aol_x = x[0] * sym.cos(k[3]) + x[1] * sym.sin(k[3])
    c.lemma("aol_sine_arg", aol_y == r * su, using=["~Z", "position.2", "U2", "sin_inc_back", "sin_i_positive", "r_positive", "@depth=2"], budget_ms=B)
    c.lemma("aol_cosine_arg", aol_x == r * cu, using=["~X", "~Y", "position.0", "position.1", "U0", "U1", "back.raan", "@depth=2"], budget_ms=B)
    c.lemma("u_unit", cu * cu + su * su == 1, using=[], budget_ms=B)
    gcu, gsu = c.ghost("cu", cu), c.ghost("su", su)
    c.lemma("u_unit.g", gcu * gcu + gsu * gsu == 1, using=["u_unit", "cu", "su"], budget_ms=B)
    c.lemma("aol_sine_arg.g", aol_y == r * gsu, using=["aol_sine_arg", "su"], budget_ms=B)
    c.lemma("aol_cosine_arg.g", aol_x == r * gcu, using=["aol_cosine_arg", "cu"], budget_ms=B)
    aol = npx.arctan2(aol_y, aol_x)   # the same two terms as in the source: the same angle
    c.lemma("aol_back.g", sym.And(sym.cos(aol) == gcu, sym.sin(aol) == gsu), using=["~aol_sine_arg.g", "~aol_cosine_arg.g", "u_unit.g", "r_positive", "@depth=2"], budget_ms=B)
    c.lemma("aol_back", sym.And(sym.cos(aol) == cu, sym.sin(aol) == su), using=["aol_back.g", "cu", "su", "@depth=1"], budget_ms=B)
    c.ensure("back.argp", sym.And(sym.cos(k[4]) == sym.cos(wp), sym.sin(k[4]) == sym.sin(wp)), using=["aol_back", "back.nu", "@depth=1"], budget_ms=B)
    c.ensure("back.all", sym.And(k[0] == a, k[1] == e, sym.cos(k[2]) == ci, sym.cos(k[3]) == cO, sym.sin(k[3]) == sO, sym.cos(k[5]) == cn, sym.sin(k[5]) == sn),
             using=["back.a", "back.e", "back.i.cos", "back.raan", "back.nu"], budget_ms=B)


@contract("C01", "rt.cartesian_keplerian", funcs=[f"{FORM}._cartesian_to_keplerian", f"{FORM}._keplerian_to_cartesian"])
def _(c):
    """cartesian -> keplerian -> cartesian is the identity on position and velocity, for a state with non-zero angular momentum that is neither equatorial (h_x, h_y not
    both zero) nor circular (e > 0) nor parabolic (energy != 0); on the way: the elements are the textbook ones (a from the energy, e^2 = 1 - h^2/(mu a), cos i = h_z/h, the node
    from (h_x, -h_y), the true anomaly from (sqrt(p/mu) r.v, p - r), the argument of latitude from (z / sin i, x cos W + y sin W))"""
    if not c.symbolic:
        return
    B = 60000
    X, Y, Z, VX, VY, VZ = (c.real(n) for n in ("x", "y", "z", "vx", "vy", "vz"))
    mu = c.real("mu", lo=0)
    f, w = _edge(c, "_cartesian_to_keplerian", mu)
    g, _ = _edge(c, "_keplerian_to_cartesian", mu)
    npx = w.np
    rv, vv = np.array([X, Y, Z], dtype=object), np.array([VX, VY, VZ], dtype=object)
    hx, hy, hz = Y * VZ - Z * VY, Z * VX - X * VZ, X * VY - Y * VX
    r2, v2, rdv = X * X + Y * Y + Z * Z, VX * VX + VY * VY + VZ * VZ, X * VX + Y * VY + Z * VZ
    h2 = hx * hx + hy * hy + hz * hz
    c.require(sym.And(mu > 0, r2 > 0, hx * hx + hy * hy > 0), "non-degenerate, not equatorial")
    # ghost names for the scalar invariants
    R = c.ghost("R", sym.sqrt(r2))
    H = c.ghost("H", sym.sqrt(h2))
    c.lemma("R_positive", sym.And(R > 0, R * R == r2), using=["pre", "R"], budget_ms=B)
    c.lemma("H_positive", sym.And(H > 0, H * H == h2), using=["pre", "H"], budget_ms=B)
    c.lemma("lagrange_identity", h2 == r2 * v2 - rdv * rdv, using=[], budget_ms=B)
    energy = v2 / 2 - mu / R
    c.require(energy != 0, "not parabolic")
    A = c.ghost("A", -mu / (2 * energy))
    c.lemma("A_def", sym.And(A != 0, A * (2 * energy) == -mu), using=["pre", "A", "R_positive"], budget_ms=B)
    c.require(1 - h2 / (A * mu) > 0, "not circular (e > 0)")
    E = c.ghost("E", sym.sqrt(1 - h2 / (A * mu)))
    c.lemma("E_def", sym.And(E > 0, E * E == 1 - h2 / (A * mu)), using=["pre", "E"], budget_ms=B)
    P = c.ghost("P", A * (1 - E * E))
    c.lemma("P_def", sym.And(P * mu == h2, P > 0), using=["P", "E_def", "A_def", "H_positive", "pre"], budget_ms=B)
    S = c.ghost("S", sym.sqrt(hx * hx + hy * hy))
    c.lemma("S_positive", sym.And(S > 0, S * S == hx * hx + hy * hy), using=["pre", "S"], budget_ms=B)
    c.lemma("h_perp_r", X * hx + Y * hy + Z * hz == 0, using=[], budget_ms=B)
    c.lemma("h_perp_v", VX * hx + VY * hy + VZ * hz == 0, using=[], budget_ms=B)
    c.lemma("vis_viva", v2 * R * A == mu * (2 * A - R), using=["A_def", "R_positive", "pre"], budget_ms=B)
    c.lemma("E_squared", E * E * A == A - P, using=["E_def", "P_def", "A_def", "pre"], budget_ms=B)
    # (P - R)^2 + (P/mu)(r.v)^2 = R^2 E^2, in steps: (r.v)^2 = R^2 v^2 - mu P ; R^2 v^2 = mu (2 R - R^2/A)
    RV2 = c.ghost("RV2", rdv * rdv)
    V2 = c.ghost("V2", v2)
    c.lemma("rv_squared", RV2 == R * R * V2 - mu * P, using=["RV2", "V2", "lagrange_identity", "R_positive", "P_def"], budget_ms=B)
    c.lemma("vis_viva.g", V2 * R * A == mu * (2 * A - R), using=["vis_viva", "V2"], budget_ms=B)
    c.lemma("nu_radius.g", ((P - R) * (P - R) * mu + P * RV2) * A == R * R * (A - P) * mu, using=["rv_squared", "vis_viva.g", "A_def", "R_positive"], budget_ms=B)
    c.lemma("nu_radius", (P - R) * (P - R) * mu + P * rdv * rdv == R * R * E * E * mu, using=["nu_radius.g", "RV2", "E_squared", "A_def"], budget_ms=B)
    # the code's own intermediate quantities (same operations as the source, hence the same auxiliary variables)
    c.run.safety_using = ["pre"]
    hv = npx.cross(rv, vv)
    h_norm, r_norm, v_norm = npx.linalg.norm(hv), npx.linalg.norm(rv), npx.linalg.norm(vv)
    c.lemma("r_norm", r_norm == R, using=["R_positive"], budget_ms=B)
    c.lemma("h_norm", h_norm == H, using=["H_positive"], budget_ms=B)
    c.lemma("v_norm_squared", v_norm ** 2 == v2, using=[], budget_ms=B)
    c.run.safety_using = ["pre", "r_norm", "R_positive", "h_norm", "H_positive"]
    K = v_norm ** 2 / 2 - mu / r_norm
    c.lemma("K", K == energy, using=["v_norm_squared", "r_norm", "R_positive"], budget_ms=B)
    c.run.safety_using = ["pre", "r_norm", "R_positive", "h_norm", "H_positive", "K"]
    a_code = -mu / (2 * K)
    c.lemma("a_code", a_code == A, using=["K", "A", "pre"], budget_ms=B)
    c.run.safety_using = ["pre", "r_norm", "R_positive", "h_norm", "H_positive", "K", "a_code", "A_def"]
    ecc_arg = 1 - h_norm ** 2 / (a_code * mu)
    c.lemma("E_def.m", (1 - E * E) * (A * mu) == h2, using=["E_def", "A_def", "pre"], budget_ms=B)
    c.lemma("h_norm_squared", h_norm ** 2 == h2, using=["h_norm", "H_positive"], budget_ms=B)
    c.lemma("ecc_arg.m", (1 - ecc_arg) * (A * mu) == h2, using=["a_code", "h_norm_squared", "A_def", "pre"], budget_ms=B)
    c.lemma("ecc_arg", ecc_arg == E * E, using=["ecc_arg.m", "E_def.m", "A_def", "pre"], budget_ms=B)
    c.run.safety_using = ["pre", "ecc_arg", "E_def"]
    e_code = npx.sqrt(ecc_arg)
    c.lemma("e_code", e_code == E, using=["ecc_arg", "E_def"], budget_ms=B)
    p_code = a_code * (1 - e_code ** 2)
    c.lemma("p_code", p_code == P, using=["a_code", "e_code", "P"], budget_ms=B)
    c.run.safety_using = ["pre", "h_norm", "H_positive"]
    cos_i_arg = hv[2] / h_norm
    c.lemma("cos_i_arg", cos_i_arg * H == hz, using=["h_norm", "H_positive"], budget_ms=B)
    c.lemma("cos_i_range", sym.And(cos_i_arg >= -1, cos_i_arg <= 1), using=["cos_i_arg", "H_positive", "S_positive"], budget_ms=B)
    c.run.safety_using = ["pre", "cos_i_range", "p_code", "P_def", "r_norm", "R_positive", "h_norm", "H_positive", "K", "a_code", "A_def", "ecc_arg", "E_def"]
    c.lemma("sin_inc_arg", cos_i_arg * cos_i_arg * h2 + (hx * hx + hy * hy) == h2, using=["cos_i_arg", "H_positive"], budget_ms=B)
    c.run.safety_using = ["pre", "cos_i_range", "sin_inc_arg", "S_positive", "p_code", "P_def", "r_norm", "R_positive", "h_norm", "H_positive", "K", "a_code", "A_def", "ecc_arg", "E_def"]
    c.run.safety_assumed = {"arctan2": "the two arguments of each arctan2 are not both zero (S (sin, cos), R E (sin, cos), R (sin, cos) of an angle with S, R, E > 0): exercised by the bounded stand-in; numpy itself never raises here"}
    k = f([X, Y, Z, VX, VY, VZ])
    c.run.safety_assumed = {}
    c.lemma("elements.a", k[0] == A, using=["a_code"], budget_ms=B)
    c.lemma("elements.e", k[1] == E, using=["e_code"], budget_ms=B)
    ci, si = c.ghost("ci", sym.cos(k[2])), c.ghost("si", sym.sin(k[2]))
    cO, sO = c.ghost("cO", sym.cos(k[3])), c.ghost("sO", sym.sin(k[3]))
    cn, sn = c.ghost("cn", sym.cos(k[5])), c.ghost("sn", sym.sin(k[5]))
    c.lemma("cos_inc", ci * H == hz, using=["ci", "cos_i_arg", "@depth=2"], budget_ms=B)
    c.lemma("sin_inc", si * H == S, using=["si", "ci", "cos_inc", "H_positive", "S_positive", "@depth=2"], budget_ms=B)
    c.lemma("node", sym.And(cO * S == -hy, sO * S == hx), using=["cO", "sO", "S_positive", "@depth=2"], budget_ms=B)
    # true anomaly: atan2(sqrt(p/mu) (v.r), p - |r|), of radius R E
    root = npx.sqrt(p_code / mu)
    Q = c.ghost("Q", root)
    c.lemma("Q_def", sym.And(Q > 0, Q * Q * mu == P), using=["Q", "p_code", "P_def", "pre", "@depth=2"], budget_ms=B)
    vdotr = npx.dot(vv, rv)
    nu_y, nu_x = root * vdotr, p_code - r_norm
    c.lemma("nu_y", nu_y == Q * rdv, using=["Q"], budget_ms=B)
    c.lemma("nu_x", nu_x == P - R, using=["p_code", "r_norm"], budget_ms=B)
    RE = c.ghost("RE", R * E)
    c.lemma("RE_positive", sym.And(RE > 0, RE * RE * mu == (P - R) * (P - R) * mu + P * rdv * rdv), using=["RE", "R_positive", "E_def", "nu_radius"], budget_ms=B)
    c.lemma("nu_rho", (Q * rdv) * (Q * rdv) + (P - R) * (P - R) == RE * RE, using=["RE_positive", "Q_def", "pre"], budget_ms=B)
    nu_raw = npx.arctan2(nu_y, nu_x)       # the same terms as in the source: the same angle
    c.lemma("anomaly", sym.And(sym.cos(nu_raw) * RE == P - R, sym.sin(nu_raw) * RE == Q * rdv), using=["~nu_y", "~nu_x", "nu_rho", "RE_positive", "@depth=2"], budget_ms=B)
    c.lemma("anomaly.k", sym.And(cn * RE == P - R, sn * RE == Q * rdv), using=["anomaly", "cn", "sn", "@depth=2"], budget_ms=B)
    # argument of latitude: atan2(z / sin i, x cos W + y sin W), of radius R
    aol_y, aol_x = Z / sym.sin(k[2]), X * sym.cos(k[3]) + Y * sym.sin(k[3])
    c.lemma("aol_y", aol_y * si == Z, using=["si", "sin_inc", "S_positive", "H_positive", "@depth=2"], budget_ms=B)
    c.lemma("aol_x", aol_x == X * cO + Y * sO, using=["cO", "sO"], budget_ms=B)
    c.lemma("node_unit", cO * cO + sO * sO == 1, using=["node", "S_positive"], budget_ms=B)
    c.lemma("inc_unit", ci * ci + si * si == 1, using=["cos_inc", "sin_inc", "S_positive", "H_positive"], budget_ms=B)
    GY = c.ghost("GY", aol_y)
    c.lemma("GY_def", GY * si == Z, using=["GY", "aol_y"], budget_ms=B)
    c.lemma("z_in_plane", Z * ci == -(X * sO - Y * cO) * si, using=["h_perp_r", "node", "cos_inc", "sin_inc", "S_positive", "H_positive"], budget_ms=B)
    c.lemma("aol_rho", (X * cO + Y * sO) * (X * cO + Y * sO) + GY * GY == R * R, using=["GY_def", "z_in_plane", "node_unit", "inc_unit", "R_positive", "sin_inc", "S_positive", "H_positive"], budget_ms=B)
    aol = npx.arctan2(aol_y, aol_x)
    ca, sa = c.ghost("ca", sym.cos(aol)), c.ghost("sa", sym.sin(aol))
    c.lemma("aol", sym.And(ca * R == X * cO + Y * sO, sa * R == GY), using=["ca", "sa", "~aol_x", "~GY", "aol_rho", "R_positive", "@depth=2"], budget_ms=B)
    c.lemma("aol_unit", ca * ca + sa * sa == 1, using=["ca", "sa", "@depth=2"], budget_ms=B)
    c.lemma("nu_unit", cn * cn + sn * sn == 1, using=["cn", "sn", "@depth=2"], budget_ms=B)
    # omega + nu as the source recombines them: (aol - nu) % 2 pi + nu % 2 pi has the cosine and sine of aol
    u_back = k[4] + k[5]
    cub, sub = c.ghost("cub", sym.cos(u_back)), c.ghost("sub", sym.sin(u_back))
    c.lemma("u_back", sym.And(cub == ca, sub == sa), using=["cub", "sub", "ca", "sa", "cn", "sn", "nu_unit", "@depth=2"], budget_ms=B)
    # back to cartesian
    p_b = k[0] * (1 - k[1] ** 2)
    c.lemma("p_back", p_b == P, using=["elements.a", "elements.e", "P"], budget_ms=B)
    den_b = 1 + k[1] * sym.cos(k[5])
    c.lemma("den_back", den_b * R == P, using=["elements.e", "cn", "anomaly.k", "RE", "R_positive", "E_def"], budget_ms=B)
    c.run.safety_using = ["pre", "p_back", "den_back", "R_positive", "P_def"]
    r_b = p_b / den_b
    c.lemma("radius_back", r_b == R, using=["p_back", "den_back", "R_positive", "P_def"], budget_ms=B)
    c.run.safety_using = ["pre", "p_back", "den_back", "radius_back", "R_positive", "P_def"]
    y = g(list(k))
    c.lemma("position.2", y[2] == Z, using=["~radius_back", "si", "sub", "u_back", "aol", "GY_def", "R_positive", "@depth=2"], budget_ms=B)
    # x and y: R (cos W cos u - sin W sin u cos i) with cos u = (x cos W + y sin W)/R, sin u = z/(R sin i), and z cos i = -(x sin W - y cos W) sin i
    c.lemma("sa_ci", sa * R * ci == -(X * sO - Y * cO), using=["aol", "GY_def", "z_in_plane", "sin_inc", "S_positive", "H_positive"], budget_ms=B)
    c.lemma("position.0.g", R * (cO * ca - sO * sa * ci) == X, using=["aol", "sa_ci", "node_unit"], budget_ms=B)
    c.lemma("position.1.g", R * (sO * ca + cO * sa * ci) == Y, using=["aol", "sa_ci", "node_unit"], budget_ms=B)
    c.lemma("position.0", y[0] == X, using=["~radius_back", "cO", "sO", "ci", "cub", "sub", "u_back", "position.0.g", "@depth=2"], budget_ms=B)
    c.lemma("position.1", y[1] == Y, using=["~radius_back", "cO", "sO", "ci", "cub", "sub", "u_back", "position.1.g", "@depth=2"], budget_ms=B)
    c.ensure("position", sym.And(y[0] == X, y[1] == Y, y[2] == Z), using=["position.0", "position.1", "position.2"], budget_ms=B)
    # velocity: (r.v / R^2) r + (h x r) / R^2 (BAC-CAB), which the source writes as  pos * h e sin(nu) / (r p)  -+  (h / r) (transverse direction)
    h_b = npx.sqrt(mu * p_b)
    c.lemma("h_back", h_b == H, using=["p_back", "P_def", "H_positive", "@depth=2"], budget_ms=B)
    c.lemma("HQ", H * Q == P, using=["Q_def", "P_def", "H_positive"], budget_ms=B)
    c.lemma("radial_rate", H * E * sn * R == P * rdv, using=["anomaly.k", "RE", "HQ", "R_positive", "E_def"], budget_ms=B)
    c.lemma("bac_cab.0", r2 * VX == X * rdv + (hy * Z - hz * Y), using=[], budget_ms=B)
    c.lemma("bac_cab.1", r2 * VY == Y * rdv + (hz * X - hx * Z), using=[], budget_ms=B)
    c.lemma("bac_cab.2", r2 * VZ == Z * rdv + (hx * Y - hy * X), using=[], budget_ms=B)
    geo = ["aol", "GY_def", "cos_inc", "sin_inc", "node", "h_perp_r", "S_positive", "H_positive", "R_positive"]
    c.lemma("b1", (H * R * sa) * S == H * H * Z, using=["aol", "GY_def", "sin_inc", "S_positive", "H_positive"], budget_ms=B)
    c.lemma("b2", (R * ca) * S == Y * hx - X * hy, using=["aol", "node"], budget_ms=B)
    S2 = hx * hx + hy * hy
    c.lemma("t0.num", H * H * Z * hy - hx * hz * (Y * hx - X * hy) == (hy * Z - hz * Y) * S2, using=["h_perp_r", "H_positive"], budget_ms=B)
    c.lemma("t1.num", -(H * H * Z * hx) - hy * hz * (Y * hx - X * hy) == (hz * X - hx * Z) * S2, using=["h_perp_r", "H_positive"], budget_ms=B)
    tA, tB = c.ghost("tA", H * R * sa), c.ghost("tB", R * ca)
    c.lemma("b1.g", tA * S == H * H * Z, using=["b1", "tA"], budget_ms=B)
    c.lemma("b2.g", tB * S == Y * hx - X * hy, using=["b2", "tB"], budget_ms=B)
    c.lemma("t0.scaled", -(tA * S * (cO * S) + (sO * S) * (tB * S) * (ci * H)) == (hy * Z - hz * Y) * S2, using=["b1.g", "b2.g", "cos_inc", "node", "t0.num"], budget_ms=B)
    c.lemma("t1.scaled", -(tA * S * (sO * S) - (cO * S) * (tB * S) * (ci * H)) == (hz * X - hx * Z) * S2, using=["b1.g", "b2.g", "cos_inc", "node", "t1.num"], budget_ms=B)
    c.lemma("transverse.0.g", -(tA * cO + sO * tB * ci * H) == hy * Z - hz * Y, using=["t0.scaled", "S_positive"], budget_ms=B)
    c.lemma("transverse.1.g", -(tA * sO - cO * tB * ci * H) == hz * X - hx * Z, using=["t1.scaled", "S_positive"], budget_ms=B)
    c.lemma("transverse.0", -(H * R) * (cO * sa + sO * ca * ci) == hy * Z - hz * Y, using=["transverse.0.g", "tA", "tB"], budget_ms=B)
    c.lemma("transverse.1", -(H * R) * (sO * sa - cO * ca * ci) == hz * X - hx * Z, using=["transverse.1.g", "tA", "tB"], budget_ms=B)
    c.lemma("transverse.2", (H * R) * (si * ca) == hx * Y - hy * X, using=geo, budget_ms=B)
    # the three velocity components, on ghost names first
    rad = c.ghost("rad", H * E * sn / (R * P))
    c.lemma("rad_def", rad * (R * R) == rdv, using=["rad", "radial_rate", "R_positive", "P_def"], budget_ms=B)
    tr = c.ghost("tr", H / R)
    c.lemma("tr_def", tr * R == H, using=["tr", "R_positive"], budget_ms=B)
    c.lemma("velocity.0.g", X * rad - tr * (cO * sa + sO * ca * ci) == VX, using=["rad_def", "tr_def", "transverse.0", "bac_cab.0", "R_positive"], budget_ms=B)
    c.lemma("velocity.1.g", Y * rad - tr * (sO * sa - cO * ca * ci) == VY, using=["rad_def", "tr_def", "transverse.1", "bac_cab.1", "R_positive"], budget_ms=B)
    c.lemma("velocity.2.g", Z * rad + tr * si * ca == VZ, using=["rad_def", "tr_def", "transverse.2", "bac_cab.2", "R_positive"], budget_ms=B)
    # ... then on the terms the source built: pos * h * e / (r * p) * sin(nu) -+ h / r * (...)
    rad_code = [y[j] * h_b * k[1] / (r_b * p_b) * sym.sin(k[5]) for j in range(3)]
    for j, Pj in enumerate((X, Y, Z)):
        c.lemma(f"radial_term.{j}", rad_code[j] == Pj * rad, using=[f"position.{j}", "h_back", "elements.e", "radius_back", "p_back", "sn", "rad", "R_positive", "P_def", "@depth=2"], budget_ms=B)
    tr_code = h_b / r_b
    c.lemma("transverse_factor", tr_code == tr, using=["h_back", "radius_back", "tr", "R_positive", "@depth=2"], budget_ms=B)
    common = ["~transverse_factor", "cO", "sO", "ci", "si", "cub", "sub", "u_back", "@depth=2"]
    c.lemma("velocity.0", y[3] == VX, using=["~radial_term.0", "velocity.0.g"] + common, budget_ms=B)
    c.lemma("velocity.1", y[4] == VY, using=["~radial_term.1", "velocity.1.g"] + common, budget_ms=B)
    c.lemma("velocity.2", y[5] == VZ, using=["~radial_term.2", "velocity.2.g"] + common, budget_ms=B)
    c.ensure("velocity", sym.And(y[3] == VX, y[4] == VY, y[5] == VZ), using=["velocity.0", "velocity.1", "velocity.2"], budget_ms=B)
