"""pyvc.contract -- sidecar contract registry and the two execution modes of a contract body.

A contract body is ordinary Python written against the `Ctx` API.  The same body is run
  * symbolically (SymCtx): inputs are z3-backed values, the real source of the function under
    contract is executed by CPython on them path by path, `ensure` emits named obligations;
  * concretely (ConcCtx): inputs are floats taken from a solver model (replay of a
    counterexample on the real, unmodified function) or from an explicit grid (bounded stand-in).
"""
import importlib
import os
import math
import traceback

import numpy as np
import z3

from . import sym
from .loader import World, LoopSpec  # noqa: F401  (re-exported for contracts)

PROPS = {}


class ContractDef:
    def __init__(self, pid, name, fn, funcs, grid, level, assumptions, rtol, atol, doc):
        self.pid, self.name, self.fn, self.funcs = pid, name, fn, list(funcs)
        self.grid, self.level, self.assumptions = grid, level, list(assumptions)
        self.rtol, self.atol, self.doc = rtol, atol, doc

    @property
    def full(self):
        return f"{self.pid}.{self.name}"


def contract(pid, name, funcs=(), grid=None, level="proof", assumptions=(), rtol=1e-9, atol=1e-9):
    """level: proof (symbolic obligations + optional grid as bounded stand-in / replay harness),
    bounded (grid only), finite (concrete exhaustive enumeration; body run once, concretely)"""
    def deco(fn):
        PROPS.setdefault(pid, []).append(ContractDef(pid, name, fn, funcs, grid, level, assumptions, rtol, atol, fn.__doc__))
        return fn
    return deco


class Skip(Exception):
    """precondition not met by this concrete input"""


# --------------------------------------------------------------------------------------------
# common helpers available on both contexts
# --------------------------------------------------------------------------------------------

class _Base:
    symbolic = False

    def all_eq(self, A, B, **kw):
        A, B = np.asarray(A, dtype=object), np.asarray(B, dtype=object)
        if A.shape != B.shape:
            return False
        return self.conj([self.eq(a, b, **kw) for a, b in zip(A.ravel(), B.ravel())])

    def conj(self, xs):
        return sym.And(*xs) if xs else True

    def vec(self, name, n, **kw):
        out = np.empty(n, dtype=object)
        for i in range(n):
            out[i] = self.real(f"{name}{i}", **kw)
        return out if self.symbolic else out.astype(float)

    def mat(self, name, n, m):
        out = np.empty((n, m), dtype=object)
        for i in range(n):
            for j in range(m):
                out[i, j] = self.real(f"{name}{i}{j}")
        return out if self.symbolic else out.astype(float)


# --------------------------------------------------------------------------------------------
# symbolic context
# --------------------------------------------------------------------------------------------

class SymCtx(_Base):
    symbolic = True

    def __init__(self, run, cdef):
        self.run, self.cdef = run, cdef
        self.worlds = []
        self.assumed = {}

    # inputs --------------------------------------------------------------------------------
    def real(self, name, lo=None, hi=None, lo_strict=True, hi_strict=True):
        v = z3.Real(name)
        self.run.inputs[name] = v
        x = sym.SReal(v)
        if lo is not None:
            self.require(x > lo if lo_strict else x >= lo, f"{name}.lo")
        if hi is not None:
            self.require(x < hi if hi_strict else x <= hi, f"{name}.hi")
        return x

    def ghost(self, name, expr):
        """a ghost name for an expression: a fresh variable defined equal to it (a definitional extension: the variable occurs nowhere in the code, so this restricts
        nothing).  Later clauses can then talk about the name and leave its definition out of their hypotheses (`using`), which keeps the solver's problem small."""
        v = sym.SReal(z3.Real(f"ghost!{name}"))
        self.run.add_fact("ghost", name, sym.lift_bool(v == expr))
        return v

    def integer(self, name, lo=None, hi=None):
        v = z3.Int(name)
        self.run.inputs[name] = v
        x = sym.SInt(v)
        if lo is not None:
            self.require(x >= lo, f"{name}.lo")
        if hi is not None:
            self.require(x <= hi, f"{name}.hi")
        return x

    def boolean(self, name):
        v = z3.Bool(name)
        self.run.inputs[name] = v
        return sym.SBool(v)

    def choice(self, name, options):
        """a finite choice made by forking (one path per option)"""
        self.run.choices = getattr(self.run, "choices", {})
        for i, o in enumerate(options[:-1]):
            b = z3.Bool(f"{name}=={i}")
            if sym.SBool(b).__bool__():
                self.run.choices[name] = i
                return o
        self.run.choices[name] = len(options) - 1
        return options[-1]

    @property
    def pi(self):
        return sym.SReal(self.run.pi)

    # facts ---------------------------------------------------------------------------------
    def require(self, cond, label="pre"):
        if isinstance(cond, (bool, np.bool_)):
            if not cond:
                raise sym.PathEnd("precondition false")
            return
        self.run.add_fact("pre", label, sym.lift_bool(cond))

    def ensure(self, label, cond, using=None, budget_ms=None):
        meta = {}
        if budget_ms:
            meta["budget_ms"] = budget_ms
        if isinstance(cond, (bool, np.bool_)):
            cond = z3.BoolVal(bool(cond))
        self.run.oblige(label, "post", cond, using=using, meta=meta)

    def ensure_nf(self, label, a, b):
        """equality of abstract matrices, decided by normal forms (pyvc.amat)"""
        ok = a.same(b)
        self.run.oblige(label, "post", z3.BoolVal(bool(ok)), using=[], meta={"decided_by": "amat-normal-form", "lhs": repr(a), "rhs": repr(b)})

    def lemma(self, label, cond, using=None, budget_ms=None):
        """assert-then-assume ghost step (splits a hard obligation)"""
        meta = {"budget_ms": budget_ms} if budget_ms else {}
        self.run.oblige(label, "lemma", cond, using=using, meta=meta)
        self.run.add_fact("lemma", label, sym.lift_bool(cond))

    def axiom(self, label, cond, why):
        """trusted mathematics, listed in the evidence"""
        self.run.axioms_used.add(f"{label}: {why}")
        self.run.add_fact("axiom", label, sym.lift_bool(cond))

    def assumed(self, label, why):
        self.run.assumed_used[label] = why

    def principal(self, label, a, using=None):
        """for an angle proved to lie in (-pi, pi]: make the sign relations between the angle and its (cos, sin) available
        (cos > 0 iff |a| < pi/2, sin > 0 iff 0 < a < pi, ...): trusted facts about cos/sin on the principal interval"""
        self.run.oblige(label + ".in_principal_interval", "lemma", sym.And(a > -self.pi, a <= self.pi), using=using)
        e = sym.real_expr(a)
        cc, ss = sym.cossin(e)
        sym._sign_axioms_facts(self.run, label, e, cc, ss)

    def same_angle(self, label, a, b, lo, using=None, closed="left"):
        """a == b from equal (cos, sin) and a, b in the same half-open interval [lo, lo+2pi):
        obligations for the premises, then the conclusion is assumed (injectivity of
        t -> (cos t, sin t) on a half-open interval of length 2pi: trusted)"""
        two_pi = 2 * self.pi
        if closed == "left":
            rng = sym.And(a >= lo, a < lo + two_pi, b >= lo, b < lo + two_pi)
        else:
            rng = sym.And(a > lo, a <= lo + two_pi, b > lo, b <= lo + two_pi)
        prem = sym.And(sym.cos(a) == sym.cos(b), sym.sin(a) == sym.sin(b), rng)
        self.run.oblige(label + ".premises", "lemma", prem, using=using)
        self.run.axioms_used.add("t -> (cos t, sin t) is injective on any half-open interval of length 2pi")
        self.run.add_fact("lemma", label, sym.lift_bool(a == b))

    # comparisons ---------------------------------------------------------------------------
    def eq(self, a, b, **kw):
        return a == b

    def le(self, a, b, **kw):
        return a <= b

    def lt(self, a, b, **kw):
        return a < b

    def is_true(self, x):
        return x

    # code under verification ---------------------------------------------------------------
    def world(self, stubs=None, loops=None, np_hooks=None, names=None, comps=False):
        w = World(stubs, loops, np_hooks, names, comps)
        self.worlds.append(w)
        return w

    def fn(self, ref, **kw):
        return self.world(**kw).fn(ref)

    def raises(self, exc, thunk):
        """True iff thunk() raises exc on this path"""
        try:
            thunk()
        except exc:
            return True
        return False


# --------------------------------------------------------------------------------------------
# concrete context
# --------------------------------------------------------------------------------------------

class ConcCtx(_Base):
    symbolic = False

    def __init__(self, cdef, assign, default=0.0):
        self.cdef, self.assign, self.default = cdef, assign, default
        self.failures = []
        self.checked = []
        self.used = {}

    def _get(self, name, kind):
        if name in self.assign:
            v = self.assign[name]
        else:
            v = self.default
        v = int(v) if kind == "int" else (bool(v) if kind == "bool" else float(v))
        self.used[name] = v
        return v

    def real(self, name, lo=None, hi=None, lo_strict=True, hi_strict=True):
        v = self._get(name, "real")
        if lo is not None and not (v > lo if lo_strict else v >= lo):
            raise Skip(name)
        if hi is not None and not (v < hi if hi_strict else v <= hi):
            raise Skip(name)
        return v

    def integer(self, name, lo=None, hi=None):
        v = self._get(name, "int")
        if (lo is not None and v < lo) or (hi is not None and v > hi):
            raise Skip(name)
        return v

    def boolean(self, name):
        return self._get(name, "bool")

    def choice(self, name, options):
        i = int(self.assign.get(name, 0))
        self.used[name] = i
        return options[i % len(options)]

    pi = math.pi

    def require(self, cond, label="pre"):
        if not bool(cond):
            raise Skip(label)

    def ensure(self, label, cond, using=None, budget_ms=None):
        ok = bool(cond)
        self.checked.append(label)
        if not ok:
            self.failures.append(label)

    def lemma(self, label, cond, using=None, budget_ms=None):
        self.ensure(label, cond)

    def axiom(self, label, cond, why):
        pass

    def assumed(self, label, why):
        pass

    def principal(self, label, a, using=None):
        """for an angle proved to lie in (-pi, pi]: make the sign relations between the angle and its (cos, sin) available
        (cos > 0 iff |a| < pi/2, sin > 0 iff 0 < a < pi, ...): trusted facts about cos/sin on the principal interval"""
        self.run.oblige(label + ".in_principal_interval", "lemma", sym.And(a > -self.pi, a <= self.pi), using=using)
        e = sym.real_expr(a)
        cc, ss = sym.cossin(e)
        sym._sign_axioms_facts(self.run, label, e, cc, ss)

    def same_angle(self, label, a, b, lo, using=None, closed="left"):
        pass

    def eq(self, a, b, rtol=None, atol=None, scale=None):
        rtol = self.cdef.rtol if rtol is None else rtol
        atol = self.cdef.atol if atol is None else atol
        a, b = float(a), float(b)
        if a != a or b != b:
            return False
        s = max(abs(a), abs(b)) if scale is None else abs(float(scale))
        return abs(a - b) <= atol + rtol * s

    def le(self, a, b, rtol=None, atol=None):
        rtol = self.cdef.rtol if rtol is None else rtol
        atol = self.cdef.atol if atol is None else atol
        return float(a) <= float(b) + atol + rtol * max(abs(float(a)), abs(float(b)))

    def lt(self, a, b, **kw):
        return self.le(a, b, **kw)

    def is_true(self, x):
        return bool(x)

    def world(self, **kw):
        return _RealWorld()

    def fn(self, ref, **kw):
        return _RealWorld().fn(ref)

    def raises(self, exc, thunk):
        try:
            thunk()
        except exc:
            return True
        return False


class _RealWorld:
    """concrete mode: the real, unmodified functions"""

    def fn(self, ref):
        modname, qual = ref.split(":")
        o = importlib.import_module(modname)
        for p in qual.split("."):
            o = getattr(o, p)
        return o

    def cls(self, ref):
        return self.fn(ref)

    def obj(self, ref, **attrs):
        """an instance of the real class with the given attributes, __init__ not run (the counterpart of World.obj)"""
        real = self.fn(ref)
        o = real.__new__(real)
        for k, v in attrs.items():
            object.__setattr__(o, k, v)
        return o

    def new(self, ref, *a, **k):
        return self.fn(ref)(*a, **k)

    @property
    def np(self):
        return np


# --------------------------------------------------------------------------------------------
# drivers
# --------------------------------------------------------------------------------------------

MAX_PATHS = 1500


def run_symbolic(cdef):
    """execute the contract body on every feasible path; returns dict with obligations etc."""
    pending = [[]]
    obls, errors, paths = [], [], 0
    axioms, assumed, loaded, stub_calls = set(), {}, {}, {}
    names_seen = {}
    while pending:
        sched = pending.pop()
        sym.reset_caches()
        run = sym.Run(sched)
        sym.CUR = run
        c = SymCtx(run, cdef)
        ended = None
        try:
            cdef.fn(c)
        except sym.PathEnd as e:
            ended = str(e)
        except sym.EngineLimit as e:
            errors.append(f"{cdef.full} path {paths}: engine limit: {e}")
        except RecursionError as e:
            errors.append(f"{cdef.full} path {paths}: recursion: {e}")
        except Exception as e:  # the code under verification raised on a (possibly feasible) path
            tb = traceback.format_exc(limit=6)
            run.oblige(f"noexcept.{type(e).__name__}", "post", z3.BoolVal(False), meta={"exception": f"{e!r}", "tb": tb})
        finally:
            sym.CUR = None
        pending.extend(run.pending)
        if ended == "infeasible":
            continue
        # vacuity guard: the path's assumptions must be satisfiable (cover)
        cover = sym.Obligation("cover", "cover", run.context(), z3.BoolVal(False), {})
        for o in run.obls + [cover]:
            base = f"{cdef.full}.{o.name}"
            k = names_seen.get((base, paths), 0)
            names_seen[(base, paths)] = k + 1
            o.meta["clause"] = base
            o.meta["path"] = paths
            o.meta["inputs"] = sorted(run.inputs)
            o.meta["choices"] = dict(getattr(run, "choices", {}))
            o.meta["trig_inputs"] = {str(a): (str(cc), str(ss)) for (a, cc, ss) in run.trig.values()
                                     if str(a) in run.inputs and z3.is_const(cc) and z3.is_const(ss)}
            o.name = f"{base}@p{paths}" + (f".{k}" if k else "")
            obls.append(o)
        axioms |= run.axioms_used
        assumed.update(run.assumed_used)
        for w in c.worlds:
            loaded.update(w.loaded)
            for k2, v in w.stub_calls.items():
                stub_calls[k2] = stub_calls.get(k2, 0) + v
        paths += 1
        if paths > MAX_PATHS:
            errors.append(f"{cdef.full}: more than {MAX_PATHS} paths")
            break
    return {"obligations": obls, "errors": errors, "paths": paths, "axioms": sorted(axioms), "assumed": assumed,
            "loaded": loaded, "stub_calls": stub_calls}


def run_concrete(cdef, assign):
    """returns (status, failures, ctx) with status in ok|skip|fail|error"""
    c = ConcCtx(cdef, assign)
    try:
        with np.errstate(all="ignore"):
            cdef.fn(c)
    except Skip:
        return "skip", [], c
    except sym.PathEnd:
        return "skip", [], c
    except Exception as e:
        # where was it raised: in the code under verification, or in the harness / contract (not a reproduction of anything)
        tb, origin = e.__traceback__, ""
        while tb is not None:
            origin = tb.tb_frame.f_code.co_filename
            tb = tb.tb_next
        c.exc_in_repo = os.path.realpath(origin).startswith(os.path.realpath(os.environ.get("BEYOND_REPO", "/repo")) + os.sep)
        c.failures.append(f"exception:{type(e).__name__}:{e}" + ("" if c.exc_in_repo else " [raised in the harness]"))
        return "error", c.failures, c
    return ("fail" if c.failures else "ok"), c.failures, c


def parse_model_value(s):
    s = str(s)
    try:
        if "/" in s:
            a, b = s.split("/")
            return int(a) / int(b)
        if s in ("True", "False"):
            return s == "True"
        return float(s)
    except Exception:
        return 0.0
