"""pyvc.snp -- the `np` seen by code under verification.

numpy itself performs every structural operation (indexing, slicing, @, cross, tile, diag, masks,
concatenate ...) on dtype=object arrays whose leaves are symbolic scalars.  The proxy only
(i) creates constant arrays with dtype=object instead of float (a float array refuses a symbolic
element), (ii) drops a `dtype=float` request when the data is symbolic, (iii) routes elementwise
transcendental functions to pyvc.sym, and (iv) replaces np.linalg.norm/inv by their definitions /
assumed contract.  (DESIGN §2.1: this is the complete list of what the extraction changes.)
"""
import builtins

import numpy as np

from . import sym
from .sym import SNum, Dual, is_sym


def _objarr(a):
    out = np.empty(a.shape, dtype=object)
    flat = a.ravel()
    o = out.ravel()
    for i in range(flat.size):
        v = flat[i]
        if isinstance(v, (np.floating, float)):
            fv = float(v)
            o[i] = int(fv) if fv == int(fv) and abs(fv) < 2 ** 53 else fv
        elif isinstance(v, np.integer):
            o[i] = int(v)
        else:
            o[i] = v
    return o.reshape(a.shape)


class _Linalg:
    def __init__(self, owner):
        self._owner = owner

    def norm(self, v, *a, **k):
        if isinstance(v, np.ndarray) and v.dtype == object or is_sym(v):
            v = np.asarray(v, dtype=object)
            if a or k:
                raise sym.EngineLimit("np.linalg.norm with extra arguments on symbolic data")
            acc = 0
            for x in v.ravel():
                acc = acc + x * x
            return sym.sqrt(acc)
        return np.linalg.norm(v, *a, **k)

    def inv(self, m):
        if isinstance(m, np.ndarray) and m.dtype == object and is_sym(m):
            h = self._owner.hooks.get("inv")
            if h is None:
                raise sym.EngineLimit("np.linalg.inv of a symbolic matrix without an assumed contract")
            return h(m)
        return np.linalg.inv(np.asarray(m, dtype=float))

    def __getattr__(self, name):
        return getattr(np.linalg, name)


class StoreBase(np.ndarray):
    """memory of a stand-in for an ndarray subclass instance (object dtype, symbolic leaves): `setfield(values, dtype=float)`
    -- the idiom beyond uses to overwrite all coordinates in place -- stores the values; every write is logged"""

    def __new__(cls, values):
        vals = list(values)
        a = np.ndarray.__new__(cls, (len(vals),), dtype=object)
        for i, v in enumerate(vals):
            np.ndarray.__setitem__(a, i, v)
        a.writes = []
        return a

    def __array_finalize__(self, obj):
        self.writes = getattr(obj, "writes", [])

    def setfield(self, val, dtype=None, offset=0):
        val = np.asarray(val, dtype=object)
        if offset or val.shape != self.shape:
            raise sym.EngineLimit("setfield on a stand-in array with an offset / another shape")
        self.writes.append(("setfield", tuple(val.ravel())))
        for i, v in enumerate(val.ravel()):
            np.ndarray.__setitem__(self, i, v)

    def __setitem__(self, k, v):
        self.writes.append(("setitem", k, v))
        np.ndarray.__setitem__(self, k, v)


def make_store(values):
    """(view, base): `view.base is base`, as for an ndarray subclass instance created over a buffer"""
    base = StoreBase(values)
    return base.view(), base


class _NDMeta(type):
    def __instancecheck__(cls, x):
        return isinstance(x, np.ndarray)

    def __subclasscheck__(cls, x):
        return issubclass(x, np.ndarray)

    def __getattr__(cls, name):
        return getattr(np.ndarray, name)


def _ndarray_proxy(owner):
    class ndarray(metaclass=_NDMeta):
        """np.ndarray as seen by shadow code: `np.ndarray.__new__(cls, shape, buffer=..., dtype=...)` for a stand-in class
        builds a stand-in instance over its own store (hook 'ndarray_new'); everything else is numpy's"""
        __pv_real__ = np.ndarray

        def __new__(cls, *a, **k):
            if hasattr(cls, "_pv_real"):
                h = owner.hooks.get("ndarray_new")
                if h is None:
                    raise sym.EngineLimit("np.ndarray.__new__ for a stand-in class without a hook")
                return h(cls, *a, **k)
            if cls is ndarray:
                return np.ndarray(*a, **k)
            return np.ndarray.__new__(cls, *a, **k)
    return ndarray


class NP:
    """stand-in for the numpy module inside shadow namespaces"""

    def __init__(self):
        self.hooks = {}
        self.linalg = _Linalg(self)
        self.ndarray = _ndarray_proxy(self)

    def __getattr__(self, name):
        return getattr(np, name)

    @property
    def pi(self):
        return sym.SReal(sym.cur().pi) if sym.CUR is not None else np.pi

    def array(self, obj, dtype=None, **kw):
        if sym.CUR is not None:
            # constant arrays become object arrays too, so that later stores of symbolic
            # elements (out[:3,:3] = m) are possible; values are unchanged
            a = np.array(obj, dtype=object, **kw)
            if is_sym(a):
                return a
            if dtype in (None, float, int) and a.dtype == object:
                try:
                    return _objarr(np.array(obj, dtype=dtype, **kw))
                except (TypeError, ValueError):
                    return a
        return np.array(obj, dtype=dtype, **kw)

    def asarray(self, obj, dtype=None, **kw):
        if isinstance(obj, np.ndarray) and dtype is None:
            return np.asarray(obj)
        return self.array(obj, dtype=dtype, **kw)

    def zeros(self, shape, dtype=None, **kw):
        if sym.CUR is not None and dtype in (None, float):
            a = np.empty(shape, dtype=object)
            a.fill(0)
            return a
        return np.zeros(shape, dtype=dtype or float, **kw)

    def ones(self, shape, dtype=None, **kw):
        if sym.CUR is not None and dtype in (None, float):
            a = np.empty(shape, dtype=object)
            a.fill(1)
            return a
        return np.ones(shape, dtype=dtype or float, **kw)

    def identity(self, n, dtype=None):
        if sym.CUR is not None and dtype in (None, float):
            return _objarr(np.identity(n))
        return np.identity(n, dtype=dtype)

    def eye(self, n, *a, **k):
        if sym.CUR is not None:
            return _objarr(np.eye(n, *a, **k))
        return np.eye(n, *a, **k)

    # elementwise functions
    cos = staticmethod(sym.cos)
    sin = staticmethod(sym.sin)
    tan = staticmethod(sym.tan)
    arccos = staticmethod(sym.arccos)
    arcsin = staticmethod(sym.arcsin)
    arctan = staticmethod(sym.arctan)
    arctan2 = staticmethod(sym.arctan2)
    cosh = staticmethod(sym.cosh)
    sinh = staticmethod(sym.sinh)
    arctanh = staticmethod(sym.arctanh)
    arccosh = staticmethod(sym.arccosh)
    arcsinh = staticmethod(sym.arcsinh)
    sqrt = staticmethod(sym.sqrt)
    radians = staticmethod(sym.radians)
    deg2rad = staticmethod(sym.radians)
    degrees = staticmethod(sym.degrees)
    rad2deg = staticmethod(sym.degrees)

    def ceil(self, x):
        return sym.ceil(x) if isinstance(x, SNum) else np.ceil(x)

    def floor(self, x):
        return sym.floor(x) if isinstance(x, SNum) else np.floor(x)

    def fmod(self, x, y):
        return sym.fmod(x, y) if isinstance(x, SNum) or isinstance(y, SNum) else np.fmod(x, y)

    def sign(self, x):
        if isinstance(x, SNum):
            return sym.sign(x)
        return np.sign(x)

    def abs(self, x):
        if isinstance(x, SNum):
            return builtins.abs(x)
        return np.abs(x)

    fabs = abs
    absolute = abs

    def cross(self, a, b, **kw):
        a, b = np.asarray(a, dtype=object) if is_sym(a) else a, np.asarray(b, dtype=object) if is_sym(b) else b
        if (isinstance(a, np.ndarray) and a.dtype == object) or (isinstance(b, np.ndarray) and b.dtype == object):
            a = np.asarray(a, dtype=object)
            b = np.asarray(b, dtype=object)
            if a.shape == (3,) and b.shape == (3,) and not kw:
                out = np.empty(3, dtype=object)
                out[0] = a[1] * b[2] - a[2] * b[1]
                out[1] = a[2] * b[0] - a[0] * b[2]
                out[2] = a[0] * b[1] - a[1] * b[0]
                return out
            raise sym.EngineLimit("np.cross on symbolic data of this shape")
        return np.cross(a, b, **kw)

    def dot(self, a, b):
        if is_sym(a) or is_sym(b):
            a = np.asarray(a, dtype=object)
            b = np.asarray(b, dtype=object)
        return np.dot(a, b)

    def isclose(self, a, b, rtol=1e-05, atol=1e-08, equal_nan=False):
        if isinstance(a, SNum) or isinstance(b, SNum):
            # numpy's definition over the reals (S1): |a - b| <= atol + rtol * |b|
            return builtins.abs(a - b) <= sym.nice_rational(atol) + sym.nice_rational(rtol) * builtins.abs(b)
        if is_sym(a) or is_sym(b):
            raise sym.EngineLimit("np.isclose on symbolic arrays")
        return np.isclose(a, b, rtol=rtol, atol=atol, equal_nan=equal_nan)


NUMPY_FUNCS = {
    np.cos: sym.cos, np.sin: sym.sin, np.tan: sym.tan, np.arccos: sym.arccos, np.arcsin: sym.arcsin,
    np.arctan: sym.arctan, np.arctan2: sym.arctan2, np.cosh: sym.cosh, np.sinh: sym.sinh,
    np.arctanh: sym.arctanh, np.arcsinh: sym.arcsinh, np.arccosh: sym.arccosh, np.sqrt: sym.sqrt, np.radians: sym.radians, np.degrees: sym.degrees,
    np.deg2rad: sym.radians, np.rad2deg: sym.degrees, np.ceil: (lambda x: sym.ceil(x) if isinstance(x, SNum) else np.ceil(x)),
    np.floor: (lambda x: sym.floor(x) if isinstance(x, SNum) else np.floor(x)),
    np.fmod: (lambda x, y: sym.fmod(x, y) if isinstance(x, SNum) or isinstance(y, SNum) else np.fmod(x, y)),
}
