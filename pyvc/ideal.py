"""pyvc.ideal -- ideal-membership back end.

An obligation  (h1 = 0 & ... & hn = 0 & other facts) ==> g = 0  over polynomials is proved by
finding cofactors q_i with  g = sum q_i h_i  (sympy multivariate division, several orders).  The
cofactor certificate is RE-CHECKED here by plain expansion in exact rationals with an independent
dictionary-polynomial implementation, so sympy is not trusted.  Non-equational hypotheses are
ignored (proving from a subset of the hypotheses is sound).  No certificate => unknown.
"""
import time
from fractions import Fraction

import z3


# ---- own exact polynomials: {monomial(tuple of (var,exp) sorted): Fraction} ------------------

def p_const(c):
    c = Fraction(c)
    return {(): c} if c else {}


def p_var(v):
    return {((v, 1),): Fraction(1)}


def p_add(a, b, sign=1):
    out = dict(a)
    for m, c in b.items():
        n = out.get(m, 0) + sign * c
        if n:
            out[m] = n
        else:
            out.pop(m, None)
    return out


def _mmul(m1, m2):
    d = dict(m1)
    for v, e in m2:
        d[v] = d.get(v, 0) + e
    return tuple(sorted(d.items()))


def p_mul(a, b):
    out = {}
    for m1, c1 in a.items():
        for m2, c2 in b.items():
            m = _mmul(m1, m2)
            n = out.get(m, 0) + c1 * c2
            if n:
                out[m] = n
            else:
                out.pop(m, None)
    return out


class NotPoly(Exception):
    pass


def _r_add(a, b, sign=1):
    (an, ad), (bn, bd) = a, b
    if ad == bd:
        return p_add(an, bn, sign), ad
    return p_add(p_mul(an, bd), p_mul(bn, ad), sign), p_mul(ad, bd)


def _r_mul(a, b):
    return p_mul(a[0], b[0]), p_mul(a[1], b[1])


ONE = {(): Fraction(1)}


def z3_to_rat(e, quot, cache, limit=6000):
    """z3 real term -> (numerator poly, denominator poly); quotient variables q (q*d = n, d != 0)
    are replaced by n/d"""
    i = e.get_id()
    if i in cache:
        return cache[i]
    r = _z3_to_rat(e, quot, cache, limit)
    if len(r[0]) > limit or len(r[1]) > limit:
        raise NotPoly("too large")
    cache[i] = r
    return r


def _z3_to_rat(e, quot, cache, limit):
    if z3.is_rational_value(e):
        return p_const(Fraction(e.numerator_as_long(), e.denominator_as_long())), ONE
    if z3.is_int_value(e):
        return p_const(e.as_long()), ONE
    if z3.is_const(e) and e.decl().kind() == z3.Z3_OP_UNINTERPRETED and e.sort() == z3.RealSort():
        name = e.decl().name()
        if name in quot:
            n, d = quot[name]
            (nn, nd), (dn, dd) = z3_to_rat(n, quot, cache, limit), z3_to_rat(d, quot, cache, limit)
            return p_mul(nn, dd), p_mul(nd, dn)
        return p_var(name), ONE
    k = e.decl().kind() if z3.is_app(e) else None
    rec = lambda x: z3_to_rat(x, quot, cache, limit)
    if k == z3.Z3_OP_ADD:
        ch = e.children()
        acc = rec(ch[0])
        for c in ch[1:]:
            acc = _r_add(acc, rec(c))
        return acc
    if k == z3.Z3_OP_SUB:
        ch = e.children()
        acc = rec(ch[0])
        for c in ch[1:]:
            acc = _r_add(acc, rec(c), -1)
        return acc
    if k == z3.Z3_OP_UMINUS:
        n, d = rec(e.arg(0))
        return p_add({}, n, -1), d
    if k == z3.Z3_OP_MUL:
        acc = (ONE, ONE)
        for c in e.children():
            acc = _r_mul(acc, rec(c))
            if len(acc[0]) > limit:
                raise NotPoly("too large")
        return acc
    if k == z3.Z3_OP_POWER:
        b, x = e.arg(0), e.arg(1)
        if z3.is_int_value(x) or (z3.is_rational_value(x) and x.denominator_as_long() == 1):
            nexp = x.as_long() if z3.is_int_value(x) else x.numerator_as_long()
            if nexp >= 0:
                acc = (ONE, ONE)
                base = rec(b)
                for _ in range(nexp):
                    acc = _r_mul(acc, base)
                return acc
    raise NotPoly(str(e)[:60])


def _is_real_eq(h):
    return z3.is_app(h) and h.decl().kind() == z3.Z3_OP_EQ and h.arg(0).sort() == z3.RealSort()


def _quotients(hyps):
    """q -> (n, d) for hypotheses  q*d == n  (q a fresh quotient variable) accompanied by d != 0"""
    nonzero = set()
    for h in hyps:
        if z3.is_app(h) and h.decl().kind() == z3.Z3_OP_DISTINCT and h.num_args() == 2:
            if z3.is_rational_value(h.arg(1)) and h.arg(1).numerator_as_long() == 0:
                nonzero.add(h.arg(0).get_id())
        if z3.is_app(h) and h.decl().kind() == z3.Z3_OP_NOT and _is_real_eq(h.arg(0)):
            e = h.arg(0)
            if z3.is_rational_value(e.arg(1)) and e.arg(1).numerator_as_long() == 0:
                nonzero.add(e.arg(0).get_id())
    quot = {}
    for h in hyps:
        if not _is_real_eq(h):
            continue
        l, r = h.arg(0), h.arg(1)
        if z3.is_app_of(l, z3.Z3_OP_MUL) and l.num_args() == 2:
            q, d = l.arg(0), l.arg(1)
            if z3.is_const(q) and q.decl().kind() == z3.Z3_OP_UNINTERPRETED and q.decl().name().startswith("q!") \
                    and d.get_id() in nonzero and q.decl().name() not in quot:
                quot[q.decl().name()] = (r, d)
    return quot


def payload(hyps, goal):
    """serialisable polynomial system, or None if the goal is not a polynomial equality.
    Quotients are eliminated (goal and hypotheses are cleared of denominators; sound because
    every denominator is accompanied by its `!= 0` hypothesis)."""
    if not _is_real_eq(goal):
        return None
    quot = _quotients(hyps)
    cache = {}
    try:
        gn, gd = _r_add(z3_to_rat(goal.arg(0), quot, cache), z3_to_rat(goal.arg(1), quot, cache), -1)
    except (NotPoly, RecursionError):
        return None
    g = gn
    hs = []
    for h in hyps:
        if _is_real_eq(h):
            try:
                pn, pd = _r_add(z3_to_rat(h.arg(0), quot, cache), z3_to_rat(h.arg(1), quot, cache), -1)
            except (NotPoly, RecursionError):
                continue
            if pn and pn not in hs:
                hs.append(pn)
    if not g:
        return {"goal": [], "hyps": []}
    return {"goal": _ser(g), "hyps": [_ser(h) for h in hs]}


def _ser(p):
    return [[list(map(list, m)), str(c)] for m, c in p.items()]


def _de(sp):
    return {tuple((v, e) for v, e in m): Fraction(c) for m, c in sp}


def _to_sympy(p, syms):
    import sympy
    expr = 0
    for m, c in p.items():
        t = sympy.Rational(c.numerator, c.denominator)
        for v, e in m:
            t = t * syms[v] ** e
        expr += t
    return expr


def _from_sympy(expr, syms_inv):
    import sympy
    poly = sympy.Poly(expr, *syms_inv.keys()) if syms_inv else None
    out = {}
    if poly is None:
        return p_const(Fraction(int(expr.p), int(expr.q)))
    gens = poly.gens
    for mon, c in poly.terms():
        c = sympy.Rational(c)
        m = tuple(sorted((syms_inv[g], e) for g, e in zip(gens, mon) if e))
        out[m] = Fraction(int(c.p), int(c.q))
    return out


def prove(pl, budget_s=20.0):
    """returns (ok, certificate-summary)"""
    import sympy
    g = _de(pl["goal"])
    if not g:
        return True, "goal is identically zero after expansion"
    hs = [_de(h) for h in pl["hyps"]]
    if not hs:
        return False, "no polynomial hypotheses"
    # relevance: keep hypotheses connected to the goal's variables
    def vars_of(p):
        return {v for m in p for v, _ in m}
    rel_vars = set(vars_of(g))
    chosen, rest = [], list(hs)
    changed = True
    while changed:
        changed = False
        for h in list(rest):
            if vars_of(h) & rel_vars:
                chosen.append(h)
                rest.remove(h)
                rel_vars |= vars_of(h)
                changed = True
    hs = chosen
    if not hs:
        return False, "no relevant polynomial hypotheses"
    names = sorted(rel_vars)
    t0 = time.time()
    # variable orders: fresh (defined) variables first so that they are eliminated
    def rank(v):
        return (0 if "!" in v else 1, v)
    orders = [sorted(names, key=rank), sorted(names, key=rank, reverse=True), names]
    for order in orders:
        for mono in ("lex", "grevlex"):
            if time.time() - t0 > budget_s:
                return False, "ideal: budget exhausted"
            syms = {v: sympy.Symbol(v.replace("!", "_")) for v in order}
            inv = {s: v for v, s in syms.items()}
            G = [_to_sympy(h, syms) for h in hs]
            f = _to_sympy(g, syms)
            try:
                Q, r = sympy.reduced(f, G, *[syms[v] for v in order], order=mono)
            except Exception:
                continue
            if r != 0:
                continue
            # independent re-check:  sum q_i h_i - g == 0  in exact rationals
            acc = {}
            for q, h in zip(Q, hs):
                if q == 0:
                    continue
                acc = p_add(acc, p_mul(_from_sympy(sympy.expand(q), inv), h))
            if p_add(acc, g, -1) == {}:
                used = sum(1 for q in Q if q != 0)
                return True, f"ideal certificate: goal = sum q_i*h_i with {used} of {len(hs)} hypotheses ({mono}), re-checked by expansion"
    return False, "ideal: no certificate found"
