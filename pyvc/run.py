"""pyvc.run -- command line: python -m pyvc.run <property id> [--tier quick|thorough]
                          [--replay FILE] [--only NAME] [--update-ledger] [--list]

exit 0  every obligation discharged, every bounded stand-in passed (or only listed findings fired)
exit 1  VIOLATION property=<id> replay=<path> [no-failing-input-found]
exit 2  UNDECIDED (solver unknown / unreproduced abstract model)       -- never a VIOLATION line
exit 3  CHECKER-ERROR (engine limit, vacuous contract, missing ledger clause, traceback)
"""
import argparse
import importlib
import itertools
import json
import os
import shutil
import pkgutil
import random
import sys
import time

HERE = os.path.dirname(os.path.dirname(os.path.abspath(__file__)))
sys.path.insert(0, HERE)
if os.environ.get("BEYOND_REPO"):
    sys.path.insert(0, os.environ["BEYOND_REPO"])  # scratch copies for self-tests

import numpy as np  # noqa: E402

from pyvc import contract as C  # noqa: E402
from pyvc import discharge, sym  # noqa: E402

ASSUMPTIONS = {
    "S1": "S1 floats are treated as mathematical reals (no rounding, overflow, NaN/inf)",
    "S2": "S2 Python ints are unbounded integers",
    "S3": "S3 numpy elementwise functions are the mathematical ones, np.pi is pi; numpy structural operations on dtype=object arrays behave as on float arrays",
    "S4": "S4 only sound algebraic facts are known about transcendental functions (c^2+s^2=1, addition formulas, principal ranges, sign relations)",
    "S5": "S5 datetime/timedelta are exact integer-microsecond arithmetic with round-half-even constructors",
    "S6": "S6 left-to-right evaluation; no exception other than those made explicit as safety obligations or named in the contract",
    "S7": "S7 attribute and method resolution is performed concretely on the real classes; single-threaded",
    "S8": "S8 external libraries (np.linalg.inv, sgp4, jplephem, lxml) only through the assumed contracts listed",
    "S9": "S9 @memoize'd functions are pure functions of their printed arguments",
}
TRUSTED = [
    "pyvc (VC generator: CPython executing the re-read source on z3-backed values; loop cut-point rewriting)",
    "z3 4.x/5.1 and cvc5 1.0 SMT solvers",
    "certificate re-checker of the ideal back end (pyvc.ideal, exact rational expansion; sympy itself is not trusted)",
    "CPython 3.12 and numpy structural operations",
]


def short(e, limit=400):
    """printable form of a z3 term; terms with heavy sharing are not expanded (printing a DAG as a tree is exponential)"""
    seen, stack, n = set(), [e], 0
    while stack and n <= 1500:
        x = stack.pop()
        if x.get_id() in seen:
            continue
        seen.add(x.get_id())
        n += 1
        stack.extend(x.children())
    if n > 1500:
        return f"<term with more than {n} distinct nodes>"
    return str(e)[:limit]


class OblRec:
    """picklable record of an obligation (the z3 terms stay in the child process)"""

    def __init__(self, name, kind, meta, goal, n_hyps, job):
        self.name, self.kind, self.meta, self.goal_text, self.n_hyps, self.job = name, kind, meta, goal, n_hyps, job


def _sym_child(conn, pid, name):
    try:
        cd = next(c for c in C.PROPS[pid] if c.name == name)
        r = C.run_symbolic(cd)
        recs = []
        for o in r["obligations"]:
            meta = {k: (v if isinstance(v, (str, int, float, bool, list, dict, type(None))) else str(v)) for k, v in o.meta.items()}
            recs.append(OblRec(o.name, o.kind, meta, short(o.goal, 2000), len(o.hyps), discharge.make_job(o)))
        conn.send({"ok": True, "obls": recs, "errors": r["errors"], "paths": r["paths"], "axioms": r["axioms"],
                   "assumed": r["assumed"], "loaded": r["loaded"], "stub_calls": r["stub_calls"]})
    except BaseException as e:  # noqa
        import traceback
        try:
            conn.send({"ok": False, "error": f"{e!r}\n{traceback.format_exc(limit=8)}"})
        except Exception:
            pass
    finally:
        conn.close()


def run_symbolic_parallel(pid, cds, limit_s, width=8):
    import multiprocessing as mp
    ctx = mp.get_context("fork")
    outs = [None] * len(cds)
    attempts = [0] * len(cds)
    todo = list(range(len(cds)))
    running = {}
    while todo or running:
        while todo and len(running) < width:
            i = todo.pop(0)
            rd, wr = ctx.Pipe(duplex=False)
            pr = ctx.Process(target=_sym_child, args=(wr, pid, cds[i].name))
            pr.start()
            wr.close()
            attempts[i] += 1
            running[i] = (pr, rd, time.time())
        for i, (pr, rd, t0) in list(running.items()):
            got = None
            try:
                if rd.poll(0.05):
                    got = rd.recv()
            except (EOFError, OSError):
                got = {"ok": False, "error": "symbolic execution child died"}
            if got is None and time.time() - t0 > limit_s:
                pr.kill()
                got = {"ok": False, "error": f"symbolic execution exceeded {limit_s} s (solver hang in a path-feasibility check?)"}
                if attempts[i] < 2:
                    pr.join()
                    del running[i]
                    todo.append(i)
                    continue
            if got is None and not pr.is_alive() and not rd.poll(0.2):
                got = {"ok": False, "error": f"symbolic execution child exited with {pr.exitcode}"}
            if got is not None:
                if pr.is_alive():
                    pr.join(5)
                    if pr.is_alive():
                        pr.kill()
                pr.join()
                outs[i] = got
                del running[i]
    return outs


def load_contracts():
    import contracts
    for m in pkgutil.iter_modules(contracts.__path__):
        importlib.import_module(f"contracts.{m.name}")


def load_json(path, default):
    try:
        with open(path) as f:
            return json.load(f)
    except FileNotFoundError:
        return default


def finding_matches(f, pid, clause, assign, label=None):
    """a listed finding covers a failure only if the property, the clause (one of `clauses`, or `clause`, a trailing * being a prefix match), the failing input (`where`,
    an expression over the assignment) and -- when given -- a substring of the failure label (`failure_contains`, e.g. the exception message) all match: a different
    failure at the same input is still reported"""
    if f.get("property") != pid:
        return False
    if f.get("clauses") and clause not in f["clauses"]:
        return False
    fc = f.get("clause")
    if fc and fc != clause and not (fc.endswith("*") and clause.startswith(fc[:-1])):
        return False
    if f.get("failure_contains") and f["failure_contains"] not in (label or ""):
        return False
    where = f.get("where")
    if where:
        try:
            return bool(eval(where, {"abs": abs, "min": min, "max": max}, dict(assign or {})))
        except Exception:
            return False
    return True


def write_replay(pid, clause, payload):
    d = os.path.join(HERE, "replays", pid)
    os.makedirs(d, exist_ok=True)
    safe = "".join(ch if ch.isalnum() or ch in "._-" else "_" for ch in clause)[:150]
    path = os.path.join(d, safe + ".json")
    with open(path, "w") as f:
        json.dump(payload, f, indent=1, default=str)
    return path


def grid_cases(cdef, tier, seed):
    if cdef.grid is None:
        return []
    rng = random.Random(seed)
    return cdef.grid(tier, rng)


class _CaseTimeout(BaseException):
    pass


_TIMEOUTS = None  # shared counter of timed-out cases of the contract being evaluated (set before the pool forks)


def _grid_case(args):
    """one bounded case, under a wall-clock limit: a change that makes the real code loop for ever must not hang the check (reported as a checker error: a time-out is
    never turned into a violation)"""
    import signal
    pid, name, assign = args
    cd = next(c for c in C.PROPS[pid] if c.name == name)
    limit = float(os.environ.get("PYVC_CASE_TIMEOUT", "60" if os.environ.get("PYVC_TIER", "quick") == "quick" else "900"))
    if _TIMEOUTS is not None and _TIMEOUTS.value >= 8:
        # enough cases of this contract have already run out of time: the rest is not waited for
        return "timeout", ["timeout:skipped after 8 time-outs"], dict(assign), 0

    def on_alarm(signum, frame):
        raise _CaseTimeout()
    old = signal.signal(signal.SIGALRM, on_alarm)
    signal.setitimer(signal.ITIMER_REAL, limit)
    try:
        st, failures, ctx = C.run_concrete(cd, assign)
        return st, failures, dict(ctx.used), len(ctx.checked)
    except _CaseTimeout:
        if _TIMEOUTS is not None:
            with _TIMEOUTS.get_lock():
                _TIMEOUTS.value += 1
        return "timeout", [f"timeout:{limit:.0f}s"], dict(assign), 0
    finally:
        signal.setitimer(signal.ITIMER_REAL, 0)
        signal.signal(signal.SIGALRM, old)


def find_failing_history(pid, name, cases, fl, label, max_pairs=10):
    """earlier case(s) of the same contract after which `fl` fails in a fresh process: one predecessor (nearest first), else all predecessors (at most 40)"""
    idx = fl.get("index")
    if idx is None or not cases:
        return None
    target = cases[idx] if idx < len(cases) else fl["assign"]
    for j in range(idx - 1, max(-1, idx - 1 - max_pairs), -1):
        if confirm_fresh(pid, name, target, label, history=[cases[j]]):
            return [cases[j]]
    pre = cases[max(0, idx - 40):idx]
    if len(pre) > 1 and confirm_fresh(pid, name, target, label, history=pre):
        return pre
    return None


def confirm_fresh(pid, name, assign, label, history=()):
    """True: the input fails the same clause when replayed alone (or, with `history`, after those earlier cases of the same contract) in a fresh interpreter; False: it
    does not; None: the replay itself could not be run (the in-run result then stands)"""
    import subprocess
    env = dict(os.environ, PYVC_CASE_JSON="1")
    env.pop("PYVC_DEBUG", None)
    try:
        out = subprocess.run([sys.executable, os.path.join(HERE, "tools", "run_case.py"), pid, name, json.dumps(list(history) + [assign] if history else assign, default=str)],
                             capture_output=True, text=True, env=env, cwd=HERE,
                             timeout=(float(os.environ.get("PYVC_CASE_TIMEOUT", "60" if os.environ.get("PYVC_TIER", "quick") == "quick" else "900")) + 30) * (1 + len(history)))
        line = next((ln for ln in out.stdout.splitlines() if ln.startswith("PYVC_CASE_RESULT ")), None)
        if line is None:
            return None
        res = json.loads(line[len("PYVC_CASE_RESULT "):])
    except Exception:
        return None
    if label.startswith("exception"):
        key = ":".join(label.split(":")[:2])
        return any(f.startswith(key) for f in res["failures"])
    return label in res["failures"]


def run_grid(cdef, tier, seed, max_fail=300, procs=16):
    """bounded stand-in / concrete enumeration: returns stats dict (cases are evaluated in a process pool)"""
    ev = nontriv = skipped = 0
    fails, samples, seen, timeouts = [], [], set(), []
    cases = list(grid_cases(cdef, tier, seed))
    global _TIMEOUTS
    import multiprocessing as _mp
    _TIMEOUTS = _mp.get_context("fork").Value("i", 0)
    if len(cases) >= 4 and procs > 1:
        from concurrent.futures import ProcessPoolExecutor
        import multiprocessing as mp
        with ProcessPoolExecutor(max_workers=procs, mp_context=mp.get_context("fork")) as ex:
            results = list(ex.map(_grid_case, [(cdef.pid, cdef.name, a) for a in cases], chunksize=max(1, len(cases) // (procs * 8))))
    else:
        results = [_grid_case((cdef.pid, cdef.name, a)) for a in cases]
    for idx_case, (st, failures, used, n_checked) in enumerate(results):
        ev += 1
        if st == "skip":
            skipped += 1
            continue
        key = tuple(sorted((k, repr(v)) for k, v in used.items()))
        if key not in seen and n_checked:
            seen.add(key)
            nontriv += 1
        if len(samples) < 3:
            samples.append({"contract": cdef.full, "input": used, "clauses_checked": n_checked, "status": st})
        if st == "timeout":
            timeouts.append({"assign": dict(used), "failures": failures})
        if st in ("fail", "error"):
            if len(fails) < max_fail or all(f["failures"] != failures for f in fails):
                fails.append({"assign": dict(used), "failures": failures, "index": idx_case})
    return {"evaluations": ev, "distinct_nontrivial": nontriv, "skipped": skipped, "fails": fails, "samples": samples, "timeouts": timeouts, "cases": cases}


def main(argv=None):
    ap = argparse.ArgumentParser()
    ap.add_argument("pid")
    ap.add_argument("--tier", default=os.environ.get("VERIF_TIER", "quick"))
    ap.add_argument("--replay")
    ap.add_argument("--only")
    ap.add_argument("--update-ledger", action="store_true")
    ap.add_argument("--no-grid", action="store_true")
    ap.add_argument("--verbose", "-v", action="store_true")
    args = ap.parse_args(argv)
    tier = "thorough" if args.tier == "thorough" else "quick"
    os.environ["PYVC_TIER"] = tier
    seed = int(os.environ.get("VERIF_SEED", "0") or 0)
    pid = args.pid
    t_start = time.time()
    # replay files of an earlier run of this property are stale by definition
    shutil.rmtree(os.path.join(HERE, "replays", pid), ignore_errors=True)
    load_contracts()
    cdefs = C.PROPS.get(pid, [])
    if args.only:
        cdefs = [c for c in cdefs if args.only in c.name]
    if not cdefs:
        print(f"CHECKER-ERROR no contracts registered for {pid}")
        return 3

    if args.replay:
        return do_replay(pid, cdefs, args.replay)

    budget = 20000 if tier == "quick" else 120000
    known = load_json(os.path.join(HERE, "known_findings.json"), {"findings": [], "fixed": []})
    ledger = load_json(os.path.join(HERE, "ledger", f"{pid}.json"), {"clauses": {}})

    checker_errors, undecided, violations, known_hits = [], [], [], []
    unconfirmed = set()
    all_obls, by_backend, solver_s = [], {}, 0.0
    clause_status = {}
    functions = {}
    axioms, assumed, inlined = set(), {}, set()
    canaries = 0
    bounded = []
    sample_obls = []
    n_paths = 0

    # ---- symbolic part: one child process per contract (hard wall-clock limit, parallel) ------------
    sym_cds = [cd for cd in cdefs if cd.level == "proof"]
    limit_s = 200 if tier == "quick" else 1200
    outs = run_symbolic_parallel(pid, sym_cds, limit_s)
    all_obls = []
    for cd, r in zip(sym_cds, outs):
        if not r.get("ok"):
            checker_errors.append(f"{cd.full}: {r.get('error')}")
            continue
        checker_errors += r["errors"]
        n_paths += r["paths"]
        axioms |= set(r["axioms"])
        assumed.update(r["assumed"])
        for k, h in r["loaded"].items():
            functions[k] = {"source_sha256_16": h, "under_contract": k in cd.funcs}
        for k in r["stub_calls"]:
            assumed.setdefault(f"callee contract used at call site: {k}", f"{r['stub_calls'][k]} call(s); body not entered")
        if not [o for o in r["obls"] if o.kind != "cover"]:
            checker_errors.append(f"{cd.full}: contract generated zero obligations")
        all_obls += [(cd, o) for o in r["obls"]]

    results = discharge.discharge_jobs([o.job for _, o in all_obls], budget_ms=budget) if all_obls else []
    n_obl = n_dis = 0
    slow = sorted(((r["solver_s"], o.name, r["tried"]) for (_, o), r in zip(all_obls, results)), reverse=True)[:6]
    if args.verbose:
        for t, n, tr in slow:
            print(f"SLOW {t:.1f}s {n} {tr}")
    for (cd, o), res in zip(all_obls, results):
        solver_s += res["solver_s"]
        clause = o.meta["clause"]
        if o.kind == "cover":
            if res["status"] == "proved":
                checker_errors.append(f"vacuous: assumptions of {o.name} are contradictory")
            else:
                canaries += 1
            continue
        n_obl += 1
        if o.meta.get("decided_by"):
            res = dict(res, backend=o.meta["decided_by"])
        by_backend.setdefault(res["backend"], {"proved": 0, "solver_s": 0.0})
        if res["status"] == "proved":
            n_dis += 1
            by_backend[res["backend"]]["proved"] += 1
            by_backend[res["backend"]]["solver_s"] = round(by_backend[res["backend"]]["solver_s"] + res["solver_s"], 3)
            clause_status.setdefault(clause, "proved")
            if len(sample_obls) < 4 and o.kind == "post":
                sample_obls.append({"obligation": o.name, "goal": o.goal_text[:400], "n_hyps": o.n_hyps, "backend": res["backend"], "solver_s": res["solver_s"]})
            continue
        clause_status[clause] = res["status"]
        if res["status"] == "unknown":
            undecided.append((o.name, res))
            continue
        # refuted: replay the model on the real code
        model = res["info"] or {}
        assign = {k: C.parse_model_value(model.get(k, 0)) for k in o.meta.get("inputs", [])}
        assign.update(o.meta.get("choices", {}))
        for k, (cn, sn) in o.meta.get("trig_inputs", {}).items():
            if k not in model and (cn in model or sn in model):
                import math
                assign[k] = math.atan2(C.parse_model_value(model.get(sn, 0)), C.parse_model_value(model.get(cn, 1)))
        st, failures, ctx = C.run_concrete(cd, assign)
        import re
        short_cl = re.sub(r"\[\d+\]$", "", clause[len(cd.full) + 1:])
        harness_exc = st == "error" and not getattr(ctx, "exc_in_repo", False)
        reproduced = not harness_exc and st in ("fail", "error") and (short_cl in failures or o.kind in ("safety", "inv", "lemma") or short_cl.startswith("noexcept") or any(f.startswith("exception") for f in failures))
        if not reproduced:
            # bounded search for a real failing input of the same clause
            for a2 in itertools.islice(grid_cases(cd, "thorough", seed), 4000):
                st2, f2, ctx2 = C.run_concrete(cd, a2)
                if st2 in ("fail", "error") and (short_cl in f2 or o.kind != "post") and not (st2 == "error" and not getattr(ctx2, "exc_in_repo", False)):
                    assign, failures, reproduced, ctx = dict(ctx2.used), f2, True, ctx2
                    break
        payload = {"property": pid, "obligation": o.name, "clause": clause, "kind": o.kind, "contract": cd.full,
                   "functions": cd.funcs, "solver": res, "input": assign, "native_failures": failures,
                   "reproduced_on_real_code": reproduced, "goal": o.goal_text, "meta": {k: str(v)[:2000] for k, v in o.meta.items()}}
        hit = next((f for f in known["findings"] if finding_matches(f, pid, clause, assign)), None)
        if hit:
            if (hit, clause) not in known_hits:
                known_hits.append((hit, clause))
            continue
        if any(v[0] == clause for v in violations):
            continue
        if reproduced:
            path = write_replay(pid, clause, payload)
            violations.append((clause, path, ""))
        elif ledger["clauses"].get(clause) == "proved":
            path = write_replay(pid, clause, payload)
            violations.append((clause, path, " no-failing-input-found"))
        else:
            if "exception" in o.meta:
                res = dict(res, info=f"{o.meta['exception']} :: {o.meta.get('tb', '')[-700:]}")
            undecided.append((o.name, res))

    # ---- ledger -----------------------------------------------------------------------------
    if args.update_ledger:
        os.makedirs(os.path.join(HERE, "ledger"), exist_ok=True)
        if args.only:
            merged = dict(ledger["clauses"])
            merged.update(clause_status)
            clause_status_out = merged
        else:
            clause_status_out = clause_status
        with open(os.path.join(HERE, "ledger", f"{pid}.json"), "w") as f:
            json.dump({"clauses": dict(sorted(clause_status_out.items()))}, f, indent=1)
    elif not args.only:
        for cl, st in ledger["clauses"].items():
            # the guard is about the clauses a contract *names* (postconditions, lemmas, invariants): the automatically numbered safety obligations
            # (.safe.div.3, .safe.slice.0 ...) follow the incidental operations of the code and legitimately come and go with harmless edits
            if ".safe." in cl or ".noexcept" in cl:
                continue
            if cl not in clause_status and st == "proved":
                checker_errors.append(f"ledger clause {cl} was not generated on this run (vacuity guard)")

    # ---- bounded part -----------------------------------------------------------------------
    b_eval = b_nontriv = 0
    b_samples = []
    if not args.no_grid:
        for cd in cdefs:
            if cd.grid is None:
                continue
            st = run_grid(cd, tier, seed)
            b_eval += st["evaluations"]
            b_nontriv += st["distinct_nontrivial"]
            b_samples += st["samples"][:1]
            bounded.append({"contract": cd.full, "functions": cd.funcs, "level": "bounded" if cd.level != "finite" else "finite-exhaustive",
                            "evaluations": st["evaluations"], "distinct_nontrivial": st["distinct_nontrivial"],
                            "skipped_by_precondition": st["skipped"], "rule": (cd.grid.__doc__ or "").strip()})
            for to in st.get("timeouts", [])[:3]:
                checker_errors.append(f"{cd.full}: bounded case exceeded its time limit ({to['failures'][0]}) on {to['assign']}: undecided, not a violation")
            if cd.level != "proof" and st["distinct_nontrivial"] == 0:
                checker_errors.append(f"{cd.full}: bounded stand-in evaluated no non-trivial case")
            for fl in st["fails"]:
                for lab in fl["failures"]:
                    if lab.startswith("exception") and lab.endswith("[raised in the harness]"):
                        # the contract / harness itself failed on this input: says nothing about the code under verification
                        msg = f"{cd.full}: harness exception on {fl['assign']}: {lab[:300]}"
                        if not any(m.startswith(f"{cd.full}: harness exception") for m in checker_errors):
                            checker_errors.append(msg)
                        continue
                    clause = f"{cd.full}.{lab.split(':')[0] if lab.startswith('exception') else lab}"
                    hit = next((f for f in known["findings"] if finding_matches(f, pid, clause, fl["assign"], lab)), None)
                    if hit:
                        if (hit, clause) not in known_hits:
                            known_hits.append((hit, clause))
                        continue
                    if any(v[0] == clause for v in violations) or clause in unconfirmed:
                        continue
                    # the failing input is replayed in a fresh process: a failure that only shows after other cases have run in the same worker is
                    # an effect of shared state (the harness' or the library's), not decided by this input alone -- undecided, never a violation
                    confirmed = confirm_fresh(pid, cd.name, fl["assign"], lab)
                    if confirmed is False:
                        tries = [f2 for f2 in st["fails"] if f2 is not fl and lab in f2["failures"]][:2]
                        alt = next((f2 for f2 in tries if confirm_fresh(pid, cd.name, f2["assign"], lab)), None)
                        if alt is None:
                            # history dependence: does the input fail in a fresh process after ONE earlier case of the same contract (nearest first), or after the
                            # whole run of cases that preceded it?  Then the pair / sequence is the failing history, and it is replayable.
                            hist = find_failing_history(pid, cd.name, st.get("cases", []), fl, lab)
                            if hist is not None:
                                hclause = clause
                                path = write_replay(pid, hclause, {"property": pid, "clause": hclause, "contract": cd.full, "kind": "bounded-history",
                                                                  "functions": cd.funcs, "history": hist, "input": fl["assign"], "native_failures": fl["failures"],
                                                                  "note": "passes when evaluated alone in a fresh process; fails after the listed earlier case(s) of the same contract in the same process",
                                                                  "reproduced_on_real_code": True})
                                violations.append((clause, path, ""))
                                continue
                        if alt is None:
                            unconfirmed.add(clause)
                            checker_errors.append(f"{clause}: failed on {fl['assign']} inside the run but not when that input is replayed alone in a fresh process "
                                                  f"(depends on state left by earlier cases): undecided, not a violation")
                            continue
                        fl = alt
                    path = write_replay(pid, clause, {"property": pid, "clause": clause, "contract": cd.full, "kind": "bounded",
                                                      "functions": cd.funcs, "input": fl["assign"], "native_failures": fl["failures"],
                                                      "reproduced_on_real_code": True})
                    violations.append((clause, path, ""))

    # ---- report -----------------------------------------------------------------------------
    wall = time.time() - t_start
    for hit, clause in known_hits:
        print(f"KNOWN-FINDING: property={pid} {hit.get('what', clause)} [{clause}]")
    for name, res in undecided:
        print(f"UNDECIDED obligation={name} tried={res['tried']} info={str(res['info'])[:900]}")
    for e in checker_errors:
        print(f"CHECKER-ERROR {e}")
    for clause, path, suffix in violations:
        print(f"VIOLATION property={pid} replay={path}{suffix}")

    has_proof = n_obl > 0
    open_findings = len(known_hits)
    if has_proof and n_dis == n_obl:
        level = "proof"
    elif has_proof:
        level = "other"
    else:
        level = "exploration"
    # the level recorded is the one claimed in MANIFEST.json (tools/claims.json) where that is the weaker one: a property whose decisive part is a bounded
    # stand-in is claimed as exploration even though some of its contracts are proved (their obligations are still listed below)
    try:
        with open(os.path.join(HERE, "tools", "claims.json")) as f:
            claimed = json.load(f).get(pid, {}).get("category")
    except (OSError, ValueError):
        claimed = None
    if claimed == "exploration" and level == "proof":
        level = "exploration"
    cov = {
        "obligations": n_obl, "discharged": n_dis,
        "checker_cmd": f"./check {pid} --tier {tier}",
        "trusted_base": TRUSTED + sorted(f"trusted mathematics / axiom: {a}" for a in axioms),
        "paths_explored": n_paths, "covers_satisfiable_or_undecided": canaries,
        "by_backend": by_backend, "solver_s": round(solver_s, 2),
        "functions_under_contract": functions,
        "assumed_contracts": assumed,
        "bounded_functions": bounded,
        "evaluations": b_eval, "distinct_nontrivial": b_nontriv,
        "rule": "bounded stand-ins: each contract's explicit grid (see bounded_functions[].rule); a case is non-trivial when it passes the precondition and at least one contract clause is evaluated; distinct = distinct input assignments",
        "samples": (sample_obls + b_samples) or [{"note": "no sample"}],
        "undecided": [n for n, _ in undecided], "known_findings_fired": [c for _, c in known_hits],
    }
    if known_hits:
        cov["open_known_findings"] = [f"{h.get('what')} [{cl}]" for h, cl in known_hits]
    if level == "other":
        cov["explanation"] = (f"{n_dis} of {n_obl} obligations discharged; {len(known_hits)} clause(s) fail and are listed as known findings; "
                              f"{len(undecided)} undecided; {len(violations)} violation(s). Not reported as proved.")
    ev = {"property_id": pid, "tier": tier, "seed": seed, "level": level, "coverage": cov,
          "assumptions": [ASSUMPTIONS[k] for k in sorted(ASSUMPTIONS)] + sorted({a for cd in cdefs for a in cd.assumptions}),
          "wall_s": round(wall, 2), "violations": len(violations)}
    if not args.only and not os.environ.get("PYVC_NO_EVIDENCE"):
        os.makedirs(os.path.join(HERE, "evidence"), exist_ok=True)
        with open(os.path.join(HERE, "evidence", f"{pid}.json"), "w") as f:
            json.dump(ev, f, indent=1, default=str)
    print(f"{pid}: obligations={n_obl} discharged={n_dis} paths={n_paths} bounded_evals={b_eval} nontrivial={b_nontriv} "
          f"undecided={len(undecided)} known={open_findings} violations={len(violations)} errors={len(checker_errors)} "
          f"solver_s={solver_s:.1f} wall_s={wall:.1f} backends={ {k: v['proved'] for k, v in by_backend.items()} }")
    if violations:
        return 1
    if checker_errors:
        return 3
    if undecided:
        return 2
    return 0


def do_replay(pid, cdefs, path):
    with open(path) as f:
        p = json.load(f)
    cd = next((c for c in cdefs if c.full == p.get("contract")), None)
    if cd is None:
        print(f"CHECKER-ERROR contract {p.get('contract')} not found")
        return 3
    for h in p.get("history", []):
        C.run_concrete(cd, h)
    st, failures, ctx = C.run_concrete(cd, p.get("input", {}))
    print(f"replay {p.get('clause')}: status={st} failures={failures} input={ctx.used}")
    if st in ("fail", "error"):
        print(f"VIOLATION property={pid} replay={path}")
        return 1
    return 0


if __name__ == "__main__":
    sys.exit(main())
