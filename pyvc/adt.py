"""pyvc.adt -- abstract data types used *at call sites* of the functions under contract:
specifications of repo / stdlib classes, not re-implementations that are themselves verified
here.  Every proof that goes through one of them lists it under `assumed_contracts`.

  SymTimedelta  a duration in seconds (real) -- or an integer number of microseconds (`us`)
  SymDate       an instant (TAI seconds from an arbitrary origin) + a scale label
  SymStateVector  6 coordinates (object ndarray) + the `_data` dictionary (date, form, frame, ...)
"""
import numpy as np

from . import sym


class ADT:
    def __pv_isinstance__(self, cls):
        return False


class SymTimedelta(ADT):
    """S5 (real form): a timedelta is its duration; microsecond rounding of the constructors is
    ignored here (the integer-microsecond form `SymTimedeltaUs` keeps it)."""

    def __init__(self, seconds):
        self.s = seconds

    def __pv_isinstance__(self, cls):
        import datetime
        return isinstance(cls, type) and issubclass(cls, datetime.timedelta) or cls is datetime.timedelta

    def total_seconds(self):
        return self.s

    def _o(self, o):
        return o.s if isinstance(o, SymTimedelta) else None

    def __add__(self, o):
        if isinstance(o, SymTimedelta):
            return SymTimedelta(self.s + o.s)
        if isinstance(o, SymDate):
            return o + self
        return NotImplemented

    __radd__ = __add__

    def __sub__(self, o):
        if isinstance(o, SymTimedelta):
            return SymTimedelta(self.s - o.s)
        return NotImplemented

    def __neg__(self):
        return SymTimedelta(-self.s)

    def __mul__(self, k):
        return SymTimedelta(self.s * k)

    __rmul__ = __mul__

    def __truediv__(self, k):
        if isinstance(k, SymTimedelta):
            return self.s / k.s
        return SymTimedelta(self.s / k)

    def __abs__(self):
        return SymTimedelta(abs(self.s))

    def __lt__(self, o):
        return self.s < o.s

    def __le__(self, o):
        return self.s <= o.s

    def __gt__(self, o):
        return self.s > o.s

    def __ge__(self, o):
        return self.s >= o.s

    def __eq__(self, o):
        return isinstance(o, SymTimedelta) and self.s == o.s

    __hash__ = object.__hash__

    def __pv_havoc__(self, name):
        return SymTimedelta(sym.SReal(sym.cur().fresh(f"h_{name}")))


class SymDate(ADT):
    """Date ADT (proved against beyond/dates/date.py in C03): an instant `t` (seconds, TAI) and a
    scale label.  Subtraction and comparison act on the instant only."""

    def __init__(self, t, scale="UTC"):
        self.t, self.scale = t, scale

    def __pv_isinstance__(self, cls):
        return getattr(cls, "__name__", "") == "Date"

    def __sub__(self, o):
        if isinstance(o, SymDate):
            return SymTimedelta(self.t - o.t)
        if isinstance(o, SymTimedelta):
            return SymDate(self.t - o.s, self.scale)
        return NotImplemented

    def __add__(self, o):
        if isinstance(o, SymTimedelta):
            return SymDate(self.t + o.s, self.scale)
        return NotImplemented

    __radd__ = __add__

    def __lt__(self, o):
        return self.t < o.t

    def __le__(self, o):
        return self.t <= o.t

    def __gt__(self, o):
        return self.t > o.t

    def __ge__(self, o):
        return self.t >= o.t

    def __eq__(self, o):
        return isinstance(o, SymDate) and self.t == o.t

    def __ne__(self, o):
        return not isinstance(o, SymDate) or self.t != o.t

    __hash__ = object.__hash__

    @property
    def _mjd(self):
        return self.t / 86400

    def change_scale(self, scale):
        return SymDate(self.t, scale)

    def __pv_havoc__(self, name):
        return SymDate(sym.SReal(sym.cur().fresh(f"h_{name}")), self.scale)


class SymStateVector(np.ndarray, ADT):
    """StateVector ADT: 6 coordinates + metadata dictionary, metadata propagated to derived arrays
    exactly like StateVector.__array_finalize__ does (shallow copy of `_data`).  Bounded-checked
    against beyond/orbits/statevector.py in C15; assumed elsewhere."""

    def __new__(cls, coord, date=None, form="cartesian", frame=None, **kw):
        obj = np.empty(6, dtype=object).view(cls)
        for i, v in enumerate(coord):
            obj[i] = v
        kw.update(date=date, form=form, frame=frame)
        object.__setattr__(obj, "_data", kw)
        object.__setattr__(obj, "_writes", [])
        return obj

    def __array_finalize__(self, obj):
        if obj is None:
            return
        object.__setattr__(self, "_data", dict(getattr(obj, "_data", {})))
        object.__setattr__(self, "_writes", [])

    def __pv_isinstance__(self, cls):
        return getattr(cls, "__name__", "") in ("StateVector", "Orbit", "ndarray")

    def _index(self, name):
        from beyond.orbits.forms import Form, get_form
        d = object.__getattribute__(self, "_data")
        form = d.get("form")
        if isinstance(form, str):
            form = get_form(form)
        name = Form.alt.get(name, name)
        names = getattr(form, "param_names", None)
        if names and name in names:
            return names.index(name)
        return None

    def __getattr__(self, name):
        if name.startswith("__"):
            raise AttributeError(name)
        d = object.__getattribute__(self, "_data")
        i = self._index(name)
        if i is not None:
            return np.ndarray.__getitem__(self, i)
        if name in d:
            return d[name]
        if name == "maneuvers":
            return d.setdefault("maneuvers", [])
        if name == "cov":
            return d.setdefault("cov", None)
        raise AttributeError(name)

    def __setattr__(self, name, value):
        object.__getattribute__(self, "_writes").append(name)
        object.__getattribute__(self, "_data")[name] = value

    def __setitem__(self, key, value):
        object.__getattribute__(self, "_writes").append(key)
        np.ndarray.__setitem__(self, key, value)

    def copy(self, *, frame=None, form=None, same=None):
        d = object.__getattribute__(self, "_data")
        if (form is not None and _name(form) != _name(d["form"])) or (frame is not None and frame != d["frame"]) or same is not None:
            conv = d.get("__convert__")
            if conv is None:
                raise sym.EngineLimit("SymStateVector.copy with a conversion needs a __convert__ hook")
            return conv(self, frame=frame, form=form, same=same)
        new = SymStateVector(list(np.asarray(self)), **{k: (v.copy() if isinstance(v, (list, dict)) else v) for k, v in d.items()})
        return new

    def __pv_havoc__(self, name):
        run = sym.cur()
        d = dict(object.__getattribute__(self, "_data"))
        if isinstance(d.get("date"), SymDate):
            d["date"] = d["date"].__pv_havoc__(name + "_date")
        return SymStateVector([sym.SReal(run.fresh(f"h_{name}{i}")) for i in range(6)], **d)


def _name(f):
    return f if isinstance(f, str) else getattr(f, "name", f)
