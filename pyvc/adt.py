"""pyvc.adt -- abstract data types used *at call sites* of the functions under contract:
specifications of repo / stdlib classes, not re-implementations that are themselves verified
here.  Every proof that goes through one of them lists it under `assumed_contracts`.

  SymTimedelta  a duration in seconds (real) -- or an integer number of microseconds (`us`)
  SymDate       an instant (TAI seconds from an arbitrary origin) + a scale label
  SymStateVector  6 coordinates (object ndarray) + the `_data` dictionary (date, form, frame, ...)
"""
import numpy as np

from . import sym


class ADT:
    def __pv_isinstance__(self, cls):
        return False


class SymTimedelta(ADT):
    """S5 (real form): a timedelta is its duration; microsecond rounding of the constructors is
    ignored here (the integer-microsecond form `SymTimedeltaUs` keeps it)."""

    def __init__(self, seconds):
        self.s = seconds

    def __pv_isinstance__(self, cls):
        import datetime
        return isinstance(cls, type) and issubclass(cls, datetime.timedelta) or cls is datetime.timedelta

    def total_seconds(self):
        return self.s

    def _o(self, o):
        return o.s if isinstance(o, SymTimedelta) else None

    def __add__(self, o):
        if isinstance(o, SymTimedelta):
            return SymTimedelta(self.s + o.s)
        if isinstance(o, SymDate):
            return o + self
        return NotImplemented

    __radd__ = __add__

    def __sub__(self, o):
        if isinstance(o, SymTimedelta):
            return SymTimedelta(self.s - o.s)
        return NotImplemented

    def __neg__(self):
        return SymTimedelta(-self.s)

    def __mul__(self, k):
        return SymTimedelta(self.s * k)

    __rmul__ = __mul__

    def __truediv__(self, k):
        if isinstance(k, SymTimedelta):
            return self.s / k.s
        return SymTimedelta(self.s / k)

    def __abs__(self):
        return SymTimedelta(abs(self.s))

    def __lt__(self, o):
        return self.s < o.s

    def __le__(self, o):
        return self.s <= o.s

    def __gt__(self, o):
        return self.s > o.s

    def __ge__(self, o):
        return self.s >= o.s

    def __eq__(self, o):
        return isinstance(o, SymTimedelta) and self.s == o.s

    __hash__ = object.__hash__

    def __pv_havoc__(self, name):
        return SymTimedelta(sym.SReal(sym.cur().fresh(f"h_{name}")))


class SymDate(ADT):
    """Date ADT (proved against beyond/dates/date.py in C03): an instant `t` (seconds, TAI) and a
    scale label.  Subtraction and comparison act on the instant only."""

    def __init__(self, t, scale="UTC"):
        self.t, self.scale = t, scale

    def __pv_isinstance__(self, cls):
        return getattr(cls, "__name__", "") == "Date"

    def __sub__(self, o):
        if isinstance(o, SymDate):
            return SymTimedelta(self.t - o.t)
        if isinstance(o, SymTimedelta):
            return SymDate(self.t - o.s, self.scale)
        return NotImplemented

    def __add__(self, o):
        if isinstance(o, SymTimedelta):
            return SymDate(self.t + o.s, self.scale)
        return NotImplemented

    __radd__ = __add__

    def __lt__(self, o):
        return self.t < o.t

    def __le__(self, o):
        return self.t <= o.t

    def __gt__(self, o):
        return self.t > o.t

    def __ge__(self, o):
        return self.t >= o.t

    def __eq__(self, o):
        return isinstance(o, SymDate) and self.t == o.t

    def __ne__(self, o):
        return not isinstance(o, SymDate) or self.t != o.t

    __hash__ = object.__hash__

    @property
    def _mjd(self):
        return self.t / 86400

    def change_scale(self, scale):
        return SymDate(self.t, scale if isinstance(scale, str) else scale.name)

    # clock readings in the date's own scale: for the uniform scales they are the instant shifted by the scale's constant offset; for UTC / UT1 / TDB the offset
    # depends on tables, and the reading is an uninterpreted function of the instant (code that goes through it cannot be proved to measure elapsed time)
    _UNIFORM = {"TAI": 0, "TT": 32.184, "GPS": -19}

    def _reading(self):
        off = self._UNIFORM.get(self.scale)
        if off is None:
            return sym.uf(f"obs_d_{self.scale}", self.t), sym.uf(f"obs_s_{self.scale}", self.t)
        x = self.t + sym.SReal(sym.rv(sym.to_fraction(off)))
        d = sym.floor(x / 86400)
        return d, x - 86400 * d

    d = property(lambda self: self._reading()[0])
    s = property(lambda self: self._reading()[1])
    mjd = property(lambda self: (self._reading()[0] * 86400 + self._reading()[1]) / 86400)
    jd = property(lambda self: self.mjd + sym.SReal(sym.rv(sym.to_fraction(2400000.5))))

    def __pv_havoc__(self, name):
        return SymDate(sym.SReal(sym.cur().fresh(f"h_{name}")), self.scale)


class SymStateVector(np.ndarray, ADT):
    """StateVector ADT: 6 coordinates + metadata dictionary, metadata propagated to derived arrays
    exactly like StateVector.__array_finalize__ does (shallow copy of `_data`).  Bounded-checked
    against beyond/orbits/statevector.py in C15; assumed elsewhere."""

    def __new__(cls, coord, date=None, form="cartesian", frame=None, **kw):
        obj = np.empty(6, dtype=object).view(cls)
        for i, v in enumerate(coord):
            obj[i] = v
        kw.update(date=date, form=form, frame=frame)
        object.__setattr__(obj, "_data", kw)
        object.__setattr__(obj, "_writes", [])
        return obj

    def __array_finalize__(self, obj):
        if obj is None:
            return
        object.__setattr__(self, "_data", dict(getattr(obj, "_data", {})))
        object.__setattr__(self, "_writes", [])

    def __pv_isinstance__(self, cls):
        return getattr(cls, "__name__", "") in ("StateVector", "Orbit", "ndarray")

    def _index(self, name):
        from beyond.orbits.forms import Form, get_form
        d = object.__getattribute__(self, "_data")
        form = d.get("form")
        if isinstance(form, str):
            form = get_form(form)
        name = Form.alt.get(name, name)
        names = getattr(form, "param_names", None)
        if names and name in names:
            return names.index(name)
        return None

    def __getattr__(self, name):
        if name.startswith("__"):
            raise AttributeError(name)
        d = object.__getattribute__(self, "_data")
        i = self._index(name)
        if i is not None:
            return np.ndarray.__getitem__(self, i)
        if name in d:
            return d[name]
        if name == "maneuvers":
            return d.setdefault("maneuvers", [])
        if name == "cov":
            return d.setdefault("cov", None)
        raise AttributeError(name)

    def __setattr__(self, name, value):
        object.__getattribute__(self, "_writes").append(name)
        object.__getattribute__(self, "_data")[name] = value

    def __setitem__(self, key, value):
        object.__getattribute__(self, "_writes").append(key)
        np.ndarray.__setitem__(self, key, value)

    def copy(self, *, frame=None, form=None, same=None):
        d = object.__getattribute__(self, "_data")
        if (form is not None and _name(form) != _name(d["form"])) or (frame is not None and frame != d["frame"]) or same is not None:
            conv = d.get("__convert__")
            if conv is None:
                raise sym.EngineLimit("SymStateVector.copy with a conversion needs a __convert__ hook")
            return conv(self, frame=frame, form=form, same=same)
        new = SymStateVector(list(np.asarray(self)), **{k: (v.copy() if isinstance(v, (list, dict)) else v) for k, v in d.items()})
        return new

    def __pv_havoc__(self, name):
        run = sym.cur()
        d = dict(object.__getattribute__(self, "_data"))
        if isinstance(d.get("date"), SymDate):
            d["date"] = d["date"].__pv_havoc__(name + "_date")
        return SymStateVector([sym.SReal(run.fresh(f"h_{name}{i}")) for i in range(6)], **d)


def _name(f):
    return f if isinstance(f, str) else getattr(f, "name", f)


class SeqView(ADT):
    """A 1-D sequence of symbolic length over a z3 array: (array, offset, length).  Models numpy /
    list indexing and basic slicing with non-negative bounds:  v[i] -> A[off+i] with the safety
    obligation 0 <= i < len;  v[a:b] -> view (off+a, b-a) with 0 <= a <= b <= len;  len(v)."""

    def __init__(self, arr, off, length, world_log=None, sorted_strict=False, name="seq"):
        self.arr, self.off, self.length = arr, off, length
        self.log = world_log if world_log is not None else []
        self.sorted_strict = sorted_strict
        self.name = name

    @staticmethod
    def fresh(name, length, sorted_strict=False, sort="real"):
        import z3
        arr = z3.Array(name, z3.IntSort(), z3.RealSort() if sort == "real" else z3.IntSort())
        return SeqView(arr, 0, length, [], sorted_strict, name)

    def _int(self, i):
        if isinstance(i, sym.SInt):
            return i
        if isinstance(i, (int, np.integer)):
            return int(i)
        raise sym.EngineLimit(f"sequence index of type {type(i)}")

    def at(self, i):
        """element without a bounds obligation (for specifications)"""
        import z3
        e = z3.Select(self.arr, sym.lift(self.off + i)[0])
        return sym.wrap(e)

    def __getitem__(self, key):
        import z3
        run = sym.cur()
        if isinstance(key, slice):
            if key.step not in (None, 1):
                raise sym.EngineLimit("stepped slice of a symbolic sequence")
            a = 0 if key.start is None else self._int(key.start)
            b = self.length if key.stop is None else self._int(key.stop)
            # python clamps slice bounds beyond the end; negative bounds would silently count from the end, which
            # no caller here intends: non-negativity is a safety obligation
            run.safety("slice", sym.lift_bool(sym.And(a >= 0, b >= 0)))
            if key.stop is not None:
                b = sym.ite(b <= self.length, b, self.length) if not (isinstance(b, int) and isinstance(self.length, int)) else min(b, self.length)
            if key.start is not None:
                a = sym.ite(a <= b, a, b) if not (isinstance(a, int) and isinstance(b, int)) else min(a, b)
            v = SeqView(self.arr, self.off + a, b - a, self.log, self.sorted_strict, self.name)
            self.log.append(v)
            return v
        i = self._int(key)
        if isinstance(i, int) and i < 0:
            i = self.length + i
        run.safety("index", sym.lift_bool(sym.And(i >= 0, i < self.length)))
        return self.at(i)

    def concrete_length(self):
        """the length, if the path facts determine it (proved), else None"""
        import z3
        run = sym.cur()
        L = sym.lift(self.length)[0]
        n = sym.num_of(z3.simplify(L))
        if n is not None:
            return int(n)
        s = z3.Solver()
        s.set("timeout", 3000)
        hyps = run.context(L == 0)
        s.add(*hyps)
        if s.check() != z3.sat:
            return None
        v = s.model().eval(L, model_completion=True)
        if not z3.is_int_value(v):
            return None
        k = v.as_long()
        s.add(L != k)
        return k if s.check() == z3.unsat else None

    def __array__(self, dtype=None, copy=None):
        n = self.concrete_length()
        if n is None:
            raise sym.EngineLimit("numpy conversion of a sequence whose length is not determined by the path")
        out = np.empty(n, dtype=object)
        for i in range(n):
            out[i] = self.at(i)
        if self.sorted_strict:
            run = sym.cur()
            for i in range(n - 1):
                run.add_fact("pre", "sorted.instance", sym.lift_bool(out[i] < out[i + 1]))
        return out

    def __iter__(self):
        return iter(self.__array__())

    def __pv_havoc__(self, name):
        run = sym.cur()
        v = SeqView(self.arr, sym.SInt(run.fresh(f"h_{name}_off", "int")), sym.SInt(run.fresh(f"h_{name}_len", "int")), self.log, self.sorted_strict, self.name)
        return v


def _us_of(x):
    """microseconds of a real datetime.timedelta or a SymTimedeltaUs"""
    import datetime
    if isinstance(x, SymTimedeltaUs):
        return x.us
    if isinstance(x, datetime.timedelta):
        return (x.days * 86400 + x.seconds) * 1000000 + x.microseconds
    return None


class SymTimedeltaUs(ADT):
    """S5: datetime.timedelta as an exact integer number of microseconds; true division by an int rounds to the
    nearest microsecond, ties to even (CPython's timedelta.__truediv__)."""

    def __init__(self, us):
        self.us = us

    def __pv_isinstance__(self, cls):
        import datetime
        return cls is datetime.timedelta or (isinstance(cls, type) and issubclass(cls, datetime.timedelta))

    def total_seconds(self):
        return sym.SReal(sym.real_expr(self.us)) / 1000000 if isinstance(self.us, sym.SNum) else self.us / 1e6

    def __add__(self, o):
        u = _us_of(o)
        if u is not None:
            return SymTimedeltaUs(self.us + u)
        if isinstance(o, SymDateUs):
            return o + self
        return NotImplemented

    __radd__ = __add__

    def __sub__(self, o):
        u = _us_of(o)
        return SymTimedeltaUs(self.us - u) if u is not None else NotImplemented

    def __rsub__(self, o):
        u = _us_of(o)
        return SymTimedeltaUs(u - self.us) if u is not None else NotImplemented

    def __neg__(self):
        return SymTimedeltaUs(-self.us)

    def __abs__(self):
        return SymTimedeltaUs(abs(self.us))

    def __mul__(self, k):
        if isinstance(k, (int, sym.SInt)):
            return SymTimedeltaUs(self.us * k)
        raise sym.EngineLimit("timedelta * non-integer in the microsecond model")

    __rmul__ = __mul__

    def __truediv__(self, k):
        import z3
        if isinstance(k, int) and k == 2:
            run = sym.cur()
            q = run.fresh("half", "int")
            u = sym.lift(self.us)[0]
            # q = round_half_even(u / 2):  u = 2q (even u);  odd u = 2m+1 -> q = m if m even else m+1
            m = run.fresh("m", "int")
            run.add_def(q, z3.Or(z3.And(u == 2 * q), z3.And(u == 2 * m + 1, z3.If(m % 2 == 0, q == m, q == m + 1))))
            run.add_def(m, z3.Or(u == 2 * q, u == 2 * m + 1))
            return SymTimedeltaUs(sym.SInt(q))
        raise sym.EngineLimit("timedelta division other than /2 in the microsecond model")

    def _cmp(self, o, op):
        u = _us_of(o)
        if u is None:
            return NotImplemented
        return sym.cmp(self.us, u, op)

    def __lt__(self, o):
        return self._cmp(o, "<")

    def __le__(self, o):
        return self._cmp(o, "<=")

    def __gt__(self, o):
        return self._cmp(o, ">")

    def __ge__(self, o):
        return self._cmp(o, ">=")

    def __eq__(self, o):
        u = _us_of(o)
        return False if u is None else sym.cmp(self.us, u, "==")

    __hash__ = object.__hash__

    def __pv_havoc__(self, name):
        return SymTimedeltaUs(sym.SInt(sym.cur().fresh(f"h_{name}", "int")))


class SymDateUs(ADT):
    """Date ADT on an integer-microsecond TAI instant (Date arithmetic goes through datetime: microsecond exact)."""

    def __init__(self, us, scale="UTC"):
        self.us, self.scale = us, scale

    def __pv_isinstance__(self, cls):
        return getattr(cls, "__name__", "") == "Date"

    def __sub__(self, o):
        if isinstance(o, SymDateUs):
            return SymTimedeltaUs(self.us - o.us)
        u = _us_of(o)
        return SymDateUs(self.us - u, self.scale) if u is not None else NotImplemented

    def __add__(self, o):
        u = _us_of(o)
        return SymDateUs(self.us + u, self.scale) if u is not None else NotImplemented

    __radd__ = __add__

    def _cmp(self, o, op):
        return sym.cmp(self.us, o.us, op)

    def __lt__(self, o):
        return self._cmp(o, "<")

    def __le__(self, o):
        return self._cmp(o, "<=")

    def __gt__(self, o):
        return self._cmp(o, ">")

    def __ge__(self, o):
        return self._cmp(o, ">=")

    def __eq__(self, o):
        return isinstance(o, SymDateUs) and self._cmp(o, "==")

    def __ne__(self, o):
        return not isinstance(o, SymDateUs) or self._cmp(o, "!=")

    __hash__ = object.__hash__

    def __pv_havoc__(self, name):
        return SymDateUs(sym.SInt(sym.cur().fresh(f"h_{name}", "int")), self.scale)


class TimedState(ADT):
    """a propagated state of which only the date (and an event slot) matters to the code under contract"""

    def __init__(self, date, tag=None):
        self.date, self.event, self.tag = date, None, tag

    def __pv_isinstance__(self, cls):
        return getattr(cls, "__name__", "") in ("StateVector", "Orbit")

    def __pv_havoc__(self, name):
        return TimedState(self.date.__pv_havoc__(name + "_date"), self.tag)


def round_us(seconds):
    """integer microseconds nearest to `seconds` (S5: timedelta constructors round to the nearest microsecond,
    ties to even; only |error| <= 0.5 us is used)"""
    import z3
    if isinstance(seconds, (int, float)) and not isinstance(seconds, bool):
        return int(round(seconds * 1e6))
    run = sym.cur()
    e = sym.real_expr(seconds) * 1000000
    k = run.fresh("us", "int")
    run.add_def(k, 2 * z3.ToReal(k) <= 2 * e + 1, 2 * z3.ToReal(k) >= 2 * e - 1)
    return sym.SInt(k)


def sym_timedelta(days=0, seconds=0, microseconds=0, milliseconds=0, minutes=0, hours=0, weeks=0):
    """stand-in for the datetime.timedelta constructor"""
    total = seconds + 60 * minutes + 3600 * hours
    us = round_us(total) if not (isinstance(total, int)) else total * 1000000
    dd = days + 7 * weeks
    if isinstance(dd, (sym.SReal, float)):
        us = us + round_us(dd * 86400)
    else:
        us = us + dd * 86400 * 1000000
    us = us + microseconds + 1000 * milliseconds
    return SymTimedeltaUs(us)


class SymDatetimeUs(ADT):
    """naive datetime.datetime as integer microseconds since MJD_T0 = 1858-11-17 (S5)"""

    def __init__(self, us):
        self.us = us
        self.tzinfo = None

    def __pv_isinstance__(self, cls):
        import datetime
        return cls is datetime.datetime or cls is SymDatetimeUs

    def __add__(self, o):
        u = _us_of(o)
        return SymDatetimeUs(self.us + u) if u is not None else NotImplemented

    __radd__ = __add__

    def __sub__(self, o):
        import datetime
        if isinstance(o, SymDatetimeUs):
            return SymTimedeltaUs(self.us - o.us)
        if isinstance(o, datetime.datetime):
            if o == datetime.datetime(1858, 11, 17):
                return SymTimedeltaUs(self.us)
            raise sym.EngineLimit("difference with a concrete datetime other than MJD_T0")
        u = _us_of(o)
        return SymDatetimeUs(self.us - u) if u is not None else NotImplemented

    def __eq__(self, o):
        return isinstance(o, SymDatetimeUs) and sym.cmp(self.us, o.us, "==")

    __hash__ = object.__hash__


def _td_components(self):
    """days / seconds / microseconds of a timedelta (python normalisation: 0 <= seconds < 86400, 0 <= us < 10^6)"""
    us = self.us
    day_us = 86400 * 1000000
    days = us // day_us
    rem = us - days * day_us
    secs = rem // 1000000
    micro = rem - secs * 1000000
    return days, secs, micro


SymTimedeltaUs.days = property(lambda self: _td_components(self)[0])
SymTimedeltaUs.seconds = property(lambda self: _td_components(self)[1])
SymTimedeltaUs.microseconds = property(lambda self: _td_components(self)[2])


def _td_mod(self, o):
    u = _us_of(o)
    if u is None:
        return NotImplemented
    return SymTimedeltaUs(self.us % u)


def _td_div(self, k):
    u = _us_of(k)
    if u is not None:
        return sym.SReal(sym.real_expr(self.us)) / sym.SReal(sym.real_expr(u))
    return SymTimedeltaUs._div_int(self, k)


SymTimedeltaUs._div_int = SymTimedeltaUs.__truediv__
SymTimedeltaUs.__truediv__ = _td_div
SymTimedeltaUs.__mod__ = _td_mod
SymTimedeltaUs.__bool__ = lambda self: bool(self.us != 0)


def _real_plus_td(real_dt, td):
    import datetime
    if real_dt == datetime.datetime(1858, 11, 17):
        return SymDatetimeUs(td.us)
    raise sym.EngineLimit("concrete datetime + symbolic timedelta (only MJD_T0 is supported)")


_old_radd = SymTimedeltaUs.__radd__


def _td_radd(self, o):
    import datetime
    if isinstance(o, datetime.datetime):
        return _real_plus_td(o, self)
    return _old_radd(self, o)


SymTimedeltaUs.__radd__ = _td_radd


sym_timedelta.__pv_instancecheck__ = lambda obj: isinstance(obj, (SymTimedeltaUs, SymTimedelta))


def _td_divmod(self, o):
    u = _us_of(o)
    if u is None:
        return NotImplemented
    q = self.us // u
    return q, SymTimedeltaUs(self.us - q * u)


SymTimedeltaUs.__divmod__ = _td_divmod
SymTimedeltaUs.__floordiv__ = lambda self, o: _td_divmod(self, o)[0]
