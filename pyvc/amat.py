"""pyvc.amat -- abstract matrices: words in an uninterpreted monoid with transpose, used where a
property is about the *algebra* of frame rotations (C14, C02 composition), not their entries.

Decision procedure: normal forms under the rewrite rules below (each is a law that holds for real
square matrices / for any consistent family of frame rotations -- the latter is what C02
establishes for beyond's frames; the rules are listed in the evidence as assumed):

    (ab)c = a(bc),  aI = Ia = a,  (ab)^T = b^T a^T,  a^TT = a,  I^T = I,  S^T = S for generators
    declared symmetric,
    R(f,f) = I,   R(g,h) R(f,g) = R(f,h)           (rotations between frames at one date)
    L(k,s) L(k,s)^T = L(k,s)^T L(k,s) = I           (expanded QSW/TNW matrices: orthogonal)
    a state re-expressed in frame g, whatever frame it was expressed in before: st(st(s,f),g) = st(s,g)

Equal normal forms  =>  equal in every model (sound).  Different normal forms are reported as an
abstract refutation and must be replayed on the real code to count.
"""
from . import sym

AXIOM_TEXT = [
    "matrix product is associative with unit I; transpose is an involutive anti-automorphism",
    "frame rotations at one date form a consistent family: R(f,f)=I, R(g,h)R(f,g)=R(f,h)  (C02 composition/inverse obligations)",
    "expanded QSW/TNW matrices are orthogonal: L L^T = L^T L = I  (C17 obligations + expand block structure)",
    "a physical state re-expressed in frame g does not depend on the frame it was expressed in before",
]


def state(sid, frame):
    """state `sid` expressed in `frame`; sid may itself be ('st', sid0, f)"""
    while isinstance(sid, tuple) and sid[0] == "st":
        sid = sid[1]
    return ("st", sid, frame)


def _norm(word):
    """word: tuple of atoms (kind, args, transposed); returns the reduced word"""
    out = []
    for a in word:
        kind, args, t = a
        if kind == "I":
            continue
        if kind == "R" and args[0] == args[1]:
            continue
        if kind == "S":  # symmetric generator
            a = (kind, args, False)
        if out:
            pk, pa, pt = out[-1]
            # R(g,h) . R(f,g) = R(f,h)
            if kind == "R" and pk == "R" and not t and not pt and pa[0] == args[1]:
                out.pop()
                new = ("R", (args[0], pa[1]), False)
                if new[1][0] != new[1][1]:
                    out.append(new)
                continue
            # R(f,g)^T . R(g,h)^T = (R(g,h) R(f,g))^T = R(f,h)^T
            if kind == "R" and pk == "R" and t and pt and pa[1] == args[0]:
                out.pop()
                new = ("R", (pa[0], args[1]), True)
                if new[1][0] != new[1][1]:
                    out.append(new)
                continue
            if kind == "L" and pk == "L" and pa == args and t != pt:
                out.pop()
                continue
            # X . X^-1 = X^-1 . X = I  (kind 'GI' is the inverse of generator 'G' with the same arguments)
            if {kind, pk} == {"G", "GI"} and pa == args and t == pt:
                out.pop()
                continue
        out.append(a)
    res = tuple(out)
    return res if res == tuple(word) else _norm(res)


class AMat:
    __array_priority__ = 10000
    __array_ufunc__ = None

    def __init__(self, word):
        self.w = _norm(tuple(word))

    @staticmethod
    def gen(name, symmetric=False):
        return AMat([("S" if symmetric else "G", (name,), False)])

    @staticmethod
    def I():
        return AMat([])

    @staticmethod
    def R(f, g):
        return AMat([("R", (f, g), False)])

    @staticmethod
    def L(kind, st):
        return AMat([("L", (kind, st), False)])

    @staticmethod
    def of(x):
        if isinstance(x, AMat):
            return x
        if isinstance(x, ABase):
            return x.val
        raise sym.EngineLimit(f"cannot use {type(x)} as an abstract matrix")

    def __matmul__(self, o):
        return AMat(self.w + AMat.of(o).w)

    def __rmatmul__(self, o):
        return AMat(AMat.of(o).w + self.w)

    @property
    def T(self):
        return AMat([(k, a, not t) for (k, a, t) in reversed(self.w)])

    def inv(self):
        """inverse of a product of invertible generators: (AB)^-1 = B^-1 A^-1, (A^T)^-1 = (A^-1)^T"""
        flip = {"G": "GI", "GI": "G"}
        if any(k not in flip for k, a, t in self.w):
            raise sym.EngineLimit("inverse of a non-generator abstract matrix")
        return AMat([(flip[k], a, t) for (k, a, t) in reversed(self.w)])

    def same(self, o):
        return self.w == AMat.of(o).w

    def __repr__(self):
        def at(a):
            k, args, t = a
            s = f"{k}{args}" if k not in ("G", "S") else str(args[0])
            return s + ("^T" if t else "")
        return " . ".join(at(a) for a in self.w) or "I"

    def copy(self):
        return AMat(self.w)


class ABase:
    """the `.base` buffer of an ndarray subclass holding an abstract matrix: supports the in-place
    `setfield(value, dtype=float)` store used by beyond"""

    def __init__(self, val):
        self.val = val
        self.stores = 0

    def setfield(self, value, dtype=None, offset=0):
        self.val = AMat.of(value)
        self.stores += 1

    def __matmul__(self, o):
        return self.val @ o

    def __rmatmul__(self, o):
        return AMat.of(o) @ self.val

    @property
    def T(self):
        return self.val.T

    def copy(self):
        return ABase(self.val)


def install_axioms(run):
    for t in AXIOM_TEXT:
        run.axioms_used.add(t)
