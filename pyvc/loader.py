"""pyvc.loader -- re-reads the real source of `beyond` from the working tree on every run and
makes its functions executable on symbolic values.

What is executed is the function's own AST, compiled by CPython.  The only source
transformation is the cut-point rewriting of loops for which the sidecar contract supplies an
invariant; everything else is name substitution in the function's global namespace
(`np` -> pyvc.snp.NP, numpy elementwise functions -> pyvc.sym, a few builtins, callee contracts).
Docstrings and annotations are kept (they are inert at run time).
"""
import ast
import builtins
import copy
import hashlib
import importlib
import os
import types

import numpy as np

from . import sym, snp

REPO = os.environ.get("BEYOND_REPO", "/repo")


def module_path(modname):
    p = os.path.join(REPO, *modname.split("."))
    if os.path.isdir(p):
        return os.path.join(p, "__init__.py")
    return p + ".py"


_src_cache = {}


def module_source(modname):
    if modname not in _src_cache:
        path = module_path(modname)
        with open(path, encoding="utf-8") as f:
            text = f.read()
        _src_cache[modname] = (text, ast.parse(text, filename=path), path)
    return _src_cache[modname]


def find_def(modname, qual):
    """FunctionDef node for 'func' or 'Class.func' (or 'Class.prop.fset') in the module's source"""
    text, tree, path = module_source(modname)
    parts = qual.split(".")
    want_setter = False
    if parts[-1] in ("fset", "fget"):
        want_setter = parts[-1] == "fset"
        parts = parts[:-1]
    body = tree.body
    node = None
    for i, p in enumerate(parts):
        cands = [n for n in body if isinstance(n, (ast.FunctionDef, ast.ClassDef)) and n.name == p]
        if not cands:
            raise sym.EngineLimit(f"{modname}:{qual} not found in {path}")
        if i == len(parts) - 1 and len(cands) > 1:
            # property getter / setter share a name
            def is_setter(n):
                return any(isinstance(d, ast.Attribute) and d.attr == "setter" for d in n.decorator_list)
            cands = [n for n in cands if isinstance(n, ast.FunctionDef) and is_setter(n) == want_setter] or cands
        node = cands[0]
        body = getattr(node, "body", [])
    return node


def source_hash(modname, qual):
    text, tree, path = module_source(modname)
    node = find_def(modname, qual)
    seg = ast.get_source_segment(text, node) or ""
    return hashlib.sha256(seg.encode()).hexdigest()[:16]


# --------------------------------------------------------------------------------------------
# loop cut-point transformation
# --------------------------------------------------------------------------------------------

class _BreakTx(ast.NodeTransformer):
    """inside the loop body (not nested loops / defs): break -> flag+break ; continue -> break"""

    def visit_While(self, node):
        return node

    def visit_For(self, node):
        return node

    def visit_FunctionDef(self, node):
        return node

    def visit_Break(self, node):
        return [ast.parse("__pv_brk = True").body[0], ast.Break()]

    def visit_Continue(self, node):
        return ast.Break()


def _assigned_names(nodes):
    names = []
    for n in nodes:
        for x in ast.walk(n):
            if isinstance(x, ast.Name) and isinstance(x.ctx, (ast.Store,)):
                if x.id not in names:
                    names.append(x.id)
    return names


class LoopTx(ast.NodeTransformer):
    def __init__(self, fname, specs):
        self.fname, self.specs, self.ordinal = fname, specs, -1
        self.used = set()

    def visit_FunctionDef(self, node):
        self.generic_visit(node)
        return node

    def _cut(self, k, test, body, pre=(), orelse=()):
        key = f"{self.fname}#{k}"
        names = _assigned_names(body)
        names = [n for n in names if not n.startswith("__pv_once")]
        for extra in getattr(self.specs.get(k), "modifies", ()) or ():
            if extra not in names:
                names.append(extra)  # objects mutated in place (list.append, item stores)
        out = []
        out += ast.parse(f"__pv_l = __pv.loop_init({key!r}, dict(locals()), {names!r})").body
        for n in names:
            out += ast.parse(f"if {n!r} in __pv_l: {n} = __pv_l[{n!r}]").body
        out += ast.parse(f"__pv.loop_assume({key!r}, dict(locals()))").body
        out += ast.parse("__pv_brk = False").body
        inner = list(pre) + [_BreakTx().visit(copy.deepcopy(s)) for s in body]
        flat = []
        for s in inner:
            flat.extend(s if isinstance(s, list) else [s])
        once = ast.For(target=ast.Name("__pv_once", ast.Store()), iter=ast.Tuple([ast.Constant(0)], ast.Load()),
                       body=flat, orelse=[])
        guard_body = ast.parse(f"__pv_v = __pv.loop_variant({key!r}, dict(locals()))").body + [once] + \
            ast.parse(f"if not __pv_brk:\n    __pv.loop_step({key!r}, dict(locals()), __pv_v)").body
        out.append(ast.If(test=test, body=guard_body, orelse=[]))
        out += ast.parse(f"__pv.loop_exit({key!r}, dict(locals()), __pv_brk)").body
        if orelse:
            out.append(ast.If(test=ast.parse("not __pv_brk", mode="eval").body, body=list(orelse), orelse=[]))
        return out

    def visit_While(self, node):
        self.ordinal += 1
        k = self.ordinal
        self.generic_visit(node)
        if k not in self.specs:
            return node
        self.used.add(k)
        return self._cut(k, node.test, node.body, orelse=node.orelse)

    def visit_For(self, node):
        self.ordinal += 1
        k = self.ordinal
        self.generic_visit(node)
        if k not in self.specs:
            return node
        self.used.add(k)
        # for T in IT: body   ==>   __pv_it = __pv.for_iter(IT); __pv_i = 0
        #                           while __pv_i < __pv_it.length: T = __pv_it.item(__pv_i); __pv_i += 1; body
        it, i = f"__pv_it{k}", f"__pv_i{k}"
        pre = [ast.Assign(targets=[node.target], value=ast.parse(f"{it}.item({i})", mode="eval").body, lineno=0),
               ast.parse(f"{i} = {i} + 1").body[0]]
        head = [ast.Assign(targets=[ast.Name(it, ast.Store())],
                           value=ast.Call(ast.Attribute(ast.Name("__pv", ast.Load()), "for_iter", ast.Load()),
                                          [node.iter], []), lineno=0),
                ast.parse(f"{i} = 0").body[0]]
        test = ast.parse(f"{i} < {it}.length", mode="eval").body
        body = node.body + [ast.parse(f"{i} = {i}").body[0]]  # make the index an assigned (havocked) name
        return head + self._cut(k, test, body, pre=pre, orelse=node.orelse)


class CompTx(ast.NodeTransformer):
    """list / set / dict comprehensions without conditions -> __pv.comp(kind, [iterable thunks], body thunk), so that an iterable of symbolic
    size (one that defines __pv_comp__) can give the comprehension its denotation; over ordinary iterables __pv.comp evaluates it as CPython would.
    Only applied when the World is created with comps=True."""

    def _targets(self, t):
        if isinstance(t, ast.Name):
            return [t.id], False
        if isinstance(t, ast.Tuple) and all(isinstance(e, ast.Name) for e in t.elts):
            return [e.id for e in t.elts], True
        return None, None

    def _wrap(self, expr, gens, upto):
        """lambda __c0, .., __c{upto-1}: expr   with the comprehension targets bound from the __ck"""
        for k in reversed(range(upto)):
            names, star = self._targets(gens[k].target)
            arg = ast.Name(f"__c{k}", ast.Load())
            lam = ast.Lambda(args=ast.arguments(posonlyargs=[], args=[ast.arg(n) for n in names], kwonlyargs=[], kw_defaults=[], defaults=[]), body=expr)
            expr = ast.Call(lam, [ast.Starred(arg, ast.Load())] if star else [arg], [])
        return ast.Lambda(args=ast.arguments(posonlyargs=[], args=[ast.arg(f"__c{k}") for k in range(upto)], kwonlyargs=[], kw_defaults=[], defaults=[]), body=expr)

    def _rewrite(self, node, kind, body):
        self.generic_visit(node)
        gens = node.generators
        if any(g.ifs or g.is_async or self._targets(g.target)[0] is None for g in gens):
            return node
        iters = ast.List([self._wrap(g.iter, gens, k) for k, g in enumerate(gens)], ast.Load())
        return ast.Call(ast.Attribute(ast.Name("__pv", ast.Load()), "comp", ast.Load()), [ast.Constant(kind), iters, self._wrap(body, gens, len(gens))], [])

    def visit_ListComp(self, node):
        return self._rewrite(node, "list", node.elt)

    def visit_SetComp(self, node):
        return self._rewrite(node, "set", node.elt)

    def visit_DictComp(self, node):
        return self._rewrite(node, "dict", ast.Tuple([node.key, node.value], ast.Load()))


class LoopSpec:
    """invariant(env) -> list of (label, SBool); variant(env) -> SInt/SReal or None;
    havoc(env, names) -> {name: fresh value} (default: by type of the current value);
    ghost_step(env): called before the step check (lets the contract update ghost state)"""

    def __init__(self, invariant, variant=None, havoc=None, ghost_step=None, variant_lb=0, variant_dec=None, at_exit=None, modifies=()):
        self.invariant, self.variant, self.havoc, self.ghost_step = invariant, variant, havoc, ghost_step
        self.modifies = tuple(modifies)  # names of objects mutated in place by the body
        self.at_exit = at_exit  # at_exit(env, broke): may emit obligations about the loop's exit state
        self.variant_lb = variant_lb
        self.variant_dec = variant_dec  # minimal decrease (None: strict decrease of an integer)


class LoopRuntime:
    """the `__pv` object visible to transformed code"""

    def __init__(self, specs):
        self.specs = specs  # key 'func#k' -> LoopSpec
        self.ghost = {}
        self.iters = {}

    def _inv(self, key, env):
        env = dict(env)
        env["ghost"] = self.ghost
        return self.specs[key].invariant(env)

    def loop_init(self, key, env, names):
        run = sym.cur()
        for label, cond in self._inv(key, env):
            run.oblige(f"inv.{key}.init.{label}", "inv", cond)
        spec = self.specs[key]
        if spec.havoc is not None:
            env2 = dict(env)
            env2["ghost"] = self.ghost
            return spec.havoc(env2, names)
        out = {}
        for n in names:
            if n in env:
                out[n] = havoc_like(env[n], n)
        return out

    def loop_assume(self, key, env):
        run = sym.cur()
        for label, cond in self._inv(key, env):
            run.add_fact("inv", f"inv.{key}.{label}", sym.lift_bool(cond))

    def loop_variant(self, key, env):
        spec = self.specs[key]
        if spec.variant is None:
            return None
        env = dict(env)
        env["ghost"] = self.ghost
        return spec.variant(env)

    def loop_step(self, key, env, v0):
        run = sym.cur()
        spec = self.specs[key]
        if spec.ghost_step is not None:
            env2 = dict(env)
            env2["ghost"] = self.ghost
            spec.ghost_step(env2)
        for label, cond in self._inv(key, env):
            run.oblige(f"inv.{key}.step.{label}", "inv", cond)
        if spec.variant is not None:
            env2 = dict(env)
            env2["ghost"] = self.ghost
            v1 = spec.variant(env2)
            run.oblige(f"inv.{key}.variant.bounded", "inv", v0 >= spec.variant_lb)
            if spec.variant_dec is None:
                run.oblige(f"inv.{key}.variant.decreases", "inv", v1 < v0)
            else:
                run.oblige(f"inv.{key}.variant.decreases", "inv", v1 <= v0 - spec.variant_dec)
        raise sym.PathEnd("loop cut-point")

    def loop_exit(self, key, env, broke=False):
        spec = self.specs[key]
        if spec.at_exit is not None:
            env = dict(env)
            env["ghost"] = self.ghost
            spec.at_exit(env, broke)

    def comp(self, kind, iters, body):
        first = iters[0]()
        if hasattr(first, "__pv_comp__"):
            return first.__pv_comp__(kind, iters, body)

        def rec(k, vals, it):
            for x in it:
                if k + 1 == len(iters):
                    yield body(*vals, x)
                else:
                    nxt = iters[k + 1](*vals, x)
                    if hasattr(nxt, "__pv_comp__"):
                        raise sym.EngineLimit("comprehension: symbolic iterable below a concrete one")
                    yield from rec(k + 1, vals + [x], nxt)
        out = rec(0, [], first)
        return list(out) if kind == "list" else set(out) if kind == "set" else dict(out)

    def for_iter(self, it):
        if hasattr(it, "length") and hasattr(it, "item"):
            return it
        if isinstance(it, range):
            return _RangeView(it)
        raise sym.EngineLimit(f"for-loop with invariant over {type(it)}: need a SeqView-like iterable")


class _RangeView:
    def __init__(self, r):
        self.r, self.length = r, len(r)

    def item(self, i):
        return self.r.start + i * self.r.step


def havoc_like(v, name):
    run = sym.cur()
    if isinstance(v, sym.SInt) or (isinstance(v, (int, np.integer)) and not isinstance(v, bool)):
        return sym.SInt(run.fresh(f"h_{name}", "int"))
    if isinstance(v, (sym.SReal, float, np.floating)):
        return sym.SReal(run.fresh(f"h_{name}"))
    if isinstance(v, sym.SBool) or isinstance(v, bool):
        return sym.SBool(run.fresh(f"h_{name}", "bool"))
    if isinstance(v, np.ndarray) and v.dtype == object:
        out = np.empty(v.shape, dtype=object)
        o = out.ravel()
        for i in range(o.size):
            o[i] = sym.SReal(run.fresh(f"h_{name}{i}"))
        res = out.reshape(v.shape)
        return res
    if hasattr(v, "__pv_havoc__"):
        return v.__pv_havoc__(name)
    raise sym.EngineLimit(f"cannot havoc {name} of type {type(v)}; give the loop a havoc function")


# --------------------------------------------------------------------------------------------
# builtins seen by shadow code
# --------------------------------------------------------------------------------------------

def _sym_isinstance(obj, cls):
    if cls is _sym_int:
        cls = int
    elif cls is _sym_float:
        cls = float
    if isinstance(obj, Obj):
        real = object.__getattribute__(obj, "_pv_real")
        if isinstance(cls, tuple):
            return any(_sym_isinstance(obj, c) for c in cls)
        virt = getattr(cls, "__pv_real__", cls)
        return isinstance(virt, type) and issubclass(real, virt)
    if isinstance(cls, tuple):
        return any(_sym_isinstance(obj, c) for c in cls)
    chk = getattr(cls, "__pv_instancecheck__", None)
    if chk is not None:
        return bool(chk(obj))
    hook = getattr(type(obj), "__pv_isinstance__", None)
    if hook is not None:
        return bool(hook(obj, cls)) or isinstance(obj, cls)
    if cls is float and isinstance(obj, sym.SReal):
        return True
    if cls is int and isinstance(obj, sym.SInt):
        return True
    return isinstance(obj, cls)


def _sym_float(x=0.0):
    if isinstance(x, sym.SNum):
        return sym.SReal(sym.real_expr(x))
    if isinstance(x, sym.Dual):
        return x
    return float(x)


def _sym_int(x=0, *a):
    if isinstance(x, sym.SInt):
        return x
    if isinstance(x, sym.SReal):
        # int() truncates toward zero
        run = sym.cur()
        import z3
        if z3.is_app_of(x.e, z3.Z3_OP_TO_REAL):
            return sym.SInt(x.e.arg(0))
        n0 = sym.num_of(z3.simplify(x.e))
        if n0 is not None:
            return int(n0)
        # one truncation variable per expression (the same real truncated twice is the same integer: stated by construction rather than left to the solver)
        memo = run.__dict__.setdefault("trunc_memo", {})
        key = x.e.sexpr()
        if key in memo:
            return sym.SInt(memo[key])
        k = run.fresh("trunc", "int")
        memo[key] = k
        e = x.e
        kr = z3.ToReal(k)
        run.add_def(k, z3.If(e >= 0, z3.And(kr <= e, e < kr + 1), z3.And(kr >= e, e > kr - 1)))
        return sym.SInt(k)
    return int(x, *a)


def _sym_len(x):
    if hasattr(x, "length") and not isinstance(x, (list, tuple, dict, str, np.ndarray)):
        n = x.length
        if hasattr(x, "concrete_length") and not isinstance(n, int):
            k = x.concrete_length()
            return n if k is None else k
        return n
    return len(x)


def _sym_round(x, nd=None):
    if isinstance(x, sym.SNum):
        raise sym.EngineLimit("round() of symbolic value")
    return round(x, nd) if nd is not None else round(x)


SHADOW_BUILTINS = dict(vars(builtins))
SHADOW_BUILTINS.update(isinstance=_sym_isinstance, float=_sym_float, int=_sym_int, len=_sym_len, round=_sym_round)


# --------------------------------------------------------------------------------------------
# shadow modules / classes / objects
# --------------------------------------------------------------------------------------------

class World:
    """One consistent set of shadow namespaces (per contract run): stubs and loop specs are fixed
    at creation.  stubs: {'pkg.mod:func' | 'pkg.mod:Class.meth': callable}."""

    def __init__(self, stubs=None, loops=None, np_hooks=None, names=None, comps=False):
        self.comps = comps  # rewrite comprehensions into __pv.comp calls (iterables of symbolic size)
        self.stubs = dict(stubs or {})
        self.loops = dict(loops or {})  # 'pkg.mod:Class.meth#k' -> LoopSpec
        self.names = dict(names or {})  # 'pkg.mod' -> {global name: replacement}
        self.mods = {}
        self.np = snp.NP()
        self.np.hooks.update(np_hooks or {})
        self.loaded = {}  # 'pkg.mod:qual' -> source hash (functions whose real source was executed)
        self.rt = LoopRuntime({})
        self.np.hooks.setdefault("ndarray_new", self._ndarray_new)
        self.stub_calls = {}

    def module(self, modname):
        if modname not in self.mods:
            self.mods[modname] = ShadowModule(self, modname)
        return self.mods[modname]

    def fn(self, ref):
        modname, qual = ref.split(":")
        return self.module(modname).get(qual)

    def _ndarray_new(self, clsobj, shape, dtype=float, buffer=None, **kw):
        """np.ndarray.__new__(cls, shape, buffer=values, dtype=float) for a stand-in class: an Obj over its own store"""
        if buffer is None or kw:
            raise sym.EngineLimit("np.ndarray.__new__ of a stand-in class without a buffer")
        o = Obj(self, clsobj._pv_real)
        view, base = snp.make_store(np.asarray(buffer, dtype=object).ravel())
        object.__getattribute__(o, "__dict__")["_pv_nd"] = view
        return o

    def obj(self, ref, **attrs):
        modname, qual = ref.split(":")
        real = getattr(importlib.import_module(modname), qual)
        o = Obj(self, real)
        for k, v in attrs.items():
            object.__getattribute__(o, "__dict__")[k] = v
        return o

    def cls(self, ref):
        modname, qual = ref.split(":")
        real = getattr(importlib.import_module(modname), qual)
        return ClsObj(self, real)

    def new(self, ref, *a, **k):
        """stand-in instance initialised by the class's real (shadowed) __init__"""
        modname, qual = ref.split(":")
        o = self.obj(ref)
        hit = _class_lookup(self, object.__getattribute__(o, "__dict__")["_pv_real"], "__init__")
        if hit is None:
            raise sym.EngineLimit(f"{ref}.__init__ not found in source")
        hit[1](o, *a, **k)
        return o


class _ModProxy:
    """a beyond sub-module seen from shadow code: functions resolve to their shadow versions (or stubs), the rest to the real module"""

    def __init__(self, world, real):
        self._w, self._real = world, real

    def __getattr__(self, name):
        v = getattr(self._real, name)
        if isinstance(v, types.FunctionType) and v.__module__ == self._real.__name__:
            return self._w.module(self._real.__name__).get(name)
        return v


class ShadowModule:
    def __init__(self, world, modname):
        self.world, self.modname = world, modname
        self.real = importlib.import_module(modname)
        text, tree, path = module_source(modname)
        self.tree = tree
        ns = dict(vars(self.real))
        ns["__builtins__"] = dict(SHADOW_BUILTINS, __import__=self._import)
        ns["__pv"] = world.rt
        ns["__pv_super"] = lambda clsname, obj: _Super(world, self.modname, clsname, obj)
        self.ns = ns
        self.funcs = {}
        # numpy and its elementwise functions
        for k, v in list(ns.items()):
            if v is np:
                ns[k] = world.np
            elif v is np.linalg:
                ns[k] = world.np.linalg
            elif v is np.linalg.norm:
                ns[k] = world.np.linalg.norm
            elif v is np.linalg.inv:
                ns[k] = world.np.linalg.inv
            else:
                try:
                    if v in snp.NUMPY_FUNCS:
                        ns[k] = snp.NUMPY_FUNCS[v]
                        continue
                except TypeError:
                    pass
                nm = getattr(v, "__name__", None)
                if nm and not k.startswith("__") and getattr(np, nm, None) is v and nm in snp.NP.__dict__:
                    ns[k] = getattr(world.np, nm)
        self._lazy_done = False

    def _import(self, name, globals=None, locals=None, fromlist=(), level=0):
        """`from .mod import X` inside a function body: names overridden for this module (World.names) win, beyond
        functions resolve to their shadows, everything else is the real object"""
        real = builtins.__import__(name, globals, locals, fromlist, level)
        if not fromlist or not getattr(real, "__name__", "").startswith("beyond"):
            return real
        over = self.world.names.get(self.modname, {})
        proxy = _ModProxy(self.world, real)

        class _Imp:
            def __getattr__(_s, attr):
                if attr in over:
                    return over[attr]
                return getattr(proxy, attr)
        return _Imp()

    def _finish(self):
        """replace beyond functions visible in this namespace by their shadows / stubs"""
        if self._lazy_done:
            return
        self._lazy_done = True
        w = self.world
        # module-level functions of this module
        for node in self.tree.body:
            if isinstance(node, ast.FunctionDef):
                self.ns[node.name] = self._make(node.name)
        for k, v in list(self.ns.items()):
            if isinstance(v, types.FunctionType) and v.__module__ and v.__module__.startswith("beyond") \
                    and v.__module__ != self.modname and not k.startswith("__"):
                try:
                    self.ns[k] = w.module(v.__module__).get(v.__name__)
                except sym.EngineLimit:
                    pass
        # sub-modules of beyond referenced as modules (e.g. `from . import iau1980`): attribute access gives the shadow functions
        for k, v in list(self.ns.items()):
            if isinstance(v, types.ModuleType) and getattr(v, "__name__", "").startswith("beyond.") and v.__name__ != self.modname:
                self.ns[k] = _ModProxy(w, v)
        for k, v in w.names.get(self.modname, {}).items():
            self.ns[k] = v

    def _compile(self, node, qual):
        w = self.world
        node = copy.deepcopy(node)
        if "." in qual and node.args.args:
            # zero-argument super() needs a class cell; rewritten to an explicit MRO-successor lookup
            clsname, first = qual.split(".")[0], node.args.args[0].arg
            for x in ast.walk(node):
                if isinstance(x, ast.Call) and isinstance(x.func, ast.Name) and x.func.id == "super" and not x.args:
                    x.func = ast.Name("__pv_super", ast.Load())
                    x.args = [ast.Constant(clsname), ast.Name(first, ast.Load())]
        # decorators are applied by Obj/ClsObj (property, classmethod, staticmethod); memoize dropped (S9)
        node.decorator_list = []
        if w.comps:
            node = CompTx().visit(node)
        prefix = f"{self.modname}:{qual}#"
        specs = {int(k[len(prefix):]): v for k, v in w.loops.items() if k.startswith(prefix)}
        if specs:
            tx = LoopTx(f"{self.modname}:{qual}", specs)
            node = tx.visit(node)
            missing = set(specs) - tx.used
            if missing:
                raise sym.EngineLimit(f"loop ordinals {missing} of {qual} not found")
            for k, v in specs.items():
                w.rt.specs[f"{self.modname}:{qual}#{k}"] = v
        mod = ast.Module(body=[node], type_ignores=[])
        ast.fix_missing_locations(mod)
        code = compile(mod, module_path(self.modname), "exec")
        loc = {}
        if "." in qual:
            # default arguments of methods are evaluated in the class body's scope
            real_cls = getattr(self.real, qual.split(".")[0], None)
            if real_cls is not None:
                loc.update({k: v for k, v in vars(real_cls).items() if not k.startswith("__")})
        exec(code, self.ns, loc)
        fn = loc[node.name]
        w.loaded[f"{self.modname}:{qual}"] = source_hash(self.modname, qual)
        return fn

    def _make(self, qual):
        key = f"{self.modname}:{qual}"
        if key in self.world.stubs:
            return self._stub(key)
        if qual not in self.funcs:
            node = find_def(self.modname, qual)
            if not isinstance(node, ast.FunctionDef):
                raise sym.EngineLimit(f"{key} is not a function")
            self.funcs[qual] = self._compile(node, qual)
        return self.funcs[qual]

    def _stub(self, key):
        w = self.world
        f = w.stubs[key]

        def stub(*a, **k):
            w.stub_calls[key] = w.stub_calls.get(key, 0) + 1
            return f(*a, **k)
        stub.__name__ = "stub_" + key
        return stub

    def get(self, qual):
        self._finish()
        if "." not in qual and qual in self.ns and isinstance(self.ns[qual], types.FunctionType):
            if f"{self.modname}:{qual}" in self.world.stubs:
                return self._stub(f"{self.modname}:{qual}")
            return self.ns[qual]
        return self._make(qual)

    def decorators(self, qual):
        node = find_def(self.modname, qual)
        out = []
        for d in node.decorator_list:
            if isinstance(d, ast.Name):
                out.append(d.id)
            elif isinstance(d, ast.Attribute):
                out.append(d.attr)
        return out

    def class_members(self, clsname):
        for n in self.tree.body:
            if isinstance(n, ast.ClassDef) and n.name == clsname:
                return n
        return None


class _Super:
    """super() stand-in: resolves along the real MRO after `clsname`, in the shadow sources"""

    def __init__(self, world, modname, clsname, obj):
        object.__setattr__(self, "_s", (world, obj, getattr(importlib.import_module(modname), clsname)))

    def __getattribute__(self, name):
        w, obj, after = object.__getattribute__(self, "_s")
        real = object.__getattribute__(obj, "__dict__")["_pv_real"] if isinstance(obj, Obj) else obj._pv_real
        hit = _class_lookup(w, real, name, after=after)
        if hit is None:
            if name == "__init__":
                return lambda *a, **k: None
            if name == "__setattr__":
                return lambda n, v: object.__getattribute__(obj, "__dict__").__setitem__(n, v)
            nd = object.__getattribute__(obj, "__dict__").get("_pv_nd") if isinstance(obj, Obj) else None
            if nd is not None:
                # the ndarray part of a stand-in for an ndarray subclass instance
                return getattr(nd, name)
            raise AttributeError(name)
        kind, fn, _ = hit
        if kind == "staticmethod":
            return fn
        if kind == "property":
            return fn(obj)
        return types.MethodType(fn, obj)


def _class_lookup(world, real_cls, name, after=None):
    """find `name` along real_cls.__mro__ in the *source* of each class; returns
    (kind, getter_fn, setter_fn) with kind in method|classmethod|staticmethod|property, or None"""
    mro = list(real_cls.__mro__)
    if after is not None:
        mro = mro[mro.index(after) + 1:]
    for klass in mro:
        modname = getattr(klass, "__module__", "")
        if not modname.startswith("beyond"):
            continue
        sm = world.module(modname)
        sm._finish()
        cdef = sm.class_members(klass.__name__)
        if cdef is None:
            continue
        defs = [n for n in cdef.body if isinstance(n, ast.FunctionDef) and n.name == name]
        if not defs:
            continue
        qual = f"{klass.__name__}.{name}"

        def decos(n):
            return [d.id if isinstance(d, ast.Name) else d.attr for d in n.decorator_list if isinstance(d, (ast.Name, ast.Attribute))]
        if any("property" in decos(n) or "setter" in decos(n) for n in defs):
            getter = sm._make(qual + ".fget") if f"{modname}:{qual}.fget" in world.stubs or any("property" in decos(n) for n in defs) else None
            has_setter = any("setter" in decos(n) for n in defs)
            setter = sm._make(qual + ".fset") if has_setter else None
            return ("property", getter, setter)
        d = decos(defs[0])
        fn = sm._make(qual)
        if name == "__new__":
            return ("staticmethod", fn, None)
        if "classmethod" in d:
            return ("classmethod", fn, None)
        if "staticmethod" in d:
            return ("staticmethod", fn, None)
        return ("method", fn, None)
    return None


class Obj:
    """Stand-in instance of a repo class.  Instance attributes are plain; methods and properties
    are the *shadow* (re-read, symbolic-ready) versions of the class's real source, resolved along
    the real MRO; anything else falls back to the real class attribute (constants)."""

    def __init__(self, world, real_cls):
        d = object.__getattribute__(self, "__dict__")
        d["_pv_world"], d["_pv_real"] = world, real_cls

    def __getattr__(self, name):
        if name.startswith("__") and name.endswith("__"):
            raise AttributeError(name)
        d = object.__getattribute__(self, "__dict__")
        world, real = d["_pv_world"], d["_pv_real"]
        hit = _class_lookup(world, real, name)
        if hit is not None:
            kind, fn, _ = hit
            if kind == "property":
                return fn(self)
            if kind == "classmethod":
                return types.MethodType(fn, ClsObj(world, real))
            if kind == "staticmethod":
                return fn
            return types.MethodType(fn, self)
        # __getattr__ defined in the real source?
        ga = _class_lookup(world, real, "__getattr__")
        if ga is not None:
            return ga[1](self, name)
        try:
            v = getattr(real, name)
        except AttributeError:
            raise AttributeError(name) from None
        if isinstance(v, (types.FunctionType, property)):
            raise sym.EngineLimit(f"{real.__name__}.{name}: source not found for shadowing")
        return v

    def __setattr__(self, name, value):
        d = object.__getattribute__(self, "__dict__")
        world, real = d["_pv_world"], d["_pv_real"]
        hit = _class_lookup(world, real, name)
        if hit is not None and hit[0] == "property":
            if hit[2] is None:
                raise AttributeError(f"can't set attribute {name}")
            hit[2](self, value)
            return
        sa = _class_lookup(world, real, "__setattr__")
        if sa is not None:
            sa[1](self, name, value)
            return
        d[name] = value

    @property
    def __class__(self):
        d = object.__getattribute__(self, "__dict__")
        return ClsObj(d["_pv_world"], d["_pv_real"])


def _forward(name):
    def f(self, *a, **k):
        d = object.__getattribute__(self, "__dict__")
        hit = _class_lookup(d["_pv_world"], d["_pv_real"], name)
        if hit is None:
            if d.get("_pv_nd") is not None and name not in ("__call__", "__eq__", "__ne__"):
                return getattr(d["_pv_nd"], name)(*a, **k)
            if name in ("__eq__", "__ne__"):
                return (self is a[0]) if name == "__eq__" else (self is not a[0])
            raise TypeError(f"{d['_pv_real'].__name__} has no {name} in its source")
        return hit[1](self, *a, **k)
    f.__name__ = name
    return f


for _n in ("__call__", "__getitem__", "__setitem__", "__len__", "__iter__", "__next__", "__contains__", "__add__", "__radd__",
           "__sub__", "__rsub__", "__neg__", "__lt__", "__le__", "__gt__", "__ge__", "__eq__", "__ne__", "__matmul__", "__rmatmul__"):
    setattr(Obj, _n, _forward(_n))
Obj.__hash__ = object.__hash__


class ClsObj:
    def __init__(self, world, real_cls):
        self._pv_world, self._pv_real = world, real_cls
        self.__pv_real__ = real_cls

    def __getattr__(self, name):
        if name.startswith("__pv") or name.startswith("_pv"):
            raise AttributeError(name)
        hit = _class_lookup(self._pv_world, self._pv_real, name)
        if hit is not None:
            kind, fn, _ = hit
            if kind == "classmethod":
                return types.MethodType(fn, self)
            if kind in ("staticmethod", "method"):
                return fn
            return fn
        return getattr(self._pv_real, name)

    @property
    def __name__(self):
        return self._pv_real.__name__

    def __call__(self, *a, **k):
        new = _class_lookup(self._pv_world, self._pv_real, "__new__")
        o = new[1](self, *a, **k) if new is not None else Obj(self._pv_world, self._pv_real)
        hit = _class_lookup(self._pv_world, self._pv_real, "__init__")
        if hit is not None:
            hit[1](o, *a, **k)
        return o

    def __eq__(self, o):
        return isinstance(o, ClsObj) and o._pv_real is self._pv_real or o is self._pv_real

    def __hash__(self):
        return hash(self._pv_real)
