"""pyvc.sym -- symbolic scalar values over z3 (reals, ints, booleans), the algebraic theory of
the transcendental functions that `beyond` uses, dual numbers for time derivatives, and the
per-path run state (facts, definitions, obligations, branch decisions).

Semantics assumed (DESIGN §2.2): S1 floats are reals, S2 ints unbounded, S3 numpy elementwise
functions are the mathematical ones, S4 only the algebraic facts below are known about
transcendental functions.  Everything added to `defs` is a *true fact about the real functions*
(sound, incomplete): c^2+s^2=1, addition formulas, principal ranges and sign relations of the
inverse functions, ch^2-sh^2=1, monotonicity of sinh.
"""
import fractions
import itertools
import math
import numbers

import numpy as np
import z3

Fraction = fractions.Fraction


class PathEnd(BaseException):
    """The current symbolic path is finished (infeasible, or a cut-point closed it)."""


class EngineLimit(BaseException):
    """A construct the engine does not support: reported as CHECKER-ERROR, never skipped."""


# --------------------------------------------------------------------------------------------
# run state
# --------------------------------------------------------------------------------------------

CUR = None  # the active Run (symbolic mode) or None (concrete mode)


def cur():
    if CUR is None:
        raise EngineLimit("no active symbolic run")
    return CUR


class Obligation:
    __slots__ = ("name", "kind", "hyps", "goal", "meta")

    def __init__(self, name, kind, hyps, goal, meta=None):
        self.name, self.kind, self.hyps, self.goal, self.meta = name, kind, hyps, goal, meta or {}


class Run:
    """State of one symbolic execution path."""

    FEAS_TIMEOUT_MS = 1500

    def __init__(self, schedule=()):
        self.schedule = list(schedule)
        self.decisions = []
        self.pending = []  # alternative schedules discovered on this path
        self.facts = []  # (tag, label, z3 bool)   tag in pre|branch|post|lemma|inv|assume
        self.defs = {}  # var name -> [z3 bool]  (definitions / sound axioms about that var)
        self.obls = []
        self.counter = itertools.count()
        self.trig = {}  # z3 ast id -> (expr, c, s)
        self.hyp = {}  # z3 ast id -> (expr, ch, sh)
        self.inputs = {}  # name -> z3 const (declared by the contract)
        self.axioms_used = set()
        self.assumed_used = {}
        self.notes = []
        self._keep = []  # keep z3 asts alive so ids are stable
        self.pi = z3.Real("pi")
        self.defs["pi"] = [self.pi > z3.RealVal("3.14159265358979"), self.pi < z3.RealVal("3.14159265358980")]

    # -- fresh symbols ---------------------------------------------------------------------
    def fresh(self, prefix, sort="real"):
        name = f"{prefix}!{next(self.counter)}"
        v = z3.Real(name) if sort == "real" else z3.Int(name) if sort == "int" else z3.Bool(name)
        return v

    def add_def(self, var, *facts):
        self.defs.setdefault(str(var), []).extend(facts)

    def add_fact(self, tag, label, expr):
        for e in _conjuncts(expr):
            self.facts.append((tag, label, e))

    # -- hypothesis closure ----------------------------------------------------------------
    def closure(self, exprs, depth=None):
        """All definitional facts reachable from the free constants of `exprs` (within `depth` rounds of unfolding when given: fewer hypotheses, never more)."""
        seen_vars, out = set(), []
        seen_defs = set()
        level = [(e, 0) for e in exprs]
        while level:
            e, dp = level.pop()
            for v in _fc(e):
                if v in seen_vars:
                    continue
                seen_vars.add(v)
                for d in self.defs.get(v, ()):
                    if d.get_id() in seen_defs:
                        continue
                    seen_defs.add(d.get_id())
                    out.append(d)
                    if depth is None or dp + 1 < depth:
                        level.append((d, dp + 1))
        return out

    def context(self, goal=None, using=None):
        """Hypotheses for an obligation: path facts (all, or those whose label is in `using`)
        plus the definitional closure of everything mentioned."""
        depth = None
        if using is None:
            facts = [f for (_, _, f) in self.facts]
        else:
            # "@depth=N" in `using`: unfold definitions only N rounds, starting from the goal and the listed facts
            for u in using:
                if isinstance(u, str) and u.startswith("@depth="):
                    depth = int(u.split("=")[1])
            plain = {u[1:] if isinstance(u, str) and u.startswith("~") else u for u in using}
            facts = [f for (tag, lab, f) in self.facts if lab in plain or tag in plain]
        if depth is not None:
            return facts + self.closure(([goal] if goal is not None else []) + list(facts), depth)
        base = list(facts) + ([goal] if goal is not None else [])
        return facts + self.closure(base)

    # -- branching -------------------------------------------------------------------------
    def feasible(self, cond):
        s = z3.Solver()
        s.set("timeout", self.FEAS_TIMEOUT_MS)
        s.set("rlimit", 3000000)
        hyps = self.context(cond)
        s.add(*hyps)
        s.add(cond)
        return s.check() != z3.unsat

    def decide(self, cond):
        idx = len(self.decisions)
        if idx < len(self.schedule):
            choice = self.schedule[idx]
        else:
            t = self.feasible(cond)
            f = self.feasible(z3.Not(cond))
            if t and f:
                choice = True
                self.pending.append(self.decisions + [False])
            elif t:
                choice = True
            elif f:
                choice = False
            else:
                raise PathEnd("infeasible")
        self.decisions.append(choice)
        self.add_fact("branch", f"branch{idx}", cond if choice else z3.Not(cond))
        return choice

    # -- obligations -----------------------------------------------------------------------
    def oblige(self, name, kind, goal, using=None, meta=None, extra_hyps=()):
        if isinstance(goal, SBool):
            goal = goal.e
        if isinstance(goal, (bool, np.bool_)):
            goal = z3.BoolVal(bool(goal))
        # a conjunction is split into one obligation per conjunct (small queries; the ideal back
        # end needs single equalities)
        conj = _conjuncts(goal)
        if len(conj) > 1:
            for i, g in enumerate(conj):
                self.oblige(f"{name}[{i}]", kind, g, using=using, meta=dict(meta or {}), extra_hyps=extra_hyps)
            return
        hyps = self.context(goal, using) + list(extra_hyps)
        if extra_hyps:
            hyps += self.closure(list(extra_hyps))
        if using is not None and any(isinstance(u, str) and u.startswith("~") for u in using):
            # equals for equals: every fact listed with a leading ~ and of the form `compound term == simpler term` (or `ghost name == compound term`) is used as a rewrite
            # rule on the hypotheses and the goal, so that the large
            # terms the code built no longer appear (sound: each rule is itself a hypothesis); the definitions of what the rewritten formulas mention are then added
            rules = []
            as_rules = {u[1:] for u in using if isinstance(u, str) and u.startswith("~")}
            for (tag, lab, f) in self.facts:
                if lab not in as_rules or not z3.is_eq(f):
                    continue
                if tag == "ghost" and f.arg(1).num_args() > 0:
                    rules.append((f.arg(1), f.arg(0)))      # ghost name == compound term: the term is folded into its name
                elif f.arg(0).num_args() > 0 and not z3.is_app_of(f.arg(0), z3.Z3_OP_UMINUS):
                    rules.append((f.arg(0), f.arg(1)))
            new_hyps = [z3.substitute(h, *rules) if rules else h for h in hyps]
            goal2 = z3.substitute(goal, *rules) if rules else goal
            rule_facts = [l == r for (l, r) in rules]
            hyps = [h for h in new_hyps if not z3.is_true(z3.simplify(h))] + self.closure(new_hyps + [goal2], depth=2)
            # the rules themselves stay available in their original form only through what they rewrote
            goal = goal2
            meta = dict(meta or {}, rewritten=len(rules))
        self.obls.append(Obligation(name, kind, hyps, goal, meta))

    def safety(self, what, goal):
        """Safety obligation generated by a partial operation in the code under verification."""
        if isinstance(goal, SBool):
            goal = goal.e
        g = z3.simplify(goal)
        if z3.is_true(g):
            return
        kind0 = what.split(".")[0]
        if kind0 in getattr(self, "safety_assumed", ()):
            self.assumed_used[f"safety of `{kind0}` operations assumed, not proved, in this contract"] = self.safety_assumed[kind0]
            self.add_fact("safety", "assumed_safety", goal)
            return
        seen = self.__dict__.setdefault("safety_seen", set())
        if goal.get_id() in seen:
            return
        seen.add(goal.get_id())
        self._keep.append(goal)
        n = sum(1 for o in self.obls if o.kind == "safety")
        self.oblige(f"safe.{what}.{n}", "safety", goal, using=getattr(self, "safety_using", None))
        # after the check the operation is taken to have succeeded
        self.add_fact("safety", f"safe{n}", goal)


def _conjuncts(g):
    out, stack = [], [g]
    while stack:
        x = stack.pop()
        if z3.is_and(x):
            stack.extend(reversed(x.children()))
        elif z3.is_true(x):
            continue
        else:
            out.append(x)
    return out or [z3.BoolVal(True)]




_FC_MEMO = {}
_FC_KEEP = []


def free_consts(e, seen=None):
    """names of uninterpreted constants in z3 expr e.  Memoised per AST node (terms are DAGs with
    heavy sharing; walking them as trees is exponential).  `seen` (a set of names already reported
    to the caller) only filters the output."""
    names = _fc(e)
    if seen is None:
        return list(names)
    out = [n for n in names if n not in seen]
    return out


def _fc(e):
    i = e.get_id()
    hit = _FC_MEMO.get(i)
    if hit is not None:
        return hit
    stack = [(e, False)]
    while stack:
        x, done = stack.pop()
        xi = x.get_id()
        if xi in _FC_MEMO:
            continue
        if z3.is_quantifier(x):
            kids = [x.body()]
        else:
            kids = x.children()
        if not done:
            stack.append((x, True))
            for k in kids:
                if k.get_id() not in _FC_MEMO:
                    stack.append((k, False))
            continue
        if z3.is_const(x) and not z3.is_quantifier(x):
            res = frozenset([x.decl().name()]) if x.decl().kind() == z3.Z3_OP_UNINTERPRETED else frozenset()
        else:
            res = frozenset().union(*[_FC_MEMO[k.get_id()] for k in kids]) if kids else frozenset()
        _FC_MEMO[xi] = res
        _FC_KEEP.append(x)
    return _FC_MEMO[i]


def reset_caches():
    _FC_MEMO.clear()
    del _FC_KEEP[:]


# --------------------------------------------------------------------------------------------
# numerals
# --------------------------------------------------------------------------------------------

def _is_num(x):
    return isinstance(x, (numbers.Real, np.floating, np.integer)) and not isinstance(x, (bool, np.bool_))


def to_fraction(x):
    if isinstance(x, Fraction):
        return x
    if isinstance(x, (int, np.integer)):
        return Fraction(int(x))
    x = float(x)
    if x != x or x in (float("inf"), float("-inf")):
        raise EngineLimit(f"non-finite float literal {x}")
    # S1: a float that is the nearest double of a small rational (the value CPython computed for
    # a literal expression such as -2/3 or 1/6) is read as that rational
    return nice_rational(x)


def rv(fr):
    fr = to_fraction(fr)
    return z3.RealVal(f"{fr.numerator}/{fr.denominator}") if fr.denominator != 1 else z3.RealVal(fr.numerator)


def num_of(e):
    """Fraction value of a z3 numeral, else None"""
    if z3.is_rational_value(e):
        return Fraction(e.numerator_as_long(), e.denominator_as_long())
    if z3.is_int_value(e):
        return Fraction(e.as_long())
    return None


def nice_rational(x, max_den=5040):
    """S1: a float literal such as the value of `1/3` is read as the nearby small rational"""
    fr = Fraction(float(x)).limit_denominator(max_den)
    if float(fr) == float(x):
        return fr
    # otherwise the shortest decimal that denotes this double (the literal the programmer wrote: 1e-6, 32.184, ...)
    try:
        dec = Fraction(repr(float(x)))
        if float(dec) == float(x):
            return dec
    except (ValueError, ZeroDivisionError):
        pass
    return Fraction(float(x))


# --------------------------------------------------------------------------------------------
# SBool
# --------------------------------------------------------------------------------------------

class SBool:
    __slots__ = ("e",)

    def __init__(self, e):
        self.e = e

    def __bool__(self):
        e = z3.simplify(self.e)
        if z3.is_true(e):
            return True
        if z3.is_false(e):
            return False
        return cur().decide(self.e)

    def __index__(self):
        # a boolean used as an index, e.g. (-1, 1)[x >= 0]: decided by forking
        return int(self.__bool__())

    def __and__(self, o):
        return SBool(z3.And(self.e, lift_bool(o)))

    __rand__ = __and__

    def __or__(self, o):
        return SBool(z3.Or(self.e, lift_bool(o)))

    __ror__ = __or__

    def __invert__(self):
        return SBool(z3.Not(self.e))

    def implies(self, o):
        return SBool(z3.Implies(self.e, lift_bool(o)))

    def __repr__(self):
        return f"SBool({self.e})"

    __hash__ = object.__hash__


def lift_bool(x):
    if isinstance(x, SBool):
        return x.e
    if isinstance(x, (bool, np.bool_)):
        return z3.BoolVal(bool(x))
    if z3.is_expr(x):
        return x
    raise EngineLimit(f"cannot lift {type(x)} to a boolean")


def And(*xs):
    xs = [x for x in _flat(xs)]
    if all(isinstance(x, (bool, np.bool_)) for x in xs):
        return all(xs)
    return SBool(z3.And(*[lift_bool(x) for x in xs]))


def Or(*xs):
    xs = [x for x in _flat(xs)]
    if all(isinstance(x, (bool, np.bool_)) for x in xs):
        return any(xs)
    return SBool(z3.Or(*[lift_bool(x) for x in xs]))


def Not(x):
    if isinstance(x, (bool, np.bool_)):
        return not x
    return SBool(z3.Not(lift_bool(x)))


def Implies(a, b):
    if isinstance(a, (bool, np.bool_)):
        return b if a else True
    return SBool(z3.Implies(lift_bool(a), lift_bool(b)))


def _flat(xs):
    for x in xs:
        if isinstance(x, (list, tuple)):
            yield from _flat(x)
        elif isinstance(x, np.ndarray):
            yield from _flat(x.ravel().tolist())
        else:
            yield x


# --------------------------------------------------------------------------------------------
# SReal / SInt
# --------------------------------------------------------------------------------------------

class SNum:
    """common arithmetic of symbolic reals and ints"""
    __slots__ = ("e",)
    is_int = False

    def __init__(self, e):
        self.e = e

    __hash__ = object.__hash__

    def __repr__(self):
        return f"{type(self).__name__}({self.e})"

    # numeric protocol helpers -----------------------------------------------------------
    def _bin(self, o, op, swap=False):
        if isinstance(o, np.ndarray) or isinstance(o, Dual):
            return NotImplemented
        if isinstance(o, (list, tuple)):
            return NotImplemented
        if not (isinstance(o, SNum) or _is_num(o)):
            return NotImplemented
        a, b = (o, self) if swap else (self, o)
        return op(a, b)

    def __add__(self, o):
        return self._bin(o, add)

    def __radd__(self, o):
        return self._bin(o, add, True)

    def __sub__(self, o):
        return self._bin(o, sub)

    def __rsub__(self, o):
        return self._bin(o, sub, True)

    def __mul__(self, o):
        return self._bin(o, mul)

    def __rmul__(self, o):
        return self._bin(o, mul, True)

    def __truediv__(self, o):
        return self._bin(o, div)

    def __rtruediv__(self, o):
        return self._bin(o, div, True)

    def __floordiv__(self, o):
        return self._bin(o, floordiv)

    def __rfloordiv__(self, o):
        return self._bin(o, floordiv, True)

    def __mod__(self, o):
        return self._bin(o, mod)

    def __divmod__(self, o):
        r = self._bin(o, mod)
        if r is NotImplemented:
            return NotImplemented
        if isinstance(r, SInt) or not isinstance(r, SNum):
            return (self - r) // o, r
        info = getattr(cur(), "modinfo", {}).get(str(r.e))
        if info is None:
            raise EngineLimit("divmod on this operand")
        return SReal(z3.ToReal(info[2])), r  # python: divmod of floats returns float quotient

    def ceil(self):
        return ceil(self)

    def floor(self):
        return floor(self)

    def __rmod__(self, o):
        return self._bin(o, mod, True)

    def __pow__(self, o):
        return self._bin(o, power)

    def __rpow__(self, o):
        return self._bin(o, power, True)

    def __neg__(self):
        return neg(self)

    def __pos__(self):
        return self

    def __abs__(self):
        return absolute(self)

    def __lt__(self, o):
        return self._bin(o, lambda a, b: cmp(a, b, "<"))

    def __le__(self, o):
        return self._bin(o, lambda a, b: cmp(a, b, "<="))

    def __gt__(self, o):
        return self._bin(o, lambda a, b: cmp(a, b, ">"))

    def __ge__(self, o):
        return self._bin(o, lambda a, b: cmp(a, b, ">="))

    def __eq__(self, o):
        if o is None:
            return False
        return self._bin(o, lambda a, b: cmp(a, b, "=="))

    def __ne__(self, o):
        if o is None:
            return True
        return self._bin(o, lambda a, b: cmp(a, b, "!="))

    def __float__(self):
        n = num_of(z3.simplify(self.e))
        if n is not None:
            return float(n)
        raise EngineLimit("float() of a symbolic value")

    def __int__(self):
        raise EngineLimit("int() of a symbolic value; use the engine's int override")

    def __index__(self):
        n = num_of(z3.simplify(self.e))
        if n is not None and n.denominator == 1:
            return int(n)
        raise EngineLimit("symbolic value used as an index")

    def __round__(self, nd=None):
        raise EngineLimit("round() of a symbolic value")

    # numpy ufunc dispatch on object arrays calls these -----------------------------------
    def cos(self):
        return cos(self)

    def sin(self):
        return sin(self)

    def tan(self):
        return tan(self)

    def sqrt(self):
        return sqrt(self)

    def arccos(self):
        return arccos(self)

    def arcsin(self):
        return arcsin(self)

    def arctan(self):
        return arctan(self)

    def arctan2(self, o):
        return arctan2(self, o)

    def cosh(self):
        return cosh(self)

    def sinh(self):
        return sinh(self)

    def arctanh(self):
        return arctanh(self)

    def arcsinh(self):
        return arcsinh(self)

    def conjugate(self):
        return self

    def radians(self):
        return radians(self)

    def degrees(self):
        return degrees(self)


class SReal(SNum):
    __slots__ = ()


class SInt(SNum):
    __slots__ = ()
    is_int = True


def lift(x):
    """python number / SNum  ->  (z3 arith expr, is_int)"""
    if isinstance(x, SNum):
        return x.e, x.is_int
    if isinstance(x, (bool, np.bool_)):
        return z3.IntVal(int(x)), True
    if isinstance(x, (int, np.integer)):
        return z3.IntVal(int(x)), True
    if _is_num(x):
        return rv(x), False
    if isinstance(x, np.ndarray) and x.shape == ():
        return lift(x.item())
    raise EngineLimit(f"cannot lift {type(x)} to a number")


def real_expr(x):
    e, is_int = lift(x)
    if is_int:
        n = num_of(e)
        return rv(n) if n is not None else z3.ToReal(e)
    return e


def wrap(e):
    return SInt(e) if e.sort() == z3.IntSort() else SReal(e)


def concrete(x):
    """Fraction if x is a concrete number (python or z3 numeral), else None"""
    if isinstance(x, SNum):
        return num_of(x.e)
    if _is_num(x):
        return to_fraction(x)
    return None


def _both(a, b):
    ea, ia = lift(a)
    eb, ib = lift(b)
    if ia and ib:
        return ea, eb, True
    return real_expr(a), real_expr(b), False


def _unwrap_num(fr, is_int):
    if is_int and fr.denominator == 1:
        return SInt(z3.IntVal(fr.numerator))
    return SReal(rv(fr))


def add(a, b):
    ca, cb = concrete(a), concrete(b)
    ea, eb, ii = _both(a, b)
    if ca is not None and cb is not None:
        return _unwrap_num(ca + cb, ii)
    if ca == 0:
        return wrap(eb)
    if cb == 0:
        return wrap(ea)
    return wrap(ea + eb)


def sub(a, b):
    ca, cb = concrete(a), concrete(b)
    ea, eb, ii = _both(a, b)
    if ca is not None and cb is not None:
        return _unwrap_num(ca - cb, ii)
    if cb == 0:
        return wrap(ea)
    if ca == 0:
        return wrap(-eb)
    return wrap(ea - eb)


def neg(a):
    ca = concrete(a)
    e, ii = lift(a)
    if ca is not None:
        return _unwrap_num(-ca, ii)
    # -(-x) = x
    if z3.is_app_of(e, z3.Z3_OP_UMINUS):
        return wrap(e.arg(0))
    return wrap(-e)


def mul(a, b):
    ca, cb = concrete(a), concrete(b)
    ea, eb, ii = _both(a, b)
    if ca is not None and cb is not None:
        return _unwrap_num(ca * cb, ii)
    if ca == 0 or cb == 0:
        return _unwrap_num(Fraction(0), ii)
    if ca == 1:
        return wrap(eb)
    if cb == 1:
        return wrap(ea)
    if ca == -1:
        return neg(wrap(eb))
    if cb == -1:
        return neg(wrap(ea))
    return wrap(ea * eb)


def div(a, b):
    """true division: exact for a concrete non-zero divisor, otherwise a fresh quotient q with
    q*b = a, and the safety obligation b != 0 (ZeroDivisionError / inf in the real code)"""
    ca, cb = concrete(a), concrete(b)
    if cb is not None:
        if cb == 0:
            cur().safety("div", z3.BoolVal(False))
            raise PathEnd("division by zero")
        if ca is not None:
            return SReal(rv(ca / cb))
        return mul(SReal(real_expr(a)), SReal(rv(1 / cb)))
    ea, eb = real_expr(a), real_expr(b)
    run = cur()
    run.safety("div", eb != 0)
    if ca == 0:
        return SReal(rv(0))
    memo = run.__dict__.setdefault("memo", {})
    key = ("div", ea.get_id(), eb.get_id())
    if key in memo:
        return SReal(memo[key][2])
    q = run.fresh("q")
    run.add_def(q, q * eb == ea, eb != 0)
    memo[key] = (ea, eb, q)
    run.__dict__.setdefault("quot", {})[str(q)] = (ea, eb)
    return SReal(q)


def floordiv(a, b):
    ea, ia = lift(a)
    eb, ib = lift(b)
    cb = concrete(b)
    run = cur()
    if ia and ib:
        if cb is not None and cb > 0:
            return SInt(ea / eb)  # z3 int division is floor for positive divisor
        # symbolic divisor: python floor semantics, x = k*d + r, r has the sign of d
        run.safety("div", eb != 0)
        k, r = run.fresh("fdiv", "int"), run.fresh("fmod", "int")
        fact = z3.And(ea == k * eb + r, z3.Or(z3.And(eb > 0, r >= 0, r < eb), z3.And(eb < 0, r <= 0, r > eb)))
        run.add_def(k, fact)
        run.add_def(r, fact)
        return SInt(k)
    # real floor division by a positive constant: shares quotient and remainder with `%` on the same operands
    if cb is None or cb <= 0:
        raise EngineLimit("real floor division by a non-constant / non-positive divisor")
    k, r = _quotrem(real_expr(a), real_expr(b))
    return SReal(z3.ToReal(k))  # python: float // float is a float


def _quotrem(ra, rb):
    """x = rb*k + r, 0 <= r < rb, k integer (rb > 0): one pair per operand pair"""
    run = cur()
    memo = run.__dict__.setdefault("memo", {})
    key = ("quotrem", ra.get_id(), rb.get_id())
    if key in memo:
        return memo[key][2], memo[key][3]
    k = run.fresh("k", "int")
    r = run.fresh("r")
    memo[key] = (ra, rb, k, r)
    fact = [r == ra - rb * z3.ToReal(k), r >= 0, r < rb]
    run.add_def(r, *fact)
    run.add_def(k, *fact)
    run.modinfo = getattr(run, "modinfo", {})
    run.modinfo[str(r)] = (ra, rb, k)
    return k, r


def fmod(a, b):
    """numpy.fmod / math.fmod (C semantics): x = b*k + r with k = trunc(x/b), so r has the sign of x; positive constant modulus"""
    ca, cb = concrete(a), concrete(b)
    if ca is not None and cb is not None:
        return math.fmod(ca, cb)
    ra, rb = real_expr(a), real_expr(b)
    pos = cb is not None and cb > 0
    if not pos:
        co = _pi_coeff(rb)
        pos = co is not None and co > 0
    if not pos:
        raise EngineLimit(f"fmod by {rb}: not a positive constant")
    run = cur()
    memo = run.__dict__.setdefault("memo", {})
    key = ("fmodrem", ra.get_id(), rb.get_id())
    if key not in memo:
        k = run.fresh("kt", "int")
        r = run.fresh("rt")
        fact = [r == ra - rb * z3.ToReal(k), z3.If(ra >= 0, z3.And(r >= 0, r < rb), z3.And(r <= 0, r > -rb))]
        run.add_def(r, *fact)
        run.add_def(k, *fact)
        memo[key] = (ra, rb, k, r)
        run._keep.append((r, k))
    return SReal(memo[key][3])


def mod(a, b):
    ea, ia = lift(a)
    eb, ib = lift(b)
    cb = concrete(b)
    run = cur()
    if ia and ib:
        if cb is not None and cb > 0:
            return SInt(ea % eb)
        run.safety("div", eb != 0)
        k, r = run.fresh("fdiv", "int"), run.fresh("fmod", "int")
        fact = z3.And(ea == k * eb + r, z3.Or(z3.And(eb > 0, r >= 0, r < eb), z3.And(eb < 0, r <= 0, r > eb)))
        run.add_def(k, fact)
        run.add_def(r, fact)
        return SInt(r)
    ra, rb = real_expr(a), real_expr(b)
    # modulus must be provably positive: concrete, or a positive multiple of pi
    pos = cb is not None and cb > 0
    two_pi = False
    if not pos:
        co = _pi_coeff(rb)
        if co is not None and co > 0:
            pos = True
            two_pi = co == 2
    if not pos:
        raise EngineLimit(f"modulo by {rb}: not a positive constant")
    k, r = _quotrem(ra, rb)
    res = SReal(r)
    if two_pi:
        c, s = cossin(ra)
        _reg_trig(r, c, s)
    run._keep.append((r, k))
    return res


def _pi_coeff(e):
    """Fraction q if e is structurally q*pi, else None"""
    run = cur()
    if e.eq(run.pi):
        return Fraction(1)
    if z3.is_app_of(e, z3.Z3_OP_MUL) and e.num_args() == 2:
        a, b = e.arg(0), e.arg(1)
        na, nb = num_of(a), num_of(b)
        if na is not None:
            q = _pi_coeff(b)
            return None if q is None else na * q
        if nb is not None:
            q = _pi_coeff(a)
            return None if q is None else nb * q
    if z3.is_app_of(e, z3.Z3_OP_UMINUS):
        q = _pi_coeff(e.arg(0))
        return None if q is None else -q
    return None


def power(a, b):
    cb = concrete(b)
    ca = concrete(a)
    if cb is None:
        raise EngineLimit("symbolic exponent")
    if ca is not None and cb.denominator == 1:
        return _unwrap_num(ca ** int(cb), isinstance(a, (int, np.integer, SInt)) and cb >= 0)
    if cb.denominator != 1:
        cb = nice_rational(float(cb))
    if cb.denominator == 1:
        n = int(cb)
        if n == 0:
            return SReal(rv(1))
        base = a
        res = None
        for _ in range(abs(n)):
            res = base if res is None else mul(res, base)
        return res if n > 0 else div(1, res)
    # rational power p/q of a positive base: w^q = a^p, w > 0
    p, q = cb.numerator, cb.denominator
    if q == 2 and p == 1:
        return sqrt(a)
    run = cur()
    ea = real_expr(a)
    run.safety("root", ea > 0)
    w = run.fresh("w")
    wq = w
    for _ in range(q - 1):
        wq = wq * w
    ap = power(SReal(ea), abs(p))
    run.add_def(w, w > 0, wq == ap.e)
    run.axioms_used.add("x**(p/q) for x>0 is the positive w with w^q = x^p")
    res = SReal(w)
    return res if p > 0 else div(1, res)


def absolute(a):
    ca = concrete(a)
    e, ii = lift(a)
    if ca is not None:
        return _unwrap_num(abs(ca), ii)
    return wrap(z3.If(e >= 0, e, -e))


def cmp(a, b, op):
    ca, cb = concrete(a), concrete(b)
    if ca is not None and cb is not None:
        return {"<": ca < cb, "<=": ca <= cb, ">": ca > cb, ">=": ca >= cb, "==": ca == cb, "!=": ca != cb}[op]
    ea, eb, _ = _both(a, b)
    return SBool({"<": ea < eb, "<=": ea <= eb, ">": ea > eb, ">=": ea >= eb, "==": ea == eb, "!=": ea != eb}[op])


def floor(a):
    """numpy.floor / math.floor: returns an integer-valued SInt"""
    if isinstance(a, SInt):
        return a
    ca = concrete(a)
    if ca is not None:
        return math.floor(ca)
    run = cur()
    e = real_expr(a)
    k = run.fresh("floor", "int")
    run.add_def(k, z3.ToReal(k) <= e, e < z3.ToReal(k) + 1)
    return SInt(k)


def ceil(a):
    if isinstance(a, SInt):
        return a
    ca = concrete(a)
    if ca is not None:
        return math.ceil(ca)
    run = cur()
    e = real_expr(a)
    k = run.fresh("ceil", "int")
    run.add_def(k, z3.ToReal(k) >= e, e > z3.ToReal(k) - 1)
    return SInt(k)


def sign(a):
    ca = concrete(a)
    if ca is not None:
        return (ca > 0) - (ca < 0)
    e = real_expr(a)
    return SReal(z3.If(e > 0, rv(1), z3.If(e < 0, rv(-1), rv(0))))


def ite(c, a, b):
    if isinstance(c, (bool, np.bool_)):
        return a if c else b
    ea, eb, _ = _both(a, b)
    return wrap(z3.If(lift_bool(c), ea, eb))


# --------------------------------------------------------------------------------------------
# sqrt
# --------------------------------------------------------------------------------------------

def sqrt(a):
    if isinstance(a, Dual):
        return a.sqrt()
    if isinstance(a, np.ndarray):
        return np.frompyfunc(sqrt, 1, 1)(a)
    ca = concrete(a)
    if ca is not None and not isinstance(a, SNum) and CUR is None:
        return math.sqrt(a)
    if ca is not None:
        a = SReal(rv(ca))
        if ca < 0:
            cur().safety("sqrt", z3.BoolVal(False))
            raise PathEnd("sqrt of negative")
        n, d = math.isqrt(ca.numerator), math.isqrt(ca.denominator)
        if n * n == ca.numerator and d * d == ca.denominator:
            return SReal(rv(Fraction(n, d)))
    run = cur()
    ea = real_expr(a)
    run.safety("sqrt", ea >= 0)
    key = ("sqrt", ea.get_id())
    memo = run.__dict__.setdefault("memo", {})
    if key in memo:
        return SReal(memo[key][1])
    s = run.fresh("s")
    run.add_def(s, s * s == ea, s >= 0)
    memo[key] = (ea, s)
    return SReal(s)


# --------------------------------------------------------------------------------------------
# trigonometry:  cossin(t) -> (c, s) as z3 terms
# --------------------------------------------------------------------------------------------

_HALF_PI_TABLE = {0: (1, 0), 1: (0, 1), 2: (-1, 0), 3: (0, -1)}


def _canon(t):
    """polynomial normal form of an argument term: polynomially equal arguments share one (cos, sin) pair"""
    try:
        return z3.simplify(t, som=True, sort_sums=True)
    except z3.Z3Exception:
        return t


def _reg_trig(atom, c, s):
    run = cur()
    run.trig[atom.get_id()] = (atom, c, s)
    ca = _canon(atom)
    run.trig.setdefault(ca.get_id(), (atom, c, s))
    run._keep.append(atom)
    run._keep.append(ca)


def _resolve_pi_multiple(t):
    """if the path facts entail t == k*pi/2 for an integer k, return k (else None).
    Only used when the contract switches `run.trig_resolve` on."""
    run = cur()
    hyps = run.context(t == 0)
    s = z3.Solver()
    s.set("timeout", 3000)
    s.add(*hyps)
    if s.check() != z3.sat:
        return None
    m = s.model()
    try:
        tv = m.eval(t, model_completion=True)
        tv = float(tv.as_fraction()) if z3.is_rational_value(tv) else float(tv.approx(12).as_fraction())
    except Exception:
        return None
    k = round(2 * tv / math.pi)
    if abs(k) > 16:
        return None
    s2 = z3.Solver()
    s2.set("timeout", 5000)
    s2.add(*hyps)
    s2.add(t != rv(Fraction(k, 2)) * run.pi)
    if s2.check() == z3.unsat:
        return k
    return None


def _atom_pair(t):
    run = cur()
    hit = run.trig.get(t.get_id())
    if hit is None:
        hit = run.trig.get(_canon(t).get_id())
    if hit is not None:
        return hit[1], hit[2]
    if getattr(run, "trig_resolve", False) and not z3.is_const(t):
        k = _resolve_pi_multiple(t)
        if k is not None:
            c0, s0 = _HALF_PI_TABLE[k % 4]
            run.axioms_used.add("cos/sin at multiples of pi/2")
            _reg_trig(t, rv(c0), rv(s0))
            return rv(c0), rv(s0)
    n = next(run.counter)
    c, s = z3.Real(f"cos!{n}"), z3.Real(f"sin!{n}")
    circ = c * c + s * s == 1
    run.add_def(c, circ, c >= -1, c <= 1)
    run.add_def(s, circ, s >= -1, s <= 1)
    _reg_trig(t, c, s)
    return c, s


def _addf(p, q):
    (c1, s1), (c2, s2) = p, q
    return _m(c1, c2) - _m(s1, s2), _m(s1, c2) + _m(c1, s2)


def _m(a, b):
    na, nb = num_of(a), num_of(b)
    if na is not None and nb is not None:
        return rv(na * nb)
    if na == 0 or nb == 0:
        return rv(0)
    if na == 1:
        return b
    if nb == 1:
        return a
    if na == -1:
        return -b
    if nb == -1:
        return -a
    return a * b


def cossin(t):
    """(cos t, sin t) of a z3 real term, by structural decomposition (sound facts only)"""
    run = cur()
    hit = run.trig.get(t.get_id())
    if hit is not None:
        return hit[1], hit[2]
    n = num_of(t)
    if n is not None:
        if n == 0:
            return rv(1), rv(0)
        return _atom_pair(t)
    q = _pi_coeff(t)
    if q is not None and (2 * q).denominator == 1:
        c, s = _HALF_PI_TABLE[int(2 * q) % 4]
        run.axioms_used.add("cos/sin at multiples of pi/2")
        return rv(c), rv(s)
    if z3.is_app_of(t, z3.Z3_OP_ADD):
        acc = cossin(t.arg(0))
        for i in range(1, t.num_args()):
            acc = _addf(acc, cossin(t.arg(i)))
        run.axioms_used.add("addition formulas of cos/sin")
        return acc
    if z3.is_app_of(t, z3.Z3_OP_SUB) and t.num_args() == 2:
        c2, s2 = cossin(t.arg(1))
        run.axioms_used.add("addition formulas of cos/sin")
        return _addf(cossin(t.arg(0)), (c2, -s2))
    if z3.is_app_of(t, z3.Z3_OP_UMINUS):
        c, s = cossin(t.arg(0))
        return c, -s
    if z3.is_app_of(t, z3.Z3_OP_TO_REAL):
        return _atom_pair(t)
    if z3.is_app_of(t, z3.Z3_OP_MUL) and t.num_args() == 2:
        a, b = t.arg(0), t.arg(1)
        k, u = (num_of(a), b) if num_of(a) is not None else (num_of(b), a)
        if k is None:
            # distribute a product over a sum: n*(t1+t2) -> n*t1 + n*t2
            for x, y, left in ((a, b, True), (b, a, False)):
                if z3.is_app_of(y, z3.Z3_OP_ADD) or (z3.is_app_of(y, z3.Z3_OP_SUB) and y.num_args() == 2):
                    parts = [(x * ch) if left else (ch * x) for ch in y.children()]
                    if z3.is_app_of(y, z3.Z3_OP_ADD):
                        tt = parts[0]
                        for p_ in parts[1:]:
                            tt = tt + p_
                    else:
                        tt = parts[0] - parts[1]
                    return cossin(tt)
                if z3.is_app_of(y, z3.Z3_OP_UMINUS):
                    c_, s_ = cossin((x * y.arg(0)) if left else (y.arg(0) * x))
                    return c_, -s_
        if k is not None:
            if k.denominator == 1 and abs(k) <= 8:
                base = cossin(u)
                acc = base
                for _ in range(abs(int(k)) - 1):
                    acc = _addf(acc, base)
                run.axioms_used.add("addition formulas of cos/sin")
                return acc if k > 0 else (acc[0], -acc[1])
            if k.numerator in (1, -1) and k.denominator <= 4:
                # t = u/m : atom for t, and relate m*t to u
                c, s = _atom_pair(t)
                base = (c, s)
                acc = base
                for _ in range(k.denominator - 1):
                    acc = _addf(acc, base)
                if k < 0:
                    acc = (acc[0], -acc[1])
                cu, su = cossin(u)
                run.add_def(c, cu == acc[0], su == acc[1])
                run.add_def(s, cu == acc[0], su == acc[1])
                run.axioms_used.add("multiple-angle formulas of cos/sin")
                return c, s
    return _atom_pair(t)


def _elementwise(f):
    def g(x, *a):
        if isinstance(x, np.ndarray):
            return np.frompyfunc(lambda v: f(v, *a), 1, 1)(x)
        return f(x, *a)
    g.__name__ = f.__name__
    return g


@_elementwise
def cos(x):
    if isinstance(x, Dual):
        return x.cos()
    if not isinstance(x, SNum):
        return math.cos(x)
    return SReal(cossin(real_expr(x))[0])


@_elementwise
def sin(x):
    if isinstance(x, Dual):
        return x.sin()
    if not isinstance(x, SNum):
        return math.sin(x)
    return SReal(cossin(real_expr(x))[1])


@_elementwise
def tan(x):
    if isinstance(x, Dual):
        return x.sin() / x.cos()
    if not isinstance(x, SNum):
        return math.tan(x)
    c, s = cossin(real_expr(x))
    return div(SReal(s), SReal(c))


def _fresh_angle(prefix, lo, hi, lo_strict, hi_strict):
    run = cur()
    a = run.fresh(prefix)
    c, s = _atom_pair(a)
    lo_e = lo if z3.is_expr(lo) else rv(lo)
    hi_e = hi if z3.is_expr(hi) else rv(hi)
    rng = [a > lo_e if lo_strict else a >= lo_e, a < hi_e if hi_strict else a <= hi_e]
    run.add_def(a, *rng)
    return a, c, s


def _sign_axioms_pm_pi(a, c, s):
    """for a in (-pi, pi]: sign relations between the angle and its (cos, sin) (true facts)"""
    run = cur()
    pi = run.pi
    facts = [
        (s > 0) == z3.And(a > 0, a < pi),
        (s < 0) == (a < 0),
        z3.Implies(z3.And(s == 0, c > 0), a == 0),
        z3.Implies(z3.And(s == 0, c < 0), a == pi),
        (c > 0) == z3.And(a > -pi / 2, a < pi / 2),
        (c == 0) == z3.Or(a == pi / 2, a == -pi / 2),
    ]
    run.add_def(a, *facts)
    run.axioms_used.add("sign of cos/sin on (-pi, pi]")


def _sign_axioms_facts(run, label, a, c, s):
    """same relations as _sign_axioms_pm_pi, added as path facts (used for angles that are not fresh variables)"""
    pi = run.pi
    for f in [(s > 0) == z3.And(a > 0, a < pi), (s < 0) == (a < 0), z3.Implies(z3.And(s == 0, c > 0), a == 0),
              z3.Implies(z3.And(s == 0, c < 0), a == pi), (c > 0) == z3.And(a > -pi / 2, a < pi / 2), (c == 0) == z3.Or(a == pi / 2, a == -pi / 2)]:
        run.add_fact("axiom", label, f)
    run.axioms_used.add("sign of cos/sin on (-pi, pi]")


def arctan2(y, x):
    if isinstance(y, Dual) or isinstance(x, Dual):
        return Dual.arctan2(y, x)
    if isinstance(y, np.ndarray) or isinstance(x, np.ndarray):
        return np.frompyfunc(arctan2, 2, 1)(y, x)
    if not isinstance(y, SNum) and not isinstance(x, SNum):
        return math.atan2(y, x)
    run = cur()
    ey, ex = real_expr(y), real_expr(x)
    # a function: the same two argument terms give the same angle (lets a contract name the angle the code computes)
    memo = run.__dict__.setdefault("atan2_memo", {})
    key = (ey.get_id(), ex.get_id())
    if key in memo:
        return SReal(memo[key][0])
    run.safety("arctan2", z3.Or(ey != 0, ex != 0))
    pi = run.pi
    a, c, s = _fresh_angle("atan2", -pi, pi, True, False)
    memo[key] = (a, ey, ex)
    rho = run.fresh("rho")
    run.add_def(rho, rho > 0, rho * rho == ex * ex + ey * ey)
    run.add_def(a, c * rho == ex, s * rho == ey, rho > 0, rho * rho == ex * ex + ey * ey)
    run.add_def(c, c * rho == ex)
    run.add_def(s, s * rho == ey)
    _sign_axioms_pm_pi(a, c, s)
    run.axioms_used.add("arctan2(y,x)=a in (-pi,pi] with (x,y)=rho(cos a, sin a), rho>0")
    return SReal(a)


@_elementwise
def arccos(x):
    if isinstance(x, Dual):
        return x.arccos()
    if not isinstance(x, SNum):
        return math.acos(x)
    run = cur()
    ex = real_expr(x)
    run.safety("arccos", z3.And(ex >= -1, ex <= 1))
    a, c, s = _fresh_angle("acos", 0, run.pi, False, False)
    run.add_def(a, c == ex, s >= 0)
    run.add_def(c, c == ex)
    run.add_def(s, s >= 0)
    _sign_axioms_pm_pi(a, c, s)
    run.axioms_used.add("arccos(x)=a in [0,pi] with cos a = x")
    return SReal(a)


@_elementwise
def arcsin(x):
    if isinstance(x, Dual):
        return x.arcsin()
    if not isinstance(x, SNum):
        return math.asin(x)
    run = cur()
    ex = real_expr(x)
    run.safety("arcsin", z3.And(ex >= -1, ex <= 1))
    a, c, s = _fresh_angle("asin", -run.pi / 2, run.pi / 2, False, False)
    run.add_def(a, s == ex, c >= 0)
    run.add_def(s, s == ex)
    run.add_def(c, c >= 0)
    _sign_axioms_pm_pi(a, c, s)
    run.axioms_used.add("arcsin(x)=a in [-pi/2,pi/2] with sin a = x")
    return SReal(a)


@_elementwise
def arctan(x):
    if isinstance(x, Dual):
        return x.arctan()
    if not isinstance(x, SNum):
        return math.atan(x)
    run = cur()
    ex = real_expr(x)
    a, c, s = _fresh_angle("atan", -run.pi / 2, run.pi / 2, True, True)
    run.add_def(a, s == ex * c, c > 0)
    run.add_def(s, s == ex * c)
    run.add_def(c, c > 0)
    _sign_axioms_pm_pi(a, c, s)
    run.axioms_used.add("arctan(x)=a in (-pi/2,pi/2) with tan a = x")
    return SReal(a)


def radians(x):
    if isinstance(x, (list, tuple)):
        x = np.array(list(x), dtype=object)
    if isinstance(x, np.ndarray):
        return np.frompyfunc(radians, 1, 1)(x)
    if not isinstance(x, (SNum, Dual)):
        return math.radians(x)
    return x * SReal(cur().pi) / 180


def degrees(x):
    if isinstance(x, (list, tuple)):
        x = np.array(list(x), dtype=object)
    if isinstance(x, np.ndarray):
        return np.frompyfunc(degrees, 1, 1)(x)
    if not isinstance(x, (SNum, Dual)):
        return math.degrees(x)
    return x * 180 / SReal(cur().pi)


# --------------------------------------------------------------------------------------------
# hyperbolic functions
# --------------------------------------------------------------------------------------------

def coshsinh(t):
    run = cur()
    hit = run.hyp.get(t.get_id())
    if hit is not None:
        return hit[1], hit[2]
    n = num_of(t)
    if n == 0:
        return rv(1), rv(0)
    if z3.is_app_of(t, z3.Z3_OP_UMINUS):
        ch, sh = coshsinh(t.arg(0))
        return ch, -sh
    if z3.is_app_of(t, z3.Z3_OP_ADD) and t.num_args() == 2:
        (c1, s1), (c2, s2) = coshsinh(t.arg(0)), coshsinh(t.arg(1))
        run.axioms_used.add("addition formulas of cosh/sinh")
        return _m(c1, c2) + _m(s1, s2), _m(s1, c2) + _m(c1, s2)
    if z3.is_app_of(t, z3.Z3_OP_SUB) and t.num_args() == 2:
        (c1, s1), (c2, s2) = coshsinh(t.arg(0)), coshsinh(t.arg(1))
        run.axioms_used.add("addition formulas of cosh/sinh")
        return _m(c1, c2) - _m(s1, s2), _m(s1, c2) - _m(c1, s2)
    k = next(run.counter)
    ch, sh = z3.Real(f"cosh!{k}"), z3.Real(f"sinh!{k}")
    facts = [ch * ch - sh * sh == 1, ch >= 1, (sh > 0) == (t > 0), (sh < 0) == (t < 0), (sh == 0) == (t == 0)]
    run.add_def(ch, *facts)
    run.add_def(sh, *facts)
    run.hyp[t.get_id()] = (t, ch, sh)
    run._keep.append(t)
    run.axioms_used.add("cosh^2-sinh^2=1, cosh>=1, sign(sinh x)=sign(x)")
    return ch, sh


@_elementwise
def cosh(x):
    if isinstance(x, Dual):
        return x.cosh()
    if not isinstance(x, SNum):
        return math.cosh(x)
    return SReal(coshsinh(real_expr(x))[0])


@_elementwise
def sinh(x):
    if isinstance(x, Dual):
        return x.sinh()
    if not isinstance(x, SNum):
        return math.sinh(x)
    return SReal(coshsinh(real_expr(x))[1])


@_elementwise
def arcsinh(x):
    if isinstance(x, Dual):
        a = arcsinh(x.v)
        return Dual(a, x.d / cosh(a))
    if not isinstance(x, SNum):
        return math.asinh(x)
    run = cur()
    ex = real_expr(x)
    h = run.fresh("asinh")
    ch, sh = coshsinh(h)
    run.add_def(h, sh == ex)
    run.add_def(sh, sh == ex)
    run.axioms_used.add("arcsinh(x)=h with sinh h = x")
    return SReal(h)


@_elementwise
def arccosh(x):
    if isinstance(x, Dual):
        a = arccosh(x.v)
        return Dual(a, x.d / sinh(a))
    if not isinstance(x, SNum):
        return math.acosh(x)
    run = cur()
    ex = real_expr(x)
    run.safety("arccosh", ex >= 1)
    h = run.fresh("acosh")
    ch, sh = coshsinh(h)
    facts = [ch == ex, h >= 0]
    run.add_def(h, *facts)
    run.add_def(ch, *facts)
    run.add_def(sh, *facts)
    run.axioms_used.add("arccosh(x)=h >= 0 with cosh h = x, x>=1")
    return SReal(h)


@_elementwise
def arctanh(x):
    if isinstance(x, Dual):
        return x.arctanh()
    if not isinstance(x, SNum):
        return math.atanh(x)
    run = cur()
    ex = real_expr(x)
    run.safety("arctanh", z3.And(ex > -1, ex < 1))
    h = run.fresh("atanh")
    ch, sh = coshsinh(h)
    run.add_def(h, sh == ex * ch)
    run.add_def(ch, sh == ex * ch)
    run.add_def(sh, sh == ex * ch)
    run.axioms_used.add("arctanh(x)=h with tanh h = x, |x|<1")
    return SReal(h)


# --------------------------------------------------------------------------------------------
# dual numbers (value, time derivative)
# --------------------------------------------------------------------------------------------

class Dual:
    """v + dv*eps : used to state `velocity is the time derivative of position` by
    differentiating the code's own expressions (chain rule, standard derivative table)."""
    __slots__ = ("v", "d")

    def __init__(self, v, d=0):
        self.v, self.d = v, d

    __hash__ = object.__hash__

    @staticmethod
    def of(x):
        return x if isinstance(x, Dual) else Dual(x, 0)

    def _ok(self, o):
        return isinstance(o, (Dual, SNum)) or _is_num(o)

    def __add__(self, o):
        if not self._ok(o):
            return NotImplemented
        o = Dual.of(o)
        return Dual(self.v + o.v, self.d + o.d)

    __radd__ = __add__

    def __sub__(self, o):
        if not self._ok(o):
            return NotImplemented
        o = Dual.of(o)
        return Dual(self.v - o.v, self.d - o.d)

    def __rsub__(self, o):
        if not self._ok(o):
            return NotImplemented
        o = Dual.of(o)
        return Dual(o.v - self.v, o.d - self.d)

    def __mul__(self, o):
        if not self._ok(o):
            return NotImplemented
        o = Dual.of(o)
        return Dual(self.v * o.v, self.d * o.v + self.v * o.d)

    __rmul__ = __mul__

    def __truediv__(self, o):
        if not self._ok(o):
            return NotImplemented
        o = Dual.of(o)
        q = self.v / o.v
        return Dual(q, (self.d - q * o.d) / o.v)

    def __rtruediv__(self, o):
        if not self._ok(o):
            return NotImplemented
        return Dual.of(o) / self

    def __neg__(self):
        return Dual(-self.v, -self.d)

    def __pos__(self):
        return self

    def __pow__(self, k):
        ck = concrete(k)
        if ck is None:
            raise EngineLimit("symbolic exponent")
        if ck.denominator != 1:
            ck = nice_rational(float(ck))
        if ck == Fraction(1, 2):
            return self.sqrt()
        if ck.denominator != 1:
            w = power(self.v, ck)  # d(w) = ck * w / v * dv
            return Dual(w, w * self.d * ck / self.v)
        n = int(ck)
        if n == 0:
            return Dual(1, 0)
        res = None
        for _ in range(abs(n)):
            res = self if res is None else res * self
        return res if n > 0 else 1 / res

    def __mod__(self, m):
        return Dual(self.v % m, self.d)

    def __abs__(self):
        raise EngineLimit("abs of a dual number")

    def _cmp(self, o, op):
        o = Dual.of(o)
        return cmp(self.v, o.v, op)

    def __lt__(self, o):
        return self._cmp(o, "<")

    def __le__(self, o):
        return self._cmp(o, "<=")

    def __gt__(self, o):
        return self._cmp(o, ">")

    def __ge__(self, o):
        return self._cmp(o, ">=")

    def cos(self):
        return Dual(cos(self.v), -(sin(self.v) * self.d))

    def sin(self):
        return Dual(sin(self.v), cos(self.v) * self.d)

    def tan(self):
        return self.sin() / self.cos()

    def cosh(self):
        return Dual(cosh(self.v), sinh(self.v) * self.d)

    def sinh(self):
        return Dual(sinh(self.v), cosh(self.v) * self.d)

    def sqrt(self):
        s = sqrt(self.v)
        return Dual(s, self.d / (2 * s))

    def arcsin(self):
        a = arcsin(self.v)
        return Dual(a, self.d / cos(a))

    def arccos(self):
        a = arccos(self.v)
        return Dual(a, -(self.d / sin(a)))

    def arctan(self):
        a = arctan(self.v)
        return Dual(a, self.d / (1 + self.v * self.v))

    def arctanh(self):
        a = arctanh(self.v)
        return Dual(a, self.d / (1 - self.v * self.v))

    @staticmethod
    def arctan2(y, x):
        y, x = Dual.of(y), Dual.of(x)
        a = arctan2(y.v, x.v)
        return Dual(a, (x.v * y.d - y.v * x.d) / (x.v * x.v + y.v * y.v))

    def conjugate(self):
        return self

    def __repr__(self):
        return f"Dual({self.v}, {self.d})"


# --------------------------------------------------------------------------------------------
# helpers for contracts
# --------------------------------------------------------------------------------------------

def uf(name, *args):
    """application of an uninterpreted real function (abstracts a callee by its purity only)"""
    f = z3.Function(name, *([z3.RealSort()] * len(args)), z3.RealSort())
    return SReal(f(*[real_expr(a) for a in args]))


def is_sym(x):
    if isinstance(x, (SNum, SBool, Dual)):
        return True
    if isinstance(x, np.ndarray) and x.dtype == object:
        return any(isinstance(v, (SNum, Dual)) for v in x.ravel())
    if isinstance(x, (list, tuple)):
        return any(is_sym(v) for v in x)
    return False
