"""pyvc.discharge -- discharge obligations `hyps ==> goal` with z3, cvc5 and the ideal back end.

status: proved (hyps & !goal unsat) | refuted (sat, with model) | unknown.
`unknown` is never mapped to a violation.
"""
import multiprocessing as mp
import os
import subprocess
import tempfile
import time

import z3

CVC5 = "/usr/bin/cvc5"


def to_smt2(hyps, goal):
    s = z3.Solver()
    for h in hyps:
        s.add(h)
    s.add(z3.Not(goal))
    return s.to_smt2()


def _model_dict(m):
    out = {}
    for d in m.decls():
        v = m[d]
        try:
            if z3.is_rational_value(v):
                out[d.name()] = f"{v.numerator_as_long()}/{v.denominator_as_long()}"
            elif z3.is_int_value(v):
                out[d.name()] = str(v.as_long())
            elif z3.is_algebraic_value(v):
                out[d.name()] = v.approx(20).as_decimal(20).rstrip("?")
            elif z3.is_true(v) or z3.is_false(v):
                out[d.name()] = str(z3.is_true(v))
            else:
                out[d.name()] = str(v)
        except Exception:
            out[d.name()] = str(v)
    return out


def _in_child(fn, args, hard_s):
    """run fn(*args) in a forked child with a hard wall-clock limit (solver timeouts are not always honoured)"""
    ctx = mp.get_context("fork")
    rd, wr = ctx.Pipe(duplex=False)

    def child():
        try:
            wr.send(fn(*args))
        except BaseException as e:  # noqa
            try:
                wr.send(("unknown", f"child error {e!r}"[:200], 0.0))
            except Exception:
                pass
    t0 = time.time()
    pr = ctx.Process(target=child)
    pr.start()
    wr.close()
    res = None
    try:
        if rd.poll(hard_s):
            res = rd.recv()
    except (EOFError, OSError):
        res = None
    if pr.is_alive():
        pr.kill()
    pr.join()
    rd.close()
    if res is None:
        return "unknown", "hard timeout (solver did not honour its own limit)", time.time() - t0
    return res


def _z3_try(smt2, timeout_ms, tactic=None, seed=0):
    return _in_child(_z3_try_inproc, (smt2, timeout_ms, tactic), timeout_ms / 1000.0 + 3)


def _z3_try_inproc(smt2, timeout_ms, tactic=None, seed=0):
    t0 = time.time()
    ctx = z3.Context()
    try:
        if tactic:
            s = z3.Tactic(tactic, ctx=ctx).solver()
        else:
            s = z3.Solver(ctx=ctx)
        s.set("timeout", int(timeout_ms))
        s.from_string(smt2)
        r = s.check()
        if r == z3.unsat:
            return "proved", None, time.time() - t0
        if r == z3.sat:
            return "refuted", _model_dict(s.model()), time.time() - t0
        return "unknown", s.reason_unknown(), time.time() - t0
    except z3.Z3Exception as e:
        return "unknown", f"z3 exception: {e}", time.time() - t0


def _cvc5_try(smt2, timeout_ms, opts=()):
    """cvc5 1.4 through its Python API (built with libpoly: --nl-cov available); runs in a child
    process so that tlimit overruns cannot hang the pool"""
    import multiprocessing as mp_
    t0 = time.time()
    text = "(set-logic ALL)\n" + "\n".join(l for l in smt2.splitlines() if not l.startswith("(set-info"))
    ctx = mp_.get_context("fork")
    rd, wr = ctx.Pipe(duplex=False)

    def child():
        try:
            import cvc5
            slv = cvc5.Solver()
            slv.setOption("tlimit-per", str(int(timeout_ms)))
            for o in opts:
                slv.setOption(o, "true")
            p = cvc5.InputParser(slv)
            p.setStringInput(cvc5.InputLanguage.SMT_LIB_2_6, text, "q")
            sm = p.getSymbolManager()
            res = "unknown"
            while True:
                cmd = p.nextCommand()
                if cmd.isNull():
                    break
                out = cmd.invoke(slv, sm).strip()
                if out in ("sat", "unsat", "unknown"):
                    res = out
            wr.send(res)
        except BaseException as e:  # noqa
            wr.send(f"error {e!r}"[:200])
    pr = ctx.Process(target=child, daemon=False)
    pr.start()
    res = "unknown"
    if rd.poll(timeout_ms / 1000 + 5):
        res = rd.recv()
    if pr.is_alive():
        pr.kill()
    pr.join()
    dt = time.time() - t0
    if res == "unsat":
        return "proved", None, dt
    if res == "sat":
        return "refuted", {}, dt
    return "unknown", res, dt


def abstract_smt2(smt2):
    """Generalisation step: every sum/difference subterm that occurs at least twice (as the same
    AST) is replaced by a fresh variable, consistently.  The abstracted formula being unsat implies
    the original is unsat (the original is an instance).  A `sat` answer of the abstraction means
    nothing and is discarded."""
    ctx = z3.Context()
    fs = z3.parse_smt2_string(smt2, ctx=ctx)
    parents = {}
    seen = set()
    stack = list(fs)
    nodes = {}
    while stack:
        e = stack.pop()
        i = e.get_id()
        if i in seen:
            continue
        seen.add(i)
        if z3.is_quantifier(e):
            return None
        for ch in e.children():
            if z3.is_app(ch) and ch.decl().kind() in (z3.Z3_OP_ADD, z3.Z3_OP_SUB) and ch.sort().kind() == z3.Z3_REAL_SORT:
                parents[ch.get_id()] = parents.get(ch.get_id(), 0) + 1
                nodes[ch.get_id()] = ch
            stack.append(ch)
    chosen = [nodes[i] for i, n in parents.items() if n >= 2]
    if not chosen:
        return None
    subs = [(t, z3.Real(f"abs!{k}", ctx)) for k, t in enumerate(chosen)]
    s = z3.Solver(ctx=ctx)
    for f in fs:
        s.add(z3.substitute(f, *subs))
    return s.to_smt2()


def solve_one(job):
    """job = (name, smt2, budget_ms, has_int, ideal_payload).  Returns a result dict."""
    name, smt2, budget, has_int, ideal = job
    tried = []
    total = 0.0
    if ".cover@" in name:
        # vacuity guard: only a quick satisfiability probe (sat or unknown are both fine)
        st, info, dt = _z3_try(smt2, 3000)
        return {"name": name, "status": st, "info": info, "backend": "z3", "tried": [("z3", st, round(dt, 3))], "solver_s": round(dt, 3)}
    # 1. z3 default, short first slice (most obligations close in milliseconds)
    first = min(budget, 4000) if not has_int else budget
    st, info, dt = _z3_try(smt2, first)
    tried.append(("z3", st, round(dt, 3)))
    total += dt
    if st == "unknown" and not has_int:
        try:
            ab = abstract_smt2(smt2)
        except Exception:  # noqa
            ab = None
        if ab is not None:
            st2, info2, dt = _z3_try(ab, min(budget, 8000))
            tried.append(("z3-abstracted", st2 if st2 == "proved" else "unknown", round(dt, 3)))
            total += dt
            if st2 == "proved":
                st, info = "proved", "proved after abstracting repeated sums by fresh variables"
    if st == "unknown" and ideal is not None:
        from . import ideal as ideal_mod
        t0 = time.time()
        try:
            ok, cert = ideal_mod.prove(ideal, budget / 1000.0 * 2)
        except Exception as e:  # noqa
            ok, cert = False, f"ideal error {e!r}"
        dt = time.time() - t0
        total += dt
        tried.append(("ideal", "proved" if ok else "unknown", round(dt, 3)))
        if ok:
            st, info = "proved", cert
    if st == "unknown" and first < budget:
        st, info, dt = _z3_try(smt2, budget - first)
        tried.append(("z3", st, round(dt, 3)))
        total += dt
    if st == "unknown" and not has_int:
        st, info, dt = _z3_try(smt2, budget, tactic="qfnra-nlsat")
        tried.append(("z3-nlsat", st, round(dt, 3)))
        total += dt
    if st == "unknown":
        st2, info2, dt = _cvc5_try(smt2, budget, ("nl-cov",) if not has_int else ())
        tried.append(("cvc5", st2, round(dt, 3)))
        total += dt
        if st2 == "proved":
            st, info = st2, info2
        elif st2 == "refuted":
            # cvc5 1.0 CLI gives no model here; a refutation without a model is kept as unknown
            # unless z3 can confirm it; we report unknown (never a violation on one solver's word
            # without a model to replay)
            st, info = "unknown", "cvc5 says sat (no model)"
    backend = next((b for b, s, _ in reversed(tried) if s == st), tried[-1][0])
    return {"name": name, "status": st, "info": info, "backend": backend, "tried": tried, "solver_s": round(total, 3)}


def has_int_sort(exprs):
    seen = set()
    stack = list(exprs)
    while stack:
        e = stack.pop()
        i = e.get_id()
        if i in seen:
            continue
        seen.add(i)
        if z3.is_quantifier(e):
            stack.append(e.body())
            continue
        if e.sort() == z3.IntSort():
            return True
        stack.extend(e.children())
    return False


def make_job(o, ideal_enabled=True):
    """serialise one obligation (done in the process that owns the z3 terms)"""
    from . import ideal as ideal_mod
    smt2 = to_smt2(o.hyps, o.goal)
    hi = has_int_sort(list(o.hyps) + [o.goal])
    payload = None
    if ideal_enabled and not hi and ".cover@" not in o.name:
        try:
            payload = ideal_mod.payload(o.hyps, o.goal)
        except RecursionError:
            payload = None
    return (o.name, smt2, o.meta.get("budget_ms"), hi, payload)


def discharge_jobs(jobs, budget_ms=20000, procs=None):
    """jobs: tuples from make_job -> list of result dicts (same order)"""
    jobs = [(n, s, (b or budget_ms), hi, pl) for (n, s, b, hi, pl) in jobs]
    procs = procs or min(16, os.cpu_count() or 4)
    if len(jobs) <= 1 or procs == 1:
        return [solve_one(j) for j in jobs]
    from concurrent.futures import ProcessPoolExecutor
    with ProcessPoolExecutor(max_workers=procs, mp_context=mp.get_context("fork")) as ex:
        return list(ex.map(solve_one, jobs, chunksize=1))
