#!/bin/sh
# Builds /verif/.venv offline: python3.12 venv + wheels from /opt/veriftools/wheels,
# with a .pth that adds /venv's site-packages (numpy, sgp4, jplephem, lxml, editable beyond -> /repo).
set -e
cd "$(dirname "$0")"
if [ -x .venv/bin/python ] && .venv/bin/python -c "import z3, cvc5, sympy, deal, jsonschema, numpy, beyond" 2>/dev/null; then
  echo "setup: .venv already usable"; exit 0
fi
rm -rf .venv
/venv/bin/python -m venv .venv
PIP_NO_INDEX=1 .venv/bin/pip install -q --no-index --find-links /opt/veriftools/wheels \
    z3-solver cvc5 sympy deal icontract jsonschema crosshair-tool hypothesis
SP=$(.venv/bin/python -c "import sysconfig; print(sysconfig.get_paths()['purelib'])")
echo "import site; site.addsitedir('/venv/lib/python3.12/site-packages')" > "$SP/zz_repo_venv.pth"
.venv/bin/python -c "import z3, cvc5, sympy, deal, jsonschema, numpy, beyond; print('setup ok', z3.get_version_string(), numpy.__version__, beyond.__file__)"
